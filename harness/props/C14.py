"""C14 — ranking, crowding distance and rank selection.

T  static Coq proofs (Properties/C14.v).
K2 the real operators (RankBasedPreferenceSorting, fast_epsilon_dominance_assignment, the three
   comparators, RankSelection.get_index) are run on random populations / boundary lattices and the
   Coq model replays every case bit-exactly (binary64 through PrimFloat).
S  direct oracles that state the property on the implementation alone: best-per-goal in front 0,
   later fronts = non-dominated sets of the not yet ranked, 0 <= distance < 1, index in range,
   index monotone in the random value, index = the index of the real-valued formula (decided in
   exact rational arithmetic through the inverse quadratic, with a rigorous rounding tolerance).
"""
from __future__ import annotations

import json
import math
import struct
from fractions import Fraction

import vlib
from vlib import cZ, cbool, cfloat, clist, cnat, copt

SRC = ["src/pynguin/ga/operators/ranking.py", "src/pynguin/ga/operators/selection.py",
       "src/pynguin/ga/operators/comparator.py", "src/pynguin/configuration.py"]


# ------------------------------------------------------------------------------------------------
# stand-ins for chromosomes / goals (the operators only use get_fitness_for, length, ==, hash,
# rank, distance)
class Goal:
    def __init__(self, idx):
        self.idx = idx

    def __repr__(self):
        return f"g{self.idx}"


# Order embeddings codes -> floats.  The model compares the integer codes exactly; the operators see floats
# that are small multiples of 0.25, or distinct but nearly equal values (relative distance 1e-10 .. 1 ulp):
# neighbouring normalised distances d/(d+1) for large d, nextafter neighbours, large raw distances a few ulps apart.
def _ulps(base, k):
    x = base
    for _ in range(k):
        x = math.nextafter(x, math.inf)
    return x


PALETTES = {
    "quarter": lambda c: c * 0.25,
    "normalised-5e4": lambda c: (49999.0 + c) / (50000.0 + c),          # 0.99998000039..., 0.99998000079..., ...
    "normalised-1e7": lambda c: (1e7 + c) / (1e7 + 1.0 + c),
    "nextafter-0.5": lambda c: _ulps(0.5, c),
    "nextafter-1": lambda c: _ulps(1.0, c),
    "raw-1e12": lambda c: 1e12 + 16.0 * c,                                # 1e12 vs 1e12+16
    "raw-1e15-ulps": lambda c: _ulps(1e15, 3 * c),
    "tiny": lambda c: c * 5e-324,
}
for _name, _f in PALETTES.items():                                         # strictly increasing = order embedding
    _v = [_f(c) for c in range(60)]
    assert all(a < b for a, b in zip(_v, _v[1:])), _name


class Ind:
    def __init__(self, key, codes, length, pal="quarter"):
        self.key, self.codes, self.len, self.pal = key, codes, length, pal
        self.row = [PALETTES[pal](c) for c in codes]
        self.rank = -1
        self.distance = -1.0

    def get_fitness_for(self, goal):
        return self.row[goal.idx]

    def length(self):
        return self.len

    def __eq__(self, other):
        return isinstance(other, Ind) and self.key == other.key

    def __hash__(self):
        return hash(self.key)

    def __repr__(self):
        return f"Ind({self.key},{self.codes},{self.len})"


def mk_goals(idxs):
    from pynguin.utils.orderedset import OrderedSet
    return OrderedSet([Goal(i) for i in idxs])


# ------------------------------------------------------------------------------------------------
# generators
def gen_population(rng):
    n = rng.choice([1, 1, 2, 3, 4, 5, 8, 12, 20, 33, 64, rng.randint(1, 64)])
    width = rng.choice([1, 2, 3, 4, 6])
    ngoals = rng.choice([0, 1, 1, 2, 3, width, width])
    span = rng.choice([1, 2, 3, 5, 50])
    lens = rng.choice([1, 2, 4, 30])
    sols = []
    for k in range(n):
        if sols and rng.random() < 0.15:                      # an equal (==) chromosome
            o = rng.choice(sols)
            sols.append((o[0], list(o[1]), o[2]))
        else:
            sols.append((k, [rng.randrange(span + 1) for _ in range(width)], rng.randint(1, lens)))
    goals = [rng.randrange(width) for _ in range(ngoals)]
    goals = list(dict.fromkeys(goals))                         # goals form a set
    pop = rng.choice([1, 2, 5, 10, 10, 50, 50, 100, n, max(1, n // 2)])
    coins = [rng.random() < 0.5 for _ in range(len(goals) * n + 1)]
    return {"goals": goals, "pop": pop, "sols": sols, "coins": coins, "pal": rng.choice(list(PALETTES) + ["quarter"])}


def make_objs(case):
    objs = [Ind(k, codes, ln, case.get("pal", "quarter")) for k, codes, ln in case["sols"]]
    for o, r in zip(objs, case.get("ranks") or []):
        o.rank = r                                   # stale attribute from an earlier round / a clone
    for o, d in zip(objs, case.get("dists") or []):
        o.distance = d
    return objs


def preset_attrs(rng, case):
    """Arbitrary incoming rank/distance attributes (they are outputs only)."""
    n = len(case["sols"])
    case["ranks"] = [rng.choice([-1, 0, 0, 0, 1, 2, 5]) for _ in range(n)]
    case["dists"] = [rng.choice([-1.0, 0, 0.0, 0.5, 1.0, 7.0]) for _ in range(n)]
    return case


def next_round(rng, case, objs):
    """The next generation ranks the same objects again: some goals got covered (the goal set changes),
    clones / offspring of ranked individuals join (clone() copies rank and distance), and everybody
    carries the rank and distance the previous round left."""
    width = len(case["sols"][0][1])
    objs = list(objs)
    nxt = max(o.key for o in objs) + 1
    for _ in range(rng.choice([0, 1, 2, 4])):
        parent = rng.choice(objs)
        if rng.random() < 0.5:
            child = Ind(parent.key, list(parent.codes), parent.len, parent.pal)                 # unchanged clone (== parent)
        else:
            child = Ind(nxt, [max(0, c + rng.choice([-1, 0, 0, 1])) for c in parent.codes], max(1, parent.len + rng.choice([-1, 0, 1])), parent.pal)
            nxt += 1
        child.rank, child.distance = parent.rank, parent.distance
        objs.append(child)
    if len(objs) > 64:
        objs = objs[:64]
    if rng.random() < 0.3:
        rng.shuffle(objs)                                                           # survivors are re-ordered by evolve
    goals = [g for g in case["goals"] if rng.random() < 0.6]                        # the others got covered
    if rng.random() < 0.3:
        goals = list(dict.fromkeys(goals + [rng.randrange(width)]))                 # DynaMOSA: new goals become current
    n = len(objs)
    new = {"goals": goals, "pop": rng.choice([case["pop"], case["pop"], n, 2 * n, 100]),
           "sols": [(o.key, list(o.codes), o.len) for o in objs],
           "coins": [rng.random() < 0.5 for _ in range(len(goals) * n + 1)],
           "ranks": [o.rank for o in objs], "dists": [o.distance for o in objs], "pal": case.get("pal", "quarter")}
    return new, objs


def run_ranking(case, objs=None):
    """Returns (fronts as lists of Ind, coins drawn, objects, goals).  `objs`: rank these very objects
    (they carry whatever rank/distance earlier rounds left); otherwise fresh objects are created and
    given the stale attributes recorded in the case."""
    import pynguin.configuration as config
    from pynguin.ga.operators.ranking import RankBasedPreferenceSorting
    from pynguin.utils import randomness

    if objs is None:
        objs = make_objs(case)
    goals = mk_goals(case["goals"])
    drawn = [0]
    coins = case["coins"]

    def next_bool():
        i = drawn[0]
        drawn[0] += 1
        return coins[i] if i < len(coins) else False
    old_pop = config.configuration.search_algorithm.population
    old_nb = randomness.next_bool
    config.configuration.search_algorithm.population = case["pop"]
    randomness.next_bool = next_bool
    try:
        rf = RankBasedPreferenceSorting().compute_ranking_assignment(list(objs), goals)
    finally:
        randomness.next_bool = old_nb
        config.configuration.search_algorithm.population = old_pop
    fronts = rf.fronts if rf.fronts is not None else []
    return fronts, drawn[0], objs, goals


def py_dominates(goals, a, b):
    return all(a.row[g] <= b.row[g] for g in goals) and any(a.row[g] < b.row[g] for g in goals)


def multiset_minus(pool, taken):
    """pool minus taken, as multisets of keys; pool order kept."""
    cnt = {}
    for t in taken:
        cnt[t.key] = cnt.get(t.key, 0) + 1
    rest = []
    for p in pool:
        if cnt.get(p.key, 0) > 0:
            cnt[p.key] -= 1
        else:
            rest.append(p)
    return rest


def oracle_ranking(case, fronts, objs):
    """None or (signature, message)."""
    goals = case["goals"]
    if not objs:
        return None
    if not fronts:
        return ("ranking:no-front", "non-empty population but no front")
    f0 = fronts[0]
    for g in goals:
        best = min((o.row[g], o.len) for o in objs)
        if not any((x.row[g], x.len) == best for x in f0):
            return ("ranking:zero-front:no-best-for-goal",
                    f"front 0 holds no best individual for goal {g}: best (fitness, length) = {best}")
    rest = multiset_minus(objs, f0)
    full = len(f0) >= case["pop"]
    for i, fr in enumerate(fronts[1:], 1):
        nd = [x for x in rest if not any(py_dominates(goals, t, x) for t in rest)]
        if sorted(x.key for x in fr) != sorted(x.key for x in nd):
            sig = "ranking:full-zero-front:front-not-nondominated" if full else "ranking:front:not-nondominated-set"
            return (sig, f"front {i} = {sorted(x.key for x in fr)} but the non-dominated individuals among the "
                         f"{len(rest)} not yet ranked are {sorted(x.key for x in nd)}")
        rest = multiset_minus(rest, fr)
    # the fronts partition the population: nobody twice, nobody foreign, and nobody left out unless
    # the configured population was already filled (the only reason the sorting loop may stop early)
    # (equal chromosomes are interchangeable for list.remove / OrderedSet, so this is about the multiset of == classes)
    from collections import Counter
    got = Counter(x.key for fr in fronts for x in fr)
    have = Counter(o.key for o in objs)
    if any(got[k] > have.get(k, 0) for k in got):
        return ("ranking:fronts-not-a-partition", "an individual appears in two fronts or a front holds a foreign individual")
    ranked = sum(got.values())
    if got != have and ranked < case["pop"]:
        lost = sorted((have - got).elements())
        return ("ranking:fronts-not-a-partition",
                f"individuals {lost} appear in no front although only {ranked} < population {case['pop']} individuals are ranked "
                f"(incoming rank attributes: {case.get('ranks')})")
    return None


def run_crowding(front_objs, goals):
    from pynguin.ga.operators.ranking import fast_epsilon_dominance_assignment
    fast_epsilon_dominance_assignment(front_objs, goals)       # distances are stale on entry
    return [o.distance for o in front_objs]


ERR = {"ValueError": "EValue", "OverflowError": "EOverflow", "ZeroDivisionError": "EZeroDiv"}


def make_selection(b, maximize=None):
    """maximize=False is how generationalgorithmfactory configures the selection function of every GA
    (`selection_function.maximize = False`); None = freshly constructed."""
    from pynguin.ga.operators.selection import RankSelection

    sel = RankSelection(b)
    if maximize is not None:
        sel.maximize = maximize
    return sel


def run_select(n, b, r, maximize=None):
    from pynguin.utils import randomness

    old = randomness.next_float
    randomness.next_float = lambda *a, **k: r
    try:
        try:
            return ("Idx", make_selection(b, maximize).get_index([None] * n))
        except (ValueError, OverflowError, ZeroDivisionError) as e:
            return ("Err", type(e).__name__)
    finally:
        randomness.next_float = old


def below_one(k):
    x = 1.0
    for _ in range(k):
        x = math.nextafter(x, 0.0)
    return x


def h_exact(b: Fraction, y: Fraction) -> Fraction:
    return b * y - (b - 1) * y * y


def exact_index(n, b, r):
    """Index selected by the real-valued formula: max i with (b-1) i <= n and h(i/n) <= r
    (Properties C14_rank_real_selects / _cutoff); exact rational arithmetic."""
    fb, fr = Fraction(b), Fraction(r)
    lo, hi = 0, n - 1
    if fb > 1:
        hi = min(hi, int(Fraction(n) / (fb - 1)))
    # h(./n) is increasing on [0, hi]: binary search
    while lo < hi:
        mid = (lo + hi + 1) // 2
        if h_exact(fb, Fraction(mid, n)) <= fr:
            lo = mid
        else:
            hi = mid - 1
    return lo


TOL = Fraction(1, 2 ** 38)


def oracle_select(n, b, r, res):
    """Assertions for a bias in the documented range [1, 2] and above, r in [0, 1)."""
    if res[0] == "Err":
        kind = "bias-one" if b == 1.0 else "exception"
        return (f"rank-selection:{kind}:{res[1]}", f"get_index raised {res[1]} for n={n} bias={b!r} r={r!r}")
    i = res[1]
    if not (0 <= i < n):
        return ("rank-selection:index-out-of-range", f"get_index returned {i} for a population of {n} (bias={b!r}, r={r!r})")
    if 1.0 + 2.0 ** -10 <= b <= 4.0:
        e = exact_index(n, b, r)
        if i != e:
            j = max(i, e)
            near = abs(Fraction(r) - h_exact(Fraction(b), Fraction(j, n))) <= TOL
            if abs(i - e) != 1 or not near:
                return ("rank-selection:index-differs-from-formula",
                        f"get_index returned {i}, the rank-selection formula selects {e} (n={n}, bias={b!r}, r={r!r})")
    if b == 1.0:
        e = min(int(Fraction(n) * Fraction(r)), n - 1)
        if i != e:
            return ("rank-selection:bias-one:not-uniform", f"bias 1.0: index {i}, uniform selection gives {e} (n={n}, r={r!r})")
    return None


def sweep_histogram(n, b, maximize, steps_per_slot=64):
    """Exact histogram of the selected indices over a deterministic sweep of the random source (midpoints of a
    regular grid plus the values adjacent to 0 and 1).  None or (signature, message)."""
    from pynguin.utils import randomness

    steps = n * steps_per_slot
    values = [0.0, math.nextafter(0.0, 1.0)] + [(k + 0.5) / steps for k in range(steps)] + [math.nextafter(1.0, 0.0)]
    cur = [0.0]
    old = randomness.next_float
    randomness.next_float = lambda *a, **k: cur[0]
    counts = [0] * n
    try:
        sel = make_selection(b, maximize)
        pop = [None] * n
        for v in values:
            cur[0] = v
            try:
                i = sel.get_index(pop)
            except (ValueError, OverflowError, ZeroDivisionError):
                return None                      # reported by the per-point oracle
            if not (isinstance(i, int) and 0 <= i < n):
                return None
            counts[i] += 1
    finally:
        randomness.next_float = old
    # the interval of random values selecting index i never grows with i (C14_rank_real_no_worse_preferred); a grid
    # of spacing 1/steps hits an interval of length L floor(L*steps) or ceil(L*steps) times, rounding moves at most
    # one point across each end: tolerance 4
    for i in range(n - 1):
        if counts[i + 1] > counts[i] + 4:
            return ("rank-selection:worse-rank-preferred",
                    f"bias={b!r} size={n} maximize={maximize}: rank {i + 1} selected {counts[i + 1]} times, the better rank {i} "
                    f"{counts[i]} times out of {len(values)} evenly spread random values; histogram head {counts[:5]} tail {counts[-3:]}")
    return None


def gen_select_lattice(rng, quick):
    ns = [1, 2, 3, 7, 10, 50, 64] + [rng.randint(1, 64) for _ in range(2 if quick else 8)]
    bs = [1.0, 1.0 + 2.0 ** -52, 1.0 + 2.0 ** -30, 1.0 + 2.0 ** -10, 1.125, 1.5, 1.68, 1.7, 1.9999999999999998,
          2.0, 2.0000000000000004, 2.5, 3.0, 4.0, 10.0, 1e6]
    bs += [1.0 + rng.random() for _ in range(4 if quick else 40)]
    bs += [1.0 + 2.0 ** -rng.randint(1, 52) for _ in range(2 if quick else 12)]
    rs = [0.0, 5e-324, 2.0 ** -60, 1e-9, 0.25, 0.5, 0.75, 0.99] + [below_one(k) for k in (1, 2, 3, 4, 7)]
    rs += [rng.random() for _ in range(3 if quick else 12)]
    out = []
    for n in ns:
        for b in bs:
            rr = list(rs)
            # random values around the exact interval boundaries h(i/n)
            if b > 1.0:
                for _ in range(2 if quick else 6):
                    i = rng.randint(0, n)
                    hv = float(h_exact(Fraction(b), Fraction(i, n)))
                    for d in (-1, 0, 1):
                        x = hv
                        for _ in range(abs(d)):
                            x = math.nextafter(x, 2.0 if d > 0 else -1.0)
                        if 0.0 <= x < 1.0:
                            rr.append(x)
            out.append((n, b, sorted(set(rr))))
    return out


# ------------------------------------------------------------------------------------------------
# Coq printers
def c_ind(t):
    k, codes, ln = t
    return "{| C14.key := %s; C14.row := %s; C14.len := %s |}" % (cZ(k), clist(cZ(c) for c in codes), cZ(ln))


def c_goals(gs):
    return clist(cnat(g) for g in gs)


def c_res(res):
    return f"(C14.Idx {cZ(res[1])})" if res[0] == "Idx" else f"(C14.Err C14.{ERR[res[1]]})"


def pyfloat_pow2(b):
    try:
        return b ** 2
    except OverflowError:
        return None


# ------------------------------------------------------------------------------------------------
def shrink_ranking(case, sig):
    def fails(c):
        try:
            fr, _, objs, _ = run_ranking(c)
            r = oracle_ranking(c, fr, objs)
        except Exception:
            return False
        return r is not None and r[0] == sig
    changed = True
    while changed:
        changed = False
        for i in range(len(case["sols"])):
            c2 = dict(case, sols=case["sols"][:i] + case["sols"][i + 1:])
            for attr in ("ranks", "dists"):
                if case.get(attr):
                    c2[attr] = case[attr][:i] + case[attr][i + 1:]
            if c2["sols"] and fails(c2):
                case, changed = c2, True
                break
        for i in range(len(case["goals"])):
            c2 = dict(case, goals=case["goals"][:i] + case["goals"][i + 1:])
            if fails(c2):
                case, changed = c2, True
                break
    return case


def run(ctx: vlib.Ctx):
    vlib.setup_impl_path()
    ctx.digest_sources(SRC)
    ctx.coq_static()
    if not ctx.quick:
        ctx.coqchk()
    rng = ctx.rng
    corpus = json.loads((vlib.VERIF / "corpus" / "C14.json").read_text())
    cases: list[str] = []
    recs: list[tuple] = []          # parallel to cases: (kind, payload) for reporting
    n_oracle_fail = 0

    # ---- comparators -----------------------------------------------------------------------
    from pynguin.ga.operators.comparator import DominanceComparator, PreferenceSortingComparator, compare
    n_cmp = 150 if ctx.quick else 1500
    for _ in range(n_cmp):
        width = rng.choice([1, 2, 3, 5])
        span = rng.choice([1, 2, 4])
        a = (0, [rng.randrange(span + 1) for _ in range(width)], rng.randint(1, 3))
        b = (1, [rng.randrange(span + 1) for _ in range(width)], rng.randint(1, 3))
        goals = list(dict.fromkeys(rng.randrange(width) for _ in range(rng.choice([0, 1, 2, width, width + 1]))))
        pal = rng.choice(list(PALETTES))
        ctx.count("values:" + pal)
        oa, ob = Ind(*a, pal), Ind(*b, pal)
        flag = DominanceComparator(goals=mk_goals(goals)).compare(oa, ob)
        exp = -1 if py_dominates(goals, oa, ob) else (1 if py_dominates(goals, ob, oa) else 0)
        if flag != exp:
            n_oracle_fail += 1
            ctx.fail("comparator:dominance", f"DominanceComparator.compare returned {flag}, dominance says {exp}",
                     {"kind": "dom", "goals": goals, "a": a, "b": b, "pal": pal, "a_values": [v.hex() for v in oa.row], "b_values": [v.hex() for v in ob.row]})
        cases.append(f"C14.CDom {c_goals(goals)} {c_ind(a)} {c_ind(b)} {cZ(flag)}")
        recs.append(("dom", {"goals": goals, "a": a, "b": b, "impl": flag}))
        ctx.case_seen(("dom", goals, a, b))
        ctx.count(f"dom:flag={flag}")
        g = rng.randrange(width)
        none = rng.random() < 0.2
        pf = PreferenceSortingComparator(Goal(g)).compare(oa, None if none else ob)
        cases.append(f"C14.CPref {cnat(g)} {c_ind(a)} {copt(None if none else c_ind(b))} {cZ(pf)}")
        recs.append(("pref", {"goal": g, "a": a, "b": None if none else b, "impl": pf}))
        ctx.case_seen(("pref", g, a, b, none))
        x, y = rng.randrange(4), rng.randrange(4)
        cf = compare(PALETTES[pal](x), PALETTES[pal](y))
        if cf != (x > y) - (x < y):
            n_oracle_fail += 1
            ctx.fail("comparator:compare", f"compare({PALETTES[pal](x)!r}, {PALETTES[pal](y)!r}) returned {cf}",
                     {"kind": "cmp", "a": PALETTES[pal](x).hex(), "b": PALETTES[pal](y).hex()})
        cases.append(f"C14.CCmp {cZ(x)} {cZ(y)} {cZ(cf)}")
        recs.append(("cmp", {"a": x, "b": y, "impl": cf}))
        ctx.case_seen(("cmp", x, y), nontrivial=False)

    # ---- ranking + crowding ----------------------------------------------------------------
    n_rank = 120 if ctx.quick else 1800
    rank_cases = [c["case"] for c in corpus if c["kind"] == "ranking"]
    n_corpus_rank = len(rank_cases)
    shrunk: set = set()
    ctx.log("comparator cases done")
    for k in range(n_rank):
        c0 = gen_population(rng)
        rank_cases.append(preset_attrs(rng, c0) if k % 2 else c0)
    rounds = []                                  # (case, objects to re-rank or None)
    for case in rank_cases:
        rounds.append((case, None, 3))
    qi = 0
    while qi < len(rounds):
        case, objs_in, more = rounds[qi]
        qi += 1
        fronts, drawn, objs, goals = run_ranking(case, objs_in)
        ctx.count("rank:round-1" if objs_in is None else "rank:later-round-on-same-objects")
        if case.get("ranks") and any(r == 0 for r in case["ranks"]):
            ctx.count("rank:with-stale-rank-0")
        obs = [[x.key for x in fr] for fr in fronts]
        full = bool(fronts) and len(fronts[0]) >= case["pop"]
        ctx.case_seen(("rank", case["goals"], case["pop"], case["sols"], case["coins"][:drawn], case.get("ranks")),
                      nontrivial=len(case["sols"]) > 1)
        ctx.count("rank:size<=4" if len(case["sols"]) <= 4 else ("rank:size<=20" if len(case["sols"]) <= 20 else "rank:size<=64"))
        ctx.count(f"rank:fronts={min(len(fronts), 6)}{'+' if len(fronts) >= 6 else ''}")
        ctx.count("rank:zero-front-fills-population" if full else "rank:zero-front-below-population")
        if len({s[0] for s in case["sols"]}) < len(case["sols"]):
            ctx.count("rank:with-equal-chromosomes")
        if drawn:
            ctx.count("rank:with-coin-flips")
        ctx.count("values:" + case.get("pal", "quarter"))
        cases.append("C14.CRank %s %s %s %s %s %s" % (
            c_goals(case["goals"]), cZ(case["pop"]), clist(c_ind(s) for s in case["sols"]),
            clist(cbool(c) for c in case["coins"][:drawn + 2]), clist(clist(cZ(k) for k in fr) for fr in obs), cnat(drawn)))
        recs.append(("rank", {"case": case, "impl_fronts": obs, "coins_drawn": drawn}))
        if len(recs) and case is rank_cases[min(n_corpus_rank + 1, len(rank_cases) - 1)]:
            ctx.sample({"ranking": {"goals": case["goals"], "pop": case["pop"], "sols": case["sols"][:8]}, "impl_fronts": obs})
        r = oracle_ranking(case, fronts, objs)
        if r:
            n_oracle_fail += 1
            if r[0] not in shrunk:          # one minimised witness per failure class
                shrunk.add(r[0])
                small = shrink_ranking(case, r[0])
                ctx.fail(r[0], r[1], {"kind": "ranking", "case": small})
            ctx.count("oracle:" + r[0])
        # crowding distance of every front (as MOSA does) and of the whole population
        for fr in list(fronts) + [objs]:
            if not fr:
                continue
            ds = run_crowding(fr, goals)
            n = len(fr)
            nums = []
            for d in ds:
                if not (isinstance(d, (int, float)) and 0 <= d < 1):
                    n_oracle_fail += 1
                    ctx.fail("crowding:distance-outside-unit-interval", f"distance {d!r} for a front of {n}",
                             {"kind": "crowding", "goals": case["goals"], "front": [(o.key, o.codes, o.len) for o in fr]})
                    break
                k = round(d * n)
                if k / n != d:
                    k = -1      # not of the form k/n: the model will disagree
                nums.append(k)
            else:
                cases.append("C14.CCrowd %s %s %s" % (c_goals(case["goals"]),
                                                      clist(c_ind((o.key, o.codes, o.len)) for o in fr), clist(cZ(k) for k in nums)))
                recs.append(("crowd", {"goals": case["goals"], "front": [(o.key, o.codes, o.len) for o in fr], "impl_distances": ds}))
                ctx.case_seen(("crowd", case["goals"], [(o.key, o.codes) for o in fr]), nontrivial=n > 1 and bool(case["goals"]))
                ctx.count("crowd:some-positive" if any(nums) else "crowd:all-zero")
        if more > 1 and case["sols"] and rng.random() < 0.8:
            nc, nobjs = next_round(rng, case, objs)
            rounds.append((nc, nobjs, more - 1))
    ctx.log("ranking/crowding cases done")
    # ---- rank selection ----------------------------------------------------------------------
    sel = [(c["n"], float.fromhex(c["bias"]), [float.fromhex(c["r"])]) for c in corpus if c["kind"] == "select"]
    sel += gen_select_lattice(rng, ctx.quick)
    # the model has no `maximize` input: the index must not depend on it (the factory sets it to False)
    MAXI = [False, None, False, True]
    for gi, (n, b, rs) in enumerate(sel):
        prev = None
        mx = MAXI[gi % len(MAXI)]
        ctx.count(f"sel:maximize={mx}", len(rs))
        for r in rs:
            res = run_select(n, b, r, mx)
            bsq = pyfloat_pow2(b)
            ctx.case_seen(("sel", n, b.hex(), r.hex()))
            ctx.count("sel:bias=1" if b == 1.0 else ("sel:bias<1+2^-10" if b < 1 + 2.0 ** -10 else ("sel:bias<=2" if b <= 2 else "sel:bias>2")))
            if r >= below_one(8):
                ctx.count("sel:r-adjacent-to-1")
            cases.append(f"C14.CSel {cZ(n)} {cfloat(b)} {cfloat(bsq)} {cfloat(r)} {c_res(res)}")
            recs.append(("sel", {"n": n, "bias": b.hex(), "r": r.hex(), "impl": list(res)}))
            o = oracle_select(n, b, r, res)
            if o is None and res[0] == "Idx" and prev is not None and res[1] < prev[1]:
                o = ("rank-selection:not-monotone", f"index {prev[1]} for r={prev[0]!r} but {res[1]} for the larger r={r!r} (n={n}, bias={b!r})")
            if o:
                n_oracle_fail += 1
                ctx.fail(o[0], o[1], {"kind": "select", "n": n, "bias": b.hex(), "r": r.hex(), "bias_repr": repr(b), "r_repr": repr(r), "maximize": mx})
            if res[0] == "Idx":
                prev = (r, res[1])
    # distribution over a deterministic sweep of the random source, selection configured as by the factory
    for b in [1.125, 1.5, 1.68, 1.7, 2.0, 3.0] + ([] if ctx.quick else [1.01, 1.3, 1.9, 2.5]):
        for n in [2, 5, 10, 37] + ([] if ctx.quick else [50, 64]):
            for mx in (False, None, True):
                o = sweep_histogram(n, b, mx)
                ctx.count("sel:sweep-histograms")
                ctx.case_seen(("sweep", n, b, mx))
                if o:
                    n_oracle_fail += 1
                    ctx.fail(o[0], o[1], {"kind": "sweep", "n": n, "bias": b.hex(), "bias_repr": repr(b), "maximize": mx})
    # biases outside the documented range / non-finite: correspondence only
    for b in [0.5, 0.0, -1.0, 0.999, float("inf"), float("nan")]:
        for r in [0.0, 0.3, below_one(1)]:
            res = run_select(10, b, r)
            cases.append(f"C14.CSel {cZ(10)} {cfloat(b)} {cfloat(pyfloat_pow2(b))} {cfloat(r)} {c_res(res)}")
            recs.append(("sel", {"n": 10, "bias": b.hex() if b == b else "nan", "r": r.hex(), "impl": list(res)}))
            ctx.case_seen(("sel-undoc", repr(b), r.hex()))
            ctx.count("sel:outside-documented-range")
    ctx.sample({"select": recs[-30][1]})
    ctx.log("selection cases done")
    ctx.leg("S", oracle_failures=n_oracle_fail, cases=len(cases))
    ctx.cov["rule"] = ("random populations (1..64 individuals incl. equal chromosomes, 0..6 goals, ties, configured population "
                       "above/below the zero front, recorded coin flips), crowding of every front, comparator pairs, and a rank-"
                       "selection lattice (biases 1, 1+2^-k, 1.125..2, 2±ulp, >2; random values 0, tiny, k ulps below 1, around the "
                       "exact interval boundaries); non-trivial = more than one individual / one distance; distinct = distinct inputs")

    # ---- K2 ------------------------------------------------------------------------------------
    bad = ctx.run_cases("C14_cases", "From Coq Require Import PrimFloat.\nFrom Verif Require Import Models.C14.",
                        "C14.case", "C14.check_case", cases, shard=150)
    if bad is None:
        pass
    elif bad:
        ctx.leg("K2", ok=False, mismatches=len(bad), kinds=sorted({recs[i][0] for i in bad}))
        if n_oracle_fail == 0:
            ctx.broken("correspondence:C14-model-vs-operators",
                       "the model (about which the theorems are proved) no longer reproduces the implementation",
                       {"first": recs[bad[0]], "mismatching_cases": len(bad), "kinds": sorted({recs[i][0] for i in bad})})
    else:
        ctx.leg("K2", ok=True, cases=len(cases))
    ctx.assumptions += [
        "fitness values are finite floats below sys.float_info.max and are only compared (C10 covers their range); the model uses an order embedding into Z",
        "equal (==) chromosomes have equal fitness rows and lengths (hypothesis `consistent` of the ranking theorems)",
        "bias**2 (libm pow) is taken as observed; every other float operation is IEEE binary64, evaluated bit-exactly by Coq's PrimFloat",
        "'never prefers a worse rank' is proved for the real-valued formula; the binary64 code is tied to it by the exact-rational oracle "
        "(tolerance 2^-38 in the random value, biases in [1+2^-10, 4]) and by monotonicity in the random value",
    ]
    ctx.cov["trusted_base"] += ["hand-written model Models/C14.v tied by case correspondence (this run)",
                                "harness/props/C14.py (generators, stand-in chromosome class, oracles)",
                                "Coq Reals axioms for the C14_rank_real_* theorems only"]


def replay(ctx, path):
    vlib.setup_impl_path()
    d = json.loads(open(path).read())["replay"]
    if d.get("kind") == "select":
        n, b, r = d["n"], float.fromhex(d["bias"]), float.fromhex(d["r"])
        res = run_select(n, b, r, d.get("maximize"))
        print("implementation:", res, "oracle:", oracle_select(n, b, r, res))
        print("model:", ctx.coq_eval("From Coq Require Import PrimFloat.\nFrom Verif Require Import Models.C14.",
                                     f"C14.get_index {cZ(n)} {cfloat(b)} {cfloat(pyfloat_pow2(b))} {cfloat(r)}"))
    elif d.get("kind") == "sweep":
        print("oracle:", sweep_histogram(d["n"], float.fromhex(d["bias"]), d.get("maximize")))
    elif d.get("kind") == "ranking":
        case = d["case"]
        case["sols"] = [tuple(s) for s in case["sols"]]
        fr, drawn, objs, _ = run_ranking(case)
        print("implementation fronts:", [[x.key for x in f] for f in fr])
        print("oracle:", oracle_ranking(case, fr, objs))
    else:
        print(d)
    return 0
