"""C28 — mutation analysis yields genuine mutants and leaves the original intact.

T  static proofs (Properties/C28.v).
K2 the Coq model replays, on small generated modules, (a) every operator generator under random
   next()/close() event sequences (tree after every event), (b) higher-order mutants (tree at the yield,
   tree after finishing), (c) _round_robin on random lists, (d) the order chosen by _select_mutations.
S  direct oracle on generated modules and pure stdlib files, all operators: ast.dump (with attributes)
   before/after full, sampled, reordered, higher-order and abandoned enumerations; every mutant differs
   from the original only inside the mutated node(s); sampled/reordered enumerations are sub-multisets /
   permutations of the full one; reported counts equal the number of mutants yielded.
"""
from __future__ import annotations

import ast
import importlib
import inspect
import json
import types
import warnings
from collections import Counter

import vlib
from vlib import cZ, cbool, clist, cpair

from props import _c28_gen as G

SRC = ["src/pynguin/assertion/mutation_analysis/mutators.py", "src/pynguin/assertion/mutation_analysis/operators/base.py",
       "src/pynguin/assertion/mutation_analysis/controller.py", "src/pynguin/assertion/mutation_analysis/strategies.py"]
IMPORTS = "From Verif Require Import Models.C28."


def load_subject(kind, ident, rng_src=None):
    """(name, source, module object)"""
    if kind == "gen":
        mod = types.ModuleType(ident)
        with warnings.catch_warnings():
            warnings.simplefilter("ignore")
            exec(compile(rng_src, ident, "exec"), mod.__dict__)  # noqa: S102
        return ident, rng_src, mod
    mod = importlib.import_module(ident)
    return ident, inspect.getsource(mod), mod


class _Abort(Exception):
    """the original tree of a subject was damaged: the failure is recorded, the subject is dropped"""


class Subject:
    def __init__(self, name, src, module, PNT):
        self.name, self.src, self.module = name, src, module
        self.tree = PNT.create_ast(src)
        self.abs = G.Abstraction()
        self.paths: dict = {}
        self.t0 = self.abs.tree(self.tree, self.paths)
        self.dump0 = ast.dump(self.tree, include_attributes=True)
        self.plain0 = ast.dump(self.tree)
        self.size = G.size(self.t0)

    def now(self):
        return self.abs.tree(self.tree)

    def intact(self):
        """None, or the signature of the change of the original tree."""
        if ast.dump(self.tree, include_attributes=True) == self.dump0:
            return None
        return "original:changed" if ast.dump(self.tree) != self.plain0 else "original:attributes-changed"


def check_mutant(sub, mutations, tnow):
    """The yielded tree must be the original with EXACTLY the reported node(s) replaced by the reported
    replacement(s): the expected tree is rebuilt from the pristine abstraction of the original by
    substituting, at the path of every `mutation.node`, the abstraction of `mutation.replacement_node`.
    Returns (sites [(path, replacement)], error or None)."""
    node_paths = []
    for m in mutations:
        p = sub.paths.get(id(m.node))
        if p is None:
            return [], f"mutation node {type(m.node).__name__} is not a node of the original tree"
        node_paths.append(p)
    diffs = G.diff_sites(sub.t0, tnow)
    for d in diffs:
        if not any(d[:len(p)] == p for p in node_paths):
            return [], f"tree differs at {d}, outside the mutated node(s) at {node_paths}"
    expected = sub.t0
    sites = []
    for m, p in zip(mutations, node_paths):
        r = sub.abs.tree(m.replacement_node)
        expected = G.write(expected, p, r)
        sites.append((p, r))
    if expected != tnow:
        where = G.diff_sites(expected, tnow)
        return [], (f"the mutant is not the original with exactly the reported node(s) {node_paths} replaced by the reported "
                    f"replacement(s): it differs from that tree at {where[:3]}")
    return sites, None


def drive_controller(ct, mu, ms, randomness, ops, sub, total, mkind, script, seed):
    """Drive ONE real MutationController through a call sequence.  script: list of ("count",) |
    ("advance", k) | ("count+create",) | ("create",).  Returns None or (signature, message, log)."""
    if mkind == "first-order":
        mutator = mu.FirstOrderMutator(ops)
    elif mkind.startswith("capped:"):
        _, cap, reorder = mkind.split(":")
        mutator = mu.FirstOrderMutator(ops, maximum_mutants=int(cap), sampling_seed=seed, reorder=reorder == "1")
    else:
        name, order_n = mkind.split(":")
        mutator = mu.HighOrderMutator(ops, getattr(ms, name)(int(order_n)))
    controller = ct.MutationController(mutator, sub.tree, sub.module)
    randomness.RNG.seed(seed)
    log = []
    for step in script:
        if step[0] == "advance":
            for _ in range(step[1]):
                randomness.next_int()
            log.append(step)
            continue
        reported = controller.mutant_count() if step[0] in ("count", "count+create") else None
        yielded = invalid = None
        if step[0] in ("create", "count+create"):
            # what the mutator itself enumerates from this RNG state: the controller must hand out exactly one
            # item per mutant, a None module as placeholder when the mutant cannot be built
            state = randomness.RNG.getstate()
            enumerated = sum(1 for _ in mutator.mutate(sub.tree, sub.module))
            randomness.RNG.setstate(state)
            items = [m is None for m, _ in controller.create_mutants()]
            yielded, invalid = len(items), sum(items)
            if yielded != enumerated:
                log.append((step[0], reported, yielded, invalid))
                return ("count:controller-drops-mutants",
                        f"{sub.name}: {mkind}: create_mutants() yields {yielded} items ({invalid} invalid-module placeholders), the "
                        f"mutator enumerates {enumerated} mutants from the same state", log)
        log.append((step[0], reported, yielded, invalid))
        r = sub.intact()
        if r:
            return (r + ":controller", f"{sub.name}: {mkind} controller step {step[0]} changed the original tree", log)
        if step[0] == "count+create":
            # first-order (also capped): the count is the pre-truncation total of the FULL enumeration;
            # higher-order: the enumeration that directly follows (same RNG state) is the full enumeration
            expect = total if not mkind[0].isupper() else yielded
            if reported != expect:
                return ("count:controller-disagrees-with-enumeration",
                        f"{sub.name}: {mkind}: mutant_count() = {reported}, the enumeration that follows yields {yielded}"
                        + (f" (full first-order enumeration: {total})" if not mkind[0].isupper() else ""), log)
            uncapped = mkind == "first-order" or (mkind.startswith("capped:") and not 0 <= int(mkind.split(":")[1]) < total)
            if uncapped and yielded != total:
                return ("count:controller-disagrees-with-enumeration",
                        f"{sub.name}: {mkind}: create_mutants() yields {yielded} items, the full enumeration has {total} mutants", log)
    return None


def gen_script(rng):
    script = [("count",)] if rng.random() < 0.8 else []
    for _ in range(rng.choice([2, 3, 4])):
        c = rng.random()
        if c < 0.75:
            script.append(("advance", rng.randrange(0, 6)))
        if c < 0.15:
            script.append(("create",))
        elif c < 0.3:
            script.append(("count",))
        script.append(("count+create",))
    return script


def run(ctx: vlib.Ctx):
    vlib.setup_impl_path()
    ctx.digest_sources(SRC)
    ctx.coq_static()
    if not ctx.quick:
        ctx.coqchk()
    import pynguin.assertion.mutation_analysis.controller as ct
    import pynguin.assertion.mutation_analysis.mutators as mu
    import pynguin.assertion.mutation_analysis.operators as mo
    import pynguin.assertion.mutation_analysis.strategies as ms
    from pynguin.assertion.mutation_analysis.transformer import ParentNodeTransformer as PNT
    from pynguin.utils import randomness

    rng = ctx.rng
    ops = [*mo.standard_operators, *mo.experimental_operators]
    strategies = [ms.FirstToLastHOMStrategy, ms.EachChoiceHOMStrategy, ms.BetweenOperatorsHOMStrategy, ms.RandomHOMStrategy]
    corpus = json.loads((vlib.VERIF / "corpus" / "C28.json").read_text())
    subjects = [("gen", c["name"], c["source"]) for c in corpus]
    corpus_scripts = {c["name"]: c["controller"] for c in corpus if "controller" in c}
    n_gen, n_std = (2, 2) if ctx.quick else (24, 10)
    for i in range(n_gen):
        subjects.append(("gen", f"genmod{i}", G.gen_module(rng, rng.choice([1, 2] if ctx.quick else [1, 2, 3]))))
    for i in range(3 if ctx.quick else 20):      # tiny modules: their trees are replayed in Coq
        subjects.append(("gen", f"tinymod{i}", G.gen_module(rng, 1, classes=rng.random() < 0.3)))
    std = list(G.STDLIB)
    rng.shuffle(std)
    subjects += [("std", s, None) for s in (["bisect", "keyword"] if ctx.quick else std)][:n_std]

    cases, recs = [], []
    fails = 0
    op_hits: Counter = Counter()

    def fail(sig, what, replay):
        nonlocal fails
        fails += 1
        ctx.fail(sig, what, replay)

    def add_case(term, rec, canon, nontrivial=True):
        cases.append(term)
        recs.append(rec)
        ctx.case_seen(canon, nontrivial=nontrivial)

    def one(kind, ident, src):
        try:
            name, source, module = load_subject(kind, ident, src)
            sub = Subject(name, source, module, PNT)
        except Exception as e:  # noqa: BLE001
            ctx.count("subject:unloadable")
            ctx.notes.append(f"{ident}: {type(e).__name__}: {e}")
            return
        ctx.count("subject:" + kind)
        base_replay = {"kind": kind, "name": name, "source": source if kind == "gen" else None}
        small = sub.size <= 330

        # --- full first-order enumeration, operator by operator
        full_keys = []            # per operator: list of (op index, visitor, node id)
        full_trees = Counter()    # multiset of mutant trees
        per_op_sites = []
        for oi, op in enumerate(ops):
            sites, keys = [], []
            for mutation, mutant in op.mutate(sub.tree, sub.module):
                tnow = sub.now()
                s, err = check_mutant(sub, [mutation], tnow)
                if err:
                    fail("mutant:differs-outside-mutated-node", f"{name}, {op.__name__}.{mutation.visitor_name}: {err}",
                         {**base_replay, "operator": op.__name__, "visitor": mutation.visitor_name})
                    continue
                sites.append(s[0])
                keys.append((oi, mutation.visitor_name, id(mutation.node)))
                full_trees[G.freeze(tnow)] += 1
                op_hits[op.__name__] += 1
            r = sub.intact()
            if r:
                fail(r + ":full", f"{name}: tree changed by the complete enumeration of {op.__name__}", {**base_replay, "operator": op.__name__})
                raise _Abort
            full_keys.append(keys)
            per_op_sites.append(sites)
        total = sum(len(k) for k in full_keys)
        ctx.case_seen(("full", name, total), nontrivial=total > 0)
        ctx.count("mutants:first-order", total)

        # --- counts
        fom = mu.FirstOrderMutator(ops)
        n_enum = sum(1 for _ in fom.mutate(sub.tree, sub.module))
        n_rep = fom.mutation_count(sub.tree, sub.module)
        if not (n_enum == n_rep == total):
            fail("count:first-order", f"{name}: mutation_count {n_rep}, enumeration yields {n_enum}, per-operator total {total}", base_replay)

        # --- K2 (a): generator protocol under next/close events, small trees only
        if small:
            cand = [oi for oi, s in enumerate(per_op_sites) if s]
            for oi in (cand if name.startswith("corpus_") else rng.sample(cand, min(len(cand), 4 if ctx.quick else 8))):
                sites = per_op_sites[oi]
                n = len(sites)
                style = rng.choice(["exhaust", "close-mid", "close-first", "close-fresh", "close-late"])
                if style == "exhaust":
                    evs = ["N"] * (n + 2)
                elif style == "close-mid":
                    evs = ["N"] * rng.randrange(1, n + 1) + ["C", "N"]
                elif style == "close-first":
                    evs = ["N", "C", "N", "C"]
                elif style == "close-fresh":
                    evs = ["C", "N"]
                else:
                    evs = ["N"] * n + ["C", "N"]
                g = ops[oi].mutate(sub.tree, sub.module)
                obs = []
                for e in evs:
                    if e == "N":
                        v = next(g, None)
                        obs.append((sub.now(), v is not None))
                    else:
                        g.close()
                        obs.append((sub.now(), False))
                for _ in g:      # leave the tree clean whatever happened
                    pass
                r = sub.intact()
                if r and "C" in evs:
                    fail("close:tree-left-mutated", f"{name}: {ops[oi].__name__} generator closed after events {''.join(evs)} leaves the original mutated",
                         {**base_replay, "operator": ops[oi].__name__, "events": "".join(evs)})
                elif r:
                    fail(r + ":generator", f"{name}: {ops[oi].__name__} generator exhausted, original changed", {**base_replay, "operator": ops[oi].__name__})
                if r:
                    raise _Abort
                term = "C28.CGen %s %s %s %s" % (
                    G.c_tree(sub.t0), clist(cpair(G.c_path(p), G.c_tree(t)) for p, t in sites),
                    clist("C28.ENext" if e == "N" else "C28.EClose" for e in evs),
                    clist(cpair(G.c_tree(t), cbool(y)) for t, y in obs))
                add_case(term, {"kind": "generator", **base_replay, "operator": ops[oi].__name__, "events": "".join(evs)},
                         ("gen", name, oi, tuple(evs)))
                ctx.count("events:" + style)
        else:
            # larger trees: abandoned enumerations are checked by dumps only
            for op in rng.sample(ops, 3):
                g = op.mutate(sub.tree, sub.module)
                k = rng.randrange(1, 4)
                got = sum(1 for _ in zip(range(k), g))
                g.close()
                if got and sub.intact():
                    fail("close:tree-left-mutated", f"{name}: {op.__name__} generator closed after {got} mutant(s) leaves the original mutated",
                         {**base_replay, "operator": op.__name__, "events": "N" * got + "C"})
                    raise _Abort

        # --- sampled / reordered enumerations
        key_id = {k: i for i, k in enumerate(k for ks in full_keys for k in ks)}
        configs = [(-1, True, 0)] + [(rng.choice([0, 1, 2, max(1, total // 3), max(1, total // 2), total, total + 3]), rng.random() < 0.7, rng.randrange(100))
                                      for _ in range(2 if ctx.quick else 4)]
        for cap, reorder, seed in configs:
            m = mu.FirstOrderMutator(ops, maximum_mutants=cap, sampling_seed=seed, reorder=reorder)
            got = Counter()
            order = []
            abandon = rng.random() < 0.25
            gen = m.mutate(sub.tree, sub.module)
            for k, (muts, _mutant) in enumerate(gen):
                tnow = sub.now()
                _s, err = check_mutant(sub, muts, tnow)
                if err:
                    fail("mutant:differs-outside-mutated-node", f"{name} cap={cap} reorder={reorder}: {err}", {**base_replay, "cap": cap, "reorder": reorder, "seed": seed})
                got[G.freeze(tnow)] += 1
                order.append(key_id.get((ops.index(muts[0].operator), muts[0].visitor_name, id(muts[0].node))))
                if abandon and k == 1:
                    gen.close()
                    break
            r = sub.intact()
            if r:
                sig = "close:tree-left-mutated" if abandon else r + ":sampled"
                fail(sig, f"{name}: FirstOrderMutator(cap={cap}, reorder={reorder}, seed={seed}) {'abandoned' if abandon else 'exhausted'}: original changed",
                     {**base_replay, "cap": cap, "reorder": reorder, "seed": seed, "abandoned": abandon})
                raise _Abort
            extra = got - full_trees
            if extra:
                fail("sampled:not-in-full-enumeration", f"{name}: cap={cap} reorder={reorder} seed={seed} yields {sum(extra.values())} mutant(s) the full enumeration does not yield",
                     {**base_replay, "cap": cap, "reorder": reorder, "seed": seed})
            if cap < 0 and not abandon and got != full_trees:
                fail("reordered:not-a-permutation", f"{name}: the reordered enumeration yields {sum(got.values())} mutants, the full one {total}",
                     {**base_replay, "cap": cap, "reorder": reorder})
            if m.mutation_count(sub.tree, sub.module) != total:
                fail("count:sampled", f"{name}: mutation_count with cap={cap} is {m.mutation_count(sub.tree, sub.module)}, full enumeration yields {total}",
                     {**base_replay, "cap": cap, "reorder": reorder})
            ctx.case_seen(("sampled", name, cap, reorder, seed), nontrivial=bool(order))
            ctx.count("sampled:cap" if 0 <= cap < total else "sampled:nocap")
            # K2 (d): order of _select_mutations (only when the mutator takes that path, not abandoned)
            if (reorder or cap >= 0) and not abandon and None not in order and len(order) <= 400:
                sel = set(order)
                ls = [(op in mu._TIMEOUT_PRONE_OPERATORS, [key_id[k] for k in ks if key_id[k] in sel]) for op, ks in zip(ops, full_keys)]
                add_case("C28.CSelect %s %s" % (clist(cpair(cbool(b), clist(cZ(i) for i in l)) for b, l in ls), clist(cZ(i) for i in order)),
                         {"kind": "select", **base_replay, "cap": cap, "reorder": reorder, "seed": seed, "order": order}, ("sel", name, cap, reorder, seed))

        # --- higher-order mutants
        hom_case = None
        for strat in (strategies if not ctx.quick else rng.sample(strategies, 2)):
            order_n = rng.choice([2, 2, 3])
            h = mu.HighOrderMutator(ops, strat(order_n))
            state = randomness.RNG.getstate()
            reported = h.mutation_count(sub.tree, sub.module)
            if sub.intact():
                fail("original:changed:hom-count", f"{name}: HighOrderMutator.mutation_count changes the original", {**base_replay, "strategy": strat.__name__})
                raise _Abort
            if strat is ms.RandomHOMStrategy and randomness.RNG.getstate() != state:
                randomness.RNG.setstate(state)     # unfixed code: count again below with the same shuffle
            n_h = 0
            picked = rng.randrange(0, 6)
            abandon_at = rng.choice([None, None, None, 0, 2])
            gen = h.mutate(sub.tree, sub.module)
            for k, (muts, _mutant) in enumerate(gen):
                n_h += 1
                tnow = sub.now()
                sites, err = check_mutant(sub, muts, tnow)
                if err:
                    fail("mutant:differs-outside-mutated-node", f"{name} {strat.__name__} order {order_n}: {err}", {**base_replay, "strategy": strat.__name__, "order": order_n})
                elif small and k == picked:
                    hom_case = (sites, tnow)
                if abandon_at is not None and k == abandon_at:
                    gen.close()
                    break
            r = sub.intact()
            ctx.count("mutants:higher-order", n_h)
            ctx.count("hom:" + strat.__name__)
            if r:
                sig = "close:tree-left-mutated" if abandon_at is not None and n_h == abandon_at + 1 else r + ":hom"
                fail(sig, f"{name}: {strat.__name__}({order_n}) enumeration {'abandoned' if sig.startswith('close') else 'exhausted'}: original changed",
                     {**base_replay, "strategy": strat.__name__, "order": order_n, "abandoned_at": abandon_at})
                raise _Abort
            if abandon_at is None or n_h <= abandon_at:
                if reported != n_h:
                    fail("count:higher-order", f"{name}: {strat.__name__}({order_n}) reports {reported} mutants, the enumeration yields {n_h}",
                         {**base_replay, "strategy": strat.__name__, "order": order_n})
            ctx.case_seen(("hom", name, strat.__name__, order_n), nontrivial=n_h > 0)
            if small and hom_case is not None:
                sites, tnow = hom_case
                add_case("C28.CHom %s %s %s %s" % (G.c_tree(sub.t0), clist(cpair(G.c_path(p), G.c_tree(t)) for p, t in sites), G.c_tree(tnow), G.c_tree(sub.now())),
                         {"kind": "hom", **base_replay, "strategy": strat.__name__, "order": order_n, "sites": [list(p) for p, _ in sites]},
                         ("homcase", name, strat.__name__, tuple(p for p, _ in sites)))
            hom_case = None

        # --- the real MutationController on call sequences count / advance RNG / count / create_mutants
        if kind == "gen" and sub.size <= (500 if ctx.quick else 1300):
            runs = []
            for cs in corpus_scripts.get(name, []):
                runs.append((cs["mutator"], [tuple(x) for x in cs["script"]], cs["seed"]))
            kinds = ["first-order", "capped:-1:1", f"capped:{max(1, total // 2)}:{rng.choice([0, 1])}", f"capped:{total + 2}:1"]
            if ctx.quick and not name.startswith("corpus_"):
                kinds = ["first-order", rng.choice(kinds[1:])]
            kinds += [f"{st.__name__}:{rng.choice([2, 2, 3])}" for st in (rng.sample(strategies[:3], 1) if ctx.quick else strategies)]
            kinds += ["RandomHOMStrategy:2"] * (1 if ctx.quick else 2)
            for mk in kinds:
                runs.append((mk, gen_script(rng), rng.randrange(10**6)))
            for mk, script, seed in runs:
                r = drive_controller(ct, mu, ms, randomness, ops, sub, total, mk, script, seed)
                ctx.case_seen(("controller", name, mk, tuple(script), seed), nontrivial=total > 0)
                ctx.count("controller:" + mk.split(":")[0])
                if r is None:
                    pass
                if r:
                    fail(r[0], r[1], {**base_replay, "controller": {"mutator": mk, "script": [list(x) for x in script], "seed": seed}, "log": [list(x) for x in r[2]]})
                    if r[0].startswith("original"):
                        raise _Abort

    for kind, ident, src in subjects:
        try:
            one(kind, ident, src)
            ctx.log(f"subject {ident} done ({len(cases)} cases)")
        except _Abort:
            ctx.count("subject:abandoned-after-failure")
        except Exception as e:  # noqa: BLE001 - the implementation raised while enumerating mutants
            import traceback

            tb = traceback.format_exc()
            if "/mutation_analysis/" not in tb:
                raise
            fail("enumeration:raises:" + type(e).__name__, f"{ident}: enumerating mutants raised {type(e).__name__}: {e}",
                 {"kind": kind, "name": ident, "source": src, "traceback": tb[-1500:]})

    # --- K2 (c): _round_robin
    for _ in range(150 if ctx.quick else 2000):
        ls = [[rng.randrange(100) for _ in range(rng.choice([0, 0, 1, 2, 3, 5]))] for _ in range(rng.choice([0, 1, 2, 3, 5]))]
        got = mu._round_robin([list(l) for l in ls])
        add_case("C28.CRoundRobin %s %s" % (clist(clist(cZ(x) for x in l) for l in ls), clist(cZ(x) for x in got)),
                 {"kind": "round-robin", "lists": ls, "result": got}, ("rr", tuple(map(tuple, ls))), nontrivial=any(ls))
        if sorted(got) != sorted(x for l in ls for x in l):
            fail("round-robin:not-a-permutation", f"_round_robin({ls}) = {got}", {"kind": "round-robin", "lists": ls})

    missing = [op.__name__ for op in ops if not op_hits[op.__name__]]
    ctx.cov["input_distribution"]["operators_without_mutant"] = missing
    ctx.leg("S", oracle_failures=fails, subjects=len(subjects), operators_hit=len(ops) - len(missing))
    ctx.sample({"subject": subjects[len(corpus)][1] if len(subjects) > len(corpus) else "", "per_operator_mutants": dict(op_hits)})
    ctx.cov["rule"] = ("generated modules (functions with arithmetic/logical/relational/bit operators, slices, f-strings, loops, break/"
                       "continue, try/except, match, decorators, lambdas; a class hierarchy with super calls, overriding methods and "
                       "hiding variables) and pure stdlib files; all 28 operators; caps {0,1,2,n/3,n/2,n,n+3} x reorder x seeds; four HOM "
                       "strategies with order 2-3; abandoned enumerations. A case is non-trivial when it yields at least one mutant; "
                       "distinct = distinct (subject, configuration)")
    shard = 40
    nsh = max(1, -(-len(cases) // shard))
    order = sorted(range(len(cases)), key=lambda i: (i % nsh, i))     # spread the heavy tree cases over the shards
    cases = [cases[i] for i in order]
    recs = [recs[i] for i in order]
    bad = ctx.run_cases("C28_cases", IMPORTS, "C28.case", "C28.check_case", cases, shard=shard)
    if bad is None:
        pass
    elif bad:
        ctx.leg("K2", ok=False, mismatches=len(bad))
        if fails == 0:
            ctx.broken("correspondence:C28-model-vs-mutators",
                       "the tree/generator model (about which the theorems are proved) no longer reproduces the implementation",
                       {"first": {k: v for k, v in recs[bad[0]].items() if k != "source"}, "source": recs[bad[0]].get("source"),
                        "mismatching_cases": len(bad), "kinds": sorted({recs[b]["kind"] for b in bad})})
    else:
        ctx.leg("K2", ok=True, cases=len(cases))
    ctx.assumptions += [
        "what the visitors of the operators return is data of the model; that they copy rather than modify original nodes is "
        "sampled by ast.dump (with location attributes) before/after, not proved",
        "ASTs are abstracted to rose trees whose labels encode node class, scalar fields and field shapes",
        "restoration on close relies on CPython closing dropped inner generators immediately (reference counting)",
    ]
    ctx.cov["trusted_base"] += ["hand-written model Models/C28.v tied by correspondence on small generated modules (this run)",
                                "harness/props/C28.py, _c28_gen.py (module generator, AST abstraction, diff)"]


def replay(ctx, path):
    vlib.setup_impl_path()
    d = json.loads(open(path).read())["replay"]
    import pynguin.assertion.mutation_analysis.mutators as mu
    import pynguin.assertion.mutation_analysis.operators as mo
    from pynguin.assertion.mutation_analysis.transformer import ParentNodeTransformer as PNT

    ops = [*mo.standard_operators, *mo.experimental_operators]
    name, source, module = load_subject(d["kind"], d["name"], d.get("source"))
    sub = Subject(name, source, module, PNT)
    if "controller" in d:
        import pynguin.assertion.mutation_analysis.controller as ct
        import pynguin.assertion.mutation_analysis.strategies as ms
        from pynguin.utils import randomness

        total = sum(1 for op in ops for _ in op.mutate(sub.tree, sub.module))
        c = d["controller"]
        r = drive_controller(ct, mu, ms, randomness, ops, sub, total, c["mutator"], [tuple(x) for x in c["script"]], c["seed"])
        print("controller run:", r if r else "count agrees with the enumeration at every count+create step")
        return 0
    if "operator" in d and "events" in d:
        op = next(o for o in ops if o.__name__ == d["operator"])
        g = op.mutate(sub.tree, sub.module)
        for e in d["events"]:
            if e == "N":
                print("next ->", next(g, None) is not None, "tree intact:", sub.intact() is None)
            else:
                g.close()
                print("close; tree intact:", sub.intact() is None)
        print(ast.unparse(sub.tree)[:1500] if sub.intact() else "original restored")
    else:
        fom = mu.FirstOrderMutator(ops)
        print("first-order count", fom.mutation_count(sub.tree, sub.module), "yields", sum(1 for _ in fom.mutate(sub.tree, sub.module)))
        print(json.dumps({k: v for k, v in d.items() if k != "source"}, indent=1))
    return 0
