"""C34 — ordered sets: T (static proofs), K2 (histories on the real classes replayed by the Coq
model), S (independent reference oracle: builtin set + first-insertion order)."""
from __future__ import annotations

import json

import vlib
from vlib import cZ, clist, cpair

UNIVERSE = [0, 1, 2, 3, 4, 5, 6, 7, "a", "b", (1, 2), (0,)]
SRC = ["src/pynguin/utils/orderedset.py"]

UPD = ["Update", "IntersectionUpdate", "SymDiffUpdate", "IOr", "IAnd", "ISub", "IXor"]
MULTI_UPD = ["DifferenceUpdate"]
QRY1 = ["SymDiff", "IsSubset", "IsSuperset", "IsDisjoint", "Sub"]
QRYN = ["Union", "Intersection", "Difference"]
ELT = ["Add", "Discard", "Remove", "Index", "Count", "Contains"]
NUL = ["Pop", "Clear", "Len", "Iter", "Reversed", "Copy"]
CMP = ["EqOSet", "Le", "Lt", "Ge", "Gt"]


def gen_iterable(rng):
    if rng.random() < 0.12:
        # the argument aliases the receiver: the set itself, an iterator or a lazy generator over it
        fl = rng.choice(["self", "self_iter", "self_gen"])
        return ("KSet" if fl == "self" else "KIter", [], fl)
    kind = rng.choice(["KList", "KSet", "KIter", "KIter", "KList"])
    n = rng.choice([0, 1, 2, 3, 4, 6])
    codes = [rng.randrange(len(UNIVERSE)) for _ in range(n)]
    if kind == "KSet":
        flavour = rng.choice(["set", "oset", "frozen"])
        codes = list(dict.fromkeys(codes))
        return (kind, codes, flavour)
    flavour = rng.choice(["list", "tuple"]) if kind == "KList" else rng.choice(["iter", "gen"])
    return (kind, codes, flavour)


def gen_history(rng, n_ops):
    init = [rng.randrange(len(UNIVERSE)) for _ in range(rng.choice([0, 1, 3, 5, 8]))]
    ops = []
    for _ in range(n_ops):
        c = rng.random()
        if c < 0.30:
            ops.append((rng.choice(UPD), gen_iterable(rng)))
        elif c < 0.36:
            ops.append(("DifferenceUpdate", [gen_iterable(rng) for _ in range(rng.choice([0, 1, 2, 3]))]))
        elif c < 0.52:
            ops.append((rng.choice(QRY1), gen_iterable(rng)))
        elif c < 0.62:
            ops.append((rng.choice(QRYN), [gen_iterable(rng) for _ in range(rng.choice([0, 1, 2, 3]))]))
        elif c < 0.76:
            ops.append((rng.choice(ELT), rng.randrange(len(UNIVERSE))))
        elif c < 0.86:
            ops.append(("GetItem", rng.randrange(-11, 11)))
        elif c < 0.94:
            ops.append((rng.choice(NUL),))
        else:
            ops.append((rng.choice(CMP), list(dict.fromkeys(rng.randrange(len(UNIVERSE)) for _ in range(rng.choice([0, 1, 2, 4, 6]))))))
    return init, ops


# ---------------------------------------------------------------------------------------------
def materialise(it, OrderedSet, FrozenOrderedSet, recv=None, opname=""):
    """Build the real Python argument.  For real sets the iteration order is not the list order;
    return the order a traversal yields so that the model sees the same sequence."""
    kind, codes, flavour = it
    if flavour.startswith("self"):
        now = [UNIVERSE.index(v) for v in recv]
        if flavour == "self" or opname == "ISub":
            # `s -= <lazy view of s>` mutates while iterating and raises RuntimeError exactly like
            # Python's built-in set; outside the generator (see notes/C34.md)
            return recv, now
        if flavour == "self_iter":
            return iter(recv), now
        return (x for x in recv), now
    vals = [UNIVERSE[c] for c in codes]
    if flavour == "list":
        return vals, codes
    if flavour == "tuple":
        return tuple(vals), codes
    if flavour == "iter":
        return iter(vals), codes
    if flavour == "gen":
        return (v for v in vals), codes
    if flavour == "set":
        s = set(vals)
        return s, [UNIVERSE.index(v) for v in s]
    if flavour == "oset":
        return OrderedSet(vals), codes
    return FrozenOrderedSet(vals), codes


def enc(v):
    return UNIVERSE.index(v)


def run_impl(init, ops):
    """Returns (history of (op_with_observed_arg_order, state_codes, out), or raises)."""
    from pynguin.utils.orderedset import FrozenOrderedSet, OrderedSet

    s = OrderedSet(UNIVERSE[c] for c in init)
    hist = []
    for op in ops:
        name = op[0]
        out = ("OUnit",)
        obs_op = op
        try:
            if name in UPD or name in QRY1:
                arg, order = materialise(op[1], OrderedSet, FrozenOrderedSet, s, name)
                k_ = "KSet" if (op[1][2] == "self" or (op[1][2].startswith("self") and name == "ISub")) else op[1][0]
                obs_op = (name, (k_, order, op[1][2]))
                if name == "Update":
                    s.update(arg)
                elif name == "IntersectionUpdate":
                    s.intersection_update(arg)
                elif name == "SymDiffUpdate":
                    s.symmetric_difference_update(arg)
                elif name == "IOr":
                    s |= arg
                elif name == "IAnd":
                    s &= arg
                elif name == "ISub":
                    s -= arg
                elif name == "IXor":
                    s ^= arg
                elif name == "SymDiff":
                    r = s.symmetric_difference(arg) if op[1][2] != "tuple" else s ^ arg
                    out = ("OList", [enc(v) for v in r])
                elif name == "IsSubset":
                    out = ("OBool", s.issubset(arg))
                elif name == "IsSuperset":
                    out = ("OBool", s.issuperset(arg))
                elif name == "IsDisjoint":
                    out = ("OBool", s.isdisjoint(arg))
                elif name == "Sub":
                    out = ("OList", [enc(v) for v in (s - arg)])
            elif name in MULTI_UPD or name in QRYN:
                mats = [materialise(it, OrderedSet, FrozenOrderedSet, s, name) for it in op[1]]
                obs_op = (name, [("KSet" if it[2] == "self" else it[0], m[1], it[2]) for it, m in zip(op[1], mats)])
                args = [m[0] for m in mats]
                if name == "DifferenceUpdate":
                    s.difference_update(*args)
                elif name == "Union":
                    r = s.union(*args) if len(args) != 1 else s | args[0]
                    out = ("OList", [enc(v) for v in r])
                elif name == "Intersection":
                    r = s.intersection(*args) if len(args) != 1 else s & args[0]
                    out = ("OList", [enc(v) for v in r])
                elif name == "Difference":
                    out = ("OList", [enc(v) for v in s.difference(*args)])
            elif name in ELT:
                v = UNIVERSE[op[1]]
                if name == "Add":
                    s.add(v)
                elif name == "Discard":
                    s.discard(v)
                elif name == "Remove":
                    s.remove(v)
                elif name == "Index":
                    out = ("OInt", s.index(v))
                elif name == "Count":
                    out = ("OInt", s.count(v))
                elif name == "Contains":
                    out = ("OBool", v in s)
            elif name == "GetItem":
                out = ("OInt", enc(s[op[1]]))
            elif name in CMP:
                other = OrderedSet(UNIVERSE[c] for c in op[1])
                if name == "EqOSet":
                    out = ("OBool", s == other)
                elif name == "Le":
                    out = ("OBool", s <= other)
                elif name == "Lt":
                    out = ("OBool", s < other)
                elif name == "Ge":
                    out = ("OBool", s >= other)
                elif name == "Gt":
                    out = ("OBool", s > other)
            elif name == "Pop":
                out = ("OInt", enc(s.pop()))
            elif name == "Clear":
                s.clear()
            elif name == "Len":
                out = ("OInt", len(s))
            elif name == "Iter":
                out = ("OList", [enc(v) for v in s])
            elif name == "Reversed":
                out = ("OList", [enc(v) for v in reversed(s)])
            elif name == "Copy":
                import copy

                out = ("OList", [enc(v) for v in copy.copy(s)] if len(s) % 2 else [enc(v) for v in FrozenOrderedSet(s)])
        except (IndexError, KeyError, ValueError, TypeError, RuntimeError) as e:
            out = ("OErr", type(e).__name__)
        hist.append((obs_op, [enc(v) for v in s], out))
    return hist


# ---------------------------------------------------------------------------------------------
# S: independent reference (builtin set semantics + first-insertion order), used as direct oracle
def first_new(state, xs):
    seen, res = set(state), []
    for x in xs:
        if x not in seen:
            seen.add(x)
            res.append(x)
    return res


def oracle(init, hist):
    """Returns None or (signature, message, step index)."""
    state = list(dict.fromkeys(init))
    for k, (op, impl_state, out) in enumerate(hist):
        name = op[0]
        exp_out = None  # None = not determined by the property
        new = state
        if name in UPD:
            c = op[1][1]
            cs = set(c)
            if name in ("Update", "IOr"):
                new = state + first_new(state, c)
            elif name in ("IntersectionUpdate", "IAnd"):
                new = [y for y in state if y in cs]
            elif name == "ISub":
                new = [y for y in state if y not in cs]
            else:
                new = [y for y in state if y not in cs] + first_new(state, c)
            exp_out = ("OUnit",)
        elif name == "DifferenceUpdate":
            cs = set().union(*[set(it[1]) for it in op[1]]) if op[1] else set()
            new = [y for y in state if y not in cs]
            exp_out = ("OUnit",)
        elif name in QRY1:
            c = op[1][1]
            cs = set(c)
            if name == "SymDiff":
                exp_out = ("OList", [y for y in state if y not in cs] + first_new(state, c))
            elif name == "IsSubset":
                exp_out = ("OBool", set(state) <= cs)
            elif name == "IsSuperset":
                exp_out = ("OBool", set(state) >= cs)
            elif name == "IsDisjoint":
                exp_out = ("OBool", not (set(state) & cs))
            else:
                exp_out = ("OList", [y for y in state if y not in cs])
        elif name in QRYN:
            sets = [set(it[1]) for it in op[1]]
            if name == "Union":
                exp_out = ("OList", state + first_new(state, [x for it in op[1] for x in it[1]]))
            elif name == "Intersection":
                exp_out = ("OList", [y for y in state if all(y in t for t in sets)])
            else:
                exp_out = ("OList", [y for y in state if not any(y in t for t in sets)])
        elif name == "Add":
            new, exp_out = state + first_new(state, [op[1]]), ("OUnit",)
        elif name == "Discard":
            new, exp_out = [y for y in state if y != op[1]], ("OUnit",)
        elif name == "Remove":
            if op[1] in state:
                new, exp_out = [y for y in state if y != op[1]], ("OUnit",)
            else:
                exp_out = ("OErr", "KeyError")
        elif name == "Index":
            exp_out = ("OInt", state.index(op[1])) if op[1] in state else ("OErr", "ValueError")
        elif name == "Count":
            exp_out = ("OInt", state.count(op[1]))
        elif name == "Contains":
            exp_out = ("OBool", op[1] in state)
        elif name == "GetItem":
            try:
                exp_out = ("OInt", state[op[1]])
            except IndexError:
                exp_out = ("OErr", "IndexError")
        elif name == "Pop":
            if not state:
                exp_out = ("OErr", "KeyError")
            elif out[0] == "OInt" and out[1] in state:
                new, exp_out = [y for y in state if y != out[1]], out  # which element: unspecified
            else:
                return ("pop-result", f"pop returned {out} for {state}", k)
        elif name == "Clear":
            new, exp_out = [], ("OUnit",)
        elif name == "Len":
            exp_out = ("OInt", len(state))
        elif name in ("Iter", "Copy"):
            exp_out = ("OList", state)
        elif name == "Reversed":
            exp_out = ("OList", state[::-1])
        elif name == "EqOSet":
            exp_out = ("OBool", state == op[1])
        elif name in ("Le", "Lt", "Ge", "Gt"):
            a, b = set(state), set(op[1])
            exp_out = ("OBool", {"Le": a <= b, "Lt": a < b, "Ge": a >= b, "Gt": a > b}[name])
        if len(set(impl_state)) != len(impl_state):
            return ("duplicate-element", f"state {impl_state} holds duplicates after {op}", k)
        if set(impl_state) != set(new):
            kind = op[1][0] if name in UPD + QRY1 else ""
            return (f"membership:{name}:{kind}", f"after {op} on {state}: elements {impl_state}, a set would hold {new}", k)
        if impl_state != new:
            return (f"order:{name}", f"after {op} on {state}: order {impl_state}, first-insertion order is {new}", k)
        if exp_out is not None and tuple(out) != tuple(exp_out):
            kind = op[1][0] if name in UPD + QRY1 else ""
            if name == "GetItem" and op[1] < 0:
                kind = "negative"
            return (f"result:{name}:{kind}", f"{op} on {state} returned {out}, expected {exp_out}", k)
        state = new
    return None


# ---------------------------------------------------------------------------------------------
def c_it(it):
    return "{| C34.ikind := C34.%s; C34.content := %s |}" % (it[0], clist(cZ(c) for c in it[1]))


def c_op(op):
    n = op[0]
    if n in UPD or n in QRY1:
        return f"C34.{n} {c_it(op[1])}"
    if n in MULTI_UPD or n in QRYN:
        return f"C34.{n} {clist(c_it(i) for i in op[1])}"
    if n in ELT or n == "GetItem":
        return f"C34.{n} {cZ(op[1])}"
    if n in CMP:
        return f"C34.{n} {clist(cZ(c) for c in op[1])}"
    return f"C34.{n}"


def c_out(o):
    if o[0] == "OUnit":
        return "C34.OUnit"
    if o[0] == "OBool":
        return f"C34.OBool {vlib.cbool(o[1])}"
    if o[0] == "OInt":
        return f"C34.OInt {cZ(o[1])}"
    if o[0] == "OList":
        return f"C34.OList {clist(cZ(c) for c in o[1])}"
    return f"C34.OErr C34.{o[1] if o[1] != 'RuntimeError' else 'TypeError'}"


def c_case(init, hist):
    steps = clist(cpair(c_op(op), cpair(clist(cZ(c) for c in st), c_out(out))) for op, st, out in hist)
    return cpair(clist(cZ(c) for c in init), steps)


def shrink(init, ops, still_fails):
    """Delta-debug the op list, then the initial elements."""
    changed = True
    while changed:
        changed = False
        for i in range(len(ops)):
            cand = ops[:i] + ops[i + 1:]
            if still_fails(init, cand):
                ops, changed = cand, True
                break
    for i in range(len(init) - 1, -1, -1):
        cand = init[:i] + init[i + 1:]
        if still_fails(cand, ops):
            init = cand
    return init, ops


def run(ctx: vlib.Ctx):
    vlib.setup_impl_path()
    ctx.digest_sources(SRC)
    ctx.coq_static()
    if not ctx.quick:
        ctx.coqchk()
    n_hist = 600 if ctx.quick else 12000
    corpus = json.loads((vlib.VERIF / "corpus" / "C34.json").read_text())
    hists = [(c["init"], [tuple(o) if not isinstance(o, tuple) else o for o in map(_detuple, c["ops"])]) for c in corpus]
    for _ in range(n_hist):
        hists.append(gen_history(ctx.rng, ctx.rng.choice([1, 2, 4, 8, 12])))
    cases, recs = [], []
    for init, ops in hists:
        hist = run_impl(init, ops)
        recs.append((init, ops, hist))
        cases.append(c_case(init, hist))
        ctx.case_seen((init, ops), nontrivial=len(ops) > 0)
        for op, _, out in hist:
            ctx.count("op:" + op[0])
            if out[0] == "OErr":
                ctx.count("err:" + out[1])
            if op[0] in UPD + QRY1:
                ctx.count("arg:" + op[1][2])
    init, ops, hist = recs[len(corpus)]
    ctx.sample({"init": init, "ops": [repr(o) for o in ops], "observed": [repr(h[1:]) for h in hist]})
    ctx.cov["rule"] = ("random operation histories (1..12 ops over 12 hashable values; arguments as list/tuple/set/"
                       "OrderedSet/FrozenOrderedSet/iterator/generator) plus the minimised-failure corpus; a case is "
                       "non-trivial when it has at least one operation; distinct = distinct (init, ops)")
    # S: direct oracle on every history
    n_or = 0
    for init, ops, hist in recs:
        r = oracle(init, hist)
        if r:
            n_or += 1
            sig, msg, k = r

            def still(i2, o2, sig=sig):
                try:
                    rr = oracle(i2, run_impl(i2, o2))
                except Exception:
                    return False
                return rr is not None and rr[0] == sig
            i2, o2 = shrink(init, ops[:k + 1], still)
            ctx.fail(sig, msg, {"init": i2, "ops": [list(map(_jsonable, o)) for o in o2], "universe": [repr(u) for u in UNIVERSE]})
    ctx.leg("S", oracle_failures=n_or, histories=len(recs))
    # K2: the Coq model replays every history
    bad = ctx.run_cases("C34_cases", "From Verif Require Import Models.C34.", "C34.case", "C34.check_case", cases)
    if bad is None:
        pass
    elif bad:
        ctx.leg("K2", ok=False, mismatches=len(bad))
        if n_or == 0:
            init, ops, hist = recs[bad[0]]
            ctx.broken("correspondence:C34-model-vs-orderedset",
                       "the ordered-set model (about which the theorems are proved) no longer reproduces the implementation",
                       {"init": init, "ops": [repr(o) for o in ops], "implementation": [repr(h[1:]) for h in hist],
                        "mismatching_histories": len(bad)})
    else:
        ctx.leg("K2", ok=True, histories=len(cases))
    ctx.assumptions += [
        "elements are compared by ==/hash as Python does; the model identifies each test value with an integer code",
        "the Set/MutableSet/Sequence mixins of collections.abc are modelled as read from CPython 3.12",
    ]
    ctx.cov["trusted_base"] += ["hand-written model Models/C34.v tied by history correspondence (this run)",
                                "harness/props/C34.py (generator, abstraction to codes, reference oracle)"]


def _detuple(o):
    def fix(x):
        if isinstance(x, list) and len(x) == 3 and x[0] in ("KList", "KSet", "KIter"):
            return (x[0], x[1], x[2])
        return x
    o = list(o)
    if len(o) > 1:
        if isinstance(o[1], list) and o[1] and isinstance(o[1][0], list):
            o[1] = [fix(x) for x in o[1]]
        else:
            o[1] = fix(o[1])
    return tuple(o)


def _jsonable(x):
    return list(x) if isinstance(x, tuple) else x


def replay(ctx, path):
    vlib.setup_impl_path()
    d = json.loads(open(path).read())["replay"]
    ops = [_detuple(o) for o in d["ops"]]
    hist = run_impl(d["init"], ops)
    print("implementation:", hist)
    print("oracle:", oracle(d["init"], hist))
    print("model agrees:", ctx.coq_eval("From Verif Require Import Models.C34.", "C34.check_case " + c_case(d["init"], hist)))
    return 0
