"""C34 — ordered sets: T (static proofs), K2 (histories on the real classes replayed by the Coq
model), S (independent reference oracle: builtin set + first-insertion order)."""
from __future__ import annotations

import json

import vlib
from vlib import cZ, clist, cpair

UNIVERSE = [0, 1, 2, 3, 4, 5, 6, 7, "a", "b", (1, 2), (0,), None, "", False.__class__, ...]
SRC = ["src/pynguin/utils/orderedset.py"]

UPD = ["Update", "IntersectionUpdate", "SymDiffUpdate", "IOr", "IAnd", "ISub", "IXor"]
MULTI_UPD = ["DifferenceUpdate"]
QRY1 = ["SymDiff", "IsSubset", "IsSuperset", "IsDisjoint", "Sub"]
QRYN = ["Union", "Intersection", "Difference"]
ELT = ["Add", "Discard", "Remove", "Index", "Count", "Contains"]
NUL = ["Pop", "Clear", "Len", "Iter", "Reversed", "Copy"]
CMP = ["EqOSet", "Le", "Lt", "Ge", "Gt"]


def gen_iterable(rng):
    if rng.random() < 0.12:
        # the argument aliases the receiver: the set itself, an iterator or a lazy generator over it
        fl = rng.choice(["self", "self_iter", "self_gen"])
        return ("KSet" if fl == "self" else "KIter", [], fl)
    kind = rng.choice(["KList", "KSet", "KIter", "KIter", "KList"])
    n = rng.choice([0, 1, 2, 3, 4, 6])
    codes = [rng.randrange(len(UNIVERSE)) for _ in range(n)]
    if kind == "KSet":
        flavour = rng.choice(["set", "oset", "frozen"])
        codes = list(dict.fromkeys(codes))
        return (kind, codes, flavour)
    flavour = rng.choice(["list", "tuple"]) if kind == "KList" else rng.choice(["iter", "gen"])
    return (kind, codes, flavour)


def gen_history(rng, n_ops):
    init = [rng.randrange(len(UNIVERSE)) for _ in range(rng.choice([0, 1, 3, 5, 8]))]
    ops = []
    for _ in range(n_ops):
        c = rng.random()
        if c < 0.30:
            ops.append((rng.choice(UPD), gen_iterable(rng)))
        elif c < 0.36:
            ops.append(("DifferenceUpdate", [gen_iterable(rng) for _ in range(rng.choice([0, 1, 2, 3]))]))
        elif c < 0.52:
            ops.append((rng.choice(QRY1), gen_iterable(rng)))
        elif c < 0.62:
            ops.append((rng.choice(QRYN), [gen_iterable(rng) for _ in range(rng.choice([0, 1, 2, 3]))]))
        elif c < 0.72:
            ops.append((rng.choice(ELT), rng.randrange(len(UNIVERSE))))
        elif c < 0.76:
            ops.append(("IndexRange", rng.randrange(len(UNIVERSE)), rng.randrange(-10, 10),
                        rng.choice([None, None, rng.randrange(-10, 10)])))
        elif c < 0.86:
            ops.append(("GetItem", rng.randrange(-11, 11)))
        elif c < 0.94:
            ops.append((rng.choice(NUL),))
        else:
            ops.append((rng.choice(CMP), list(dict.fromkeys(rng.randrange(len(UNIVERSE)) for _ in range(rng.choice([0, 1, 2, 4, 6]))))))
    return init, ops


# ---------------------------------------------------------------------------------------------
def materialise(it, OrderedSet, FrozenOrderedSet, recv=None, opname="", objs=None):
    """Build the real Python argument.  For real sets the iteration order is not the list order;
    return the order a traversal yields so that the model sees the same sequence."""
    kind, codes, flavour = it
    if flavour.startswith("obj:"):
        # another object of the store, passed itself (not a copy)
        o = objs[int(flavour[4:]) % len(objs)]
        return o, [UNIVERSE.index(v) for v in o]
    if flavour.startswith("self"):
        now = [UNIVERSE.index(v) for v in recv]
        if flavour == "self" or opname == "ISub":
            # `s -= <lazy view of s>` mutates while iterating and raises RuntimeError exactly like
            # Python's built-in set; outside the generator (see notes/C34.md)
            return recv, now
        if flavour == "self_iter":
            return iter(recv), now
        return (x for x in recv), now
    vals = [UNIVERSE[c] for c in codes]
    if flavour == "list":
        return vals, codes
    if flavour == "tuple":
        return tuple(vals), codes
    if flavour == "iter":
        return iter(vals), codes
    if flavour == "gen":
        return (v for v in vals), codes
    if flavour == "set":
        s = set(vals)
        return s, [UNIVERSE.index(v) for v in s]
    if flavour == "oset":
        return OrderedSet(vals), codes
    return FrozenOrderedSet(vals), codes


def enc(v):
    return UNIVERSE.index(v)


def run_impl(init, ops):
    """Returns (history of (op_with_observed_arg_order, state_codes, out), or raises)."""
    from pynguin.utils.orderedset import OrderedSet

    s = OrderedSet(UNIVERSE[c] for c in init)
    hist = []
    for op in ops:
        s, obs_op, out = apply_op(s, op)
        hist.append((obs_op, [enc(v) for v in s], out))
    return hist


def apply_op(s, op, objs=None):
    """Apply one operation to the real object `s`.  Returns (receiver afterwards, operation with the
    observed argument order, output).  The receiver afterwards is another object only when Python
    rebinds it (`f |= x` on a frozen set)."""
    from pynguin.utils.orderedset import FrozenOrderedSet, OrderedSet

    if True:
        name = op[0]
        out = ("OUnit",)
        obs_op = op
        try:
            if name in UPD or name in QRY1:
                arg, order = materialise(op[1], OrderedSet, FrozenOrderedSet, s, name, objs)
                k_ = "KSet" if (op[1][2] == "self" or (op[1][2].startswith("self") and name == "ISub")) else op[1][0]
                obs_op = (name, (k_, order, op[1][2]))
                if name == "Update":
                    s.update(arg)
                elif name == "IntersectionUpdate":
                    s.intersection_update(arg)
                elif name == "SymDiffUpdate":
                    s.symmetric_difference_update(arg)
                elif name == "IOr":
                    s |= arg
                elif name == "IAnd":
                    s &= arg
                elif name == "ISub":
                    s -= arg
                elif name == "IXor":
                    s ^= arg
                elif name == "SymDiff":
                    r = s.symmetric_difference(arg) if op[1][2] != "tuple" else s ^ arg
                    out = ("OList", [enc(v) for v in r])
                elif name == "IsSubset":
                    out = ("OBool", s.issubset(arg))
                elif name == "IsSuperset":
                    out = ("OBool", s.issuperset(arg))
                elif name == "IsDisjoint":
                    out = ("OBool", s.isdisjoint(arg))
                elif name == "Sub":
                    out = ("OList", [enc(v) for v in (s - arg)])
            elif name in MULTI_UPD or name in QRYN:
                mats = [materialise(it, OrderedSet, FrozenOrderedSet, s, name, objs) for it in op[1]]
                obs_op = (name, [("KSet" if it[2] == "self" else it[0], m[1], it[2]) for it, m in zip(op[1], mats)])
                args = [m[0] for m in mats]
                if name == "DifferenceUpdate":
                    s.difference_update(*args)
                elif name == "Union":
                    r = s.union(*args) if len(args) != 1 else s | args[0]
                    out = ("OList", [enc(v) for v in r])
                elif name == "Intersection":
                    r = s.intersection(*args) if len(args) != 1 else s & args[0]
                    out = ("OList", [enc(v) for v in r])
                elif name == "Difference":
                    out = ("OList", [enc(v) for v in s.difference(*args)])
            elif name in ELT:
                v = UNIVERSE[op[1]]
                if name == "Add":
                    s.add(v)
                elif name == "Discard":
                    s.discard(v)
                elif name == "Remove":
                    s.remove(v)
                elif name == "Index":
                    out = ("OInt", s.index(v))
                elif name == "Count":
                    out = ("OInt", s.count(v))
                elif name == "Contains":
                    out = ("OBool", v in s)
            elif name == "IndexRange":
                v = UNIVERSE[op[1]]
                out = ("OInt", s.index(v, op[2]) if op[3] is None else s.index(v, op[2], op[3]))
            elif name == "GetItem":
                out = ("OInt", enc(s[op[1]]))
            elif name in CMP:
                other = OrderedSet(UNIVERSE[c] for c in op[1])
                if name == "EqOSet":
                    out = ("OBool", s == other)
                elif name == "Le":
                    out = ("OBool", s <= other)
                elif name == "Lt":
                    out = ("OBool", s < other)
                elif name == "Ge":
                    out = ("OBool", s >= other)
                elif name == "Gt":
                    out = ("OBool", s > other)
            elif name == "Pop":
                out = ("OInt", enc(s.pop()))
            elif name == "Clear":
                s.clear()
            elif name == "Len":
                out = ("OInt", len(s))
            elif name == "Iter":
                out = ("OList", [enc(v) for v in s])
            elif name == "Reversed":
                out = ("OList", [enc(v) for v in reversed(s)])
            elif name == "Copy":
                import copy

                out = ("OList", [enc(v) for v in copy.copy(s)] if len(s) % 2 else [enc(v) for v in FrozenOrderedSet(s)])
        except (IndexError, KeyError, ValueError, TypeError, RuntimeError) as e:
            out = ("OErr", type(e).__name__)
        return s, obs_op, out


# ---------------------------------------------------------------------------------------------
# S: independent reference (builtin set semantics + first-insertion order), used as direct oracle
def first_new(state, xs):
    seen, res = set(state), []
    for x in xs:
        if x not in seen:
            seen.add(x)
            res.append(x)
    return res


def oracle(init, hist):
    """Returns None or (signature, message, step index)."""
    state = list(dict.fromkeys(init))
    for k, (op, impl_state, out) in enumerate(hist):
        name = op[0]
        exp_out = None  # None = not determined by the property
        new = state
        if name in UPD:
            c = op[1][1]
            cs = set(c)
            if name in ("Update", "IOr"):
                new = state + first_new(state, c)
            elif name in ("IntersectionUpdate", "IAnd"):
                new = [y for y in state if y in cs]
            elif name == "ISub":
                new = [y for y in state if y not in cs]
            else:
                new = [y for y in state if y not in cs] + first_new(state, c)
            exp_out = ("OUnit",)
        elif name == "DifferenceUpdate":
            cs = set().union(*[set(it[1]) for it in op[1]]) if op[1] else set()
            new = [y for y in state if y not in cs]
            exp_out = ("OUnit",)
        elif name in QRY1:
            c = op[1][1]
            cs = set(c)
            if name == "SymDiff":
                exp_out = ("OList", [y for y in state if y not in cs] + first_new(state, c))
            elif name == "IsSubset":
                exp_out = ("OBool", set(state) <= cs)
            elif name == "IsSuperset":
                exp_out = ("OBool", set(state) >= cs)
            elif name == "IsDisjoint":
                exp_out = ("OBool", not (set(state) & cs))
            else:
                exp_out = ("OList", [y for y in state if y not in cs])
        elif name in QRYN:
            sets = [set(it[1]) for it in op[1]]
            if name == "Union":
                exp_out = ("OList", state + first_new(state, [x for it in op[1] for x in it[1]]))
            elif name == "Intersection":
                exp_out = ("OList", [y for y in state if all(y in t for t in sets)])
            else:
                exp_out = ("OList", [y for y in state if not any(y in t for t in sets)])
        elif name == "Add":
            new, exp_out = state + first_new(state, [op[1]]), ("OUnit",)
        elif name == "Discard":
            new, exp_out = [y for y in state if y != op[1]], ("OUnit",)
        elif name == "Remove":
            if op[1] in state:
                new, exp_out = [y for y in state if y != op[1]], ("OUnit",)
            else:
                exp_out = ("OErr", "KeyError")
        elif name == "Index":
            exp_out = ("OInt", state.index(op[1])) if op[1] in state else ("OErr", "ValueError")
        elif name == "IndexRange":
            try:
                exp_out = ("OInt", state.index(op[1], op[2]) if op[3] is None else state.index(op[1], op[2], op[3]))
            except ValueError:
                exp_out = ("OErr", "ValueError")
        elif name == "Count":
            exp_out = ("OInt", state.count(op[1]))
        elif name == "Contains":
            exp_out = ("OBool", op[1] in state)
        elif name == "GetItem":
            try:
                exp_out = ("OInt", state[op[1]])
            except IndexError:
                exp_out = ("OErr", "IndexError")
        elif name == "Pop":
            if not state:
                exp_out = ("OErr", "KeyError")
            elif out[0] == "OInt" and out[1] in state:
                new, exp_out = [y for y in state if y != out[1]], out  # which element: unspecified
            else:
                return ("pop-result", f"pop returned {out} for {state}", k)
        elif name == "Clear":
            new, exp_out = [], ("OUnit",)
        elif name == "Len":
            exp_out = ("OInt", len(state))
        elif name in ("Iter", "Copy"):
            exp_out = ("OList", state)
        elif name == "Reversed":
            exp_out = ("OList", state[::-1])
        elif name == "EqOSet":
            exp_out = ("OBool", state == op[1])
        elif name in ("Le", "Lt", "Ge", "Gt"):
            a, b = set(state), set(op[1])
            exp_out = ("OBool", {"Le": a <= b, "Lt": a < b, "Ge": a >= b, "Gt": a > b}[name])
        if len(set(impl_state)) != len(impl_state):
            return ("duplicate-element", f"state {impl_state} holds duplicates after {op}", k)
        if set(impl_state) != set(new):
            kind = op[1][0] if name in UPD + QRY1 else ""
            return (f"membership:{name}:{kind}", f"after {op} on {state}: elements {impl_state}, a set would hold {new}", k)
        if impl_state != new:
            return (f"order:{name}", f"after {op} on {state}: order {impl_state}, first-insertion order is {new}", k)
        if exp_out is not None and tuple(out) != tuple(exp_out):
            kind = op[1][0] if name in UPD + QRY1 else ""
            if name == "GetItem" and op[1] < 0:
                kind = "negative"
            if name == "IndexRange":
                kind = "negative" if (op[2] < 0 or (op[3] is not None and op[3] < 0)) else "bounds"
            return (f"result:{name}:{kind}", f"{op} on {state} returned {out}, expected {exp_out}", k)
        state = new
    return None


# ---------------------------------------------------------------------------------------------
# several objects: constructors from other objects, operations with other objects as arguments
MUT_METHODS = ["Add", "Discard", "Remove", "Pop", "Clear", "Update", "DifferenceUpdate", "IntersectionUpdate",
               "SymDiffUpdate"]
INPLACE = ["IOr", "IAnd", "ISub", "IXor"]
SAME_CLASS_WAYS = ["copy", "union0", "or_empty", "inter0", "diff0", "sub_empty"]   # result has the source's class


def gen_heap_history(rng, n_ops):
    """[("New", xs, frozen) | ("From", r, frozen, w) | ("Apply", r, op)].  r and w are raw random numbers:
    the runner resolves r modulo the number of objects that exist at that point (creation order) and
    picks the construction way from w, so that every sub-sequence of a history is a history."""
    ops = [("New", [rng.randrange(len(UNIVERSE)) for _ in range(rng.choice([0, 1, 3, 5]))], rng.random() < 0.4)]
    for _ in range(n_ops):
        c = rng.random()
        if c < 0.08:
            ops.append(("New", [rng.randrange(len(UNIVERSE)) for _ in range(rng.choice([0, 1, 3, 5]))], rng.random() < 0.4))
        elif c < 0.35:
            ops.append(("From", rng.randrange(64), rng.random() < 0.45, rng.randrange(64)))
        else:
            _, one = gen_history(rng, 1)
            op = one[0]
            if op[0] in CMP:
                continue

            def re_arg(it):
                # arguments: often another object of the store itself
                if rng.random() < 0.45:
                    return ("KSet", [], f"obj:{rng.randrange(64)}")
                return it
            if op[0] in UPD or op[0] in QRY1:
                op = (op[0], re_arg(op[1]))
            elif op[0] in MULTI_UPD or op[0] in QRYN:
                op = (op[0], [re_arg(it) for it in op[1]])
            ops.append(("Apply", rng.randrange(64), op))
    return ops


def run_heap_impl(hops):
    """Returns ([(observed hop, [(frozen, codes) for every object], out)], hashes of frozen objects stable)."""
    import copy

    from pynguin.utils.orderedset import FrozenOrderedSet, OrderedSet

    objs, hashes, hist = [], {}, []

    def snap():
        return [(isinstance(o, FrozenOrderedSet), [enc(v) for v in o]) for o in objs]

    def remember(o):
        objs.append(o)
        if isinstance(o, FrozenOrderedSet):
            hashes[len(objs) - 1] = hash(o)

    for h in hops:
        out = ("HOut", ("OUnit",))
        obs = h
        if h[0] == "New" or not objs:
            xs = h[1] if h[0] == "New" else []
            fr = h[2] if h[0] == "New" else False
            vals = [UNIVERSE[c] for c in xs]
            remember(FrozenOrderedSet(vals) if fr else OrderedSet(iter(vals)))
            obs = ("New", xs, fr)
        elif h[0] == "From":
            i = h[1] % len(objs)
            src, want_frozen = objs[i], h[2]
            src_frozen = isinstance(src, FrozenOrderedSet)
            if want_frozen and not src_frozen:
                ways = ["fctor", "freeze"]
            elif want_frozen:
                ways = ["fctor", *SAME_CLASS_WAYS]
            elif src_frozen:
                ways = ["ctor"]
            else:
                ways = ["ctor", *SAME_CLASS_WAYS]
            way = ways[h[3] % len(ways)]
            if way == "ctor":
                new = OrderedSet(src)
            elif way == "fctor":
                new = FrozenOrderedSet(src)
            elif way == "copy":
                new = copy.copy(src)
            elif way == "freeze":
                new = src.freeze()
            elif way == "union0":
                new = src.union()
            elif way == "or_empty":
                new = src | []
            elif way == "inter0":
                new = src.intersection()
            elif way == "diff0":
                new = src.difference()
            else:
                new = src - []
            remember(new)
            obs = ("From", i, isinstance(new, FrozenOrderedSet), way)
        else:
            i, op = h[1] % len(objs), h[2]
            recv = objs[i]
            try:
                after, obs_op, o = apply_op(recv, op, objs)
                obs = ("Apply", i, obs_op)
                out = ("HOut", o)
                if after is not recv:
                    remember(after)
            except AttributeError:
                # a FrozenOrderedSet has no mutator methods
                out = ("HAttributeError",)
                obs = ("Apply", i, _observe_args(op, objs, recv))
        hist.append((obs, snap(), out))
    hash_ok = all(hash(objs[k]) == hv and hash(FrozenOrderedSet(list(objs[k]))) == hv for k, hv in hashes.items())
    return hist, hash_ok


def _observe_args(op, objs, recv):
    def ob(it):
        if it[2].startswith("obj:"):
            return ("KSet", [enc(v) for v in objs[int(it[2][4:]) % len(objs)]], it[2])
        if it[2].startswith("self"):
            return ("KSet" if it[2] == "self" else it[0], [enc(v) for v in recv], it[2])
        if it[2] == "set":
            return (it[0], [enc(v) for v in set(UNIVERSE[c] for c in it[1])], it[2])
        return it
    if op[0] in UPD or op[0] in QRY1:
        return (op[0], ob(op[1]))
    if op[0] in MULTI_UPD or op[0] in QRYN:
        return (op[0], [ob(it) for it in op[1]])
    return op


def heap_oracle(hist):
    """Frame rule + the single-object reference on the target.  None or (signature, message, step)."""
    before = []
    for k, (hop, snapshot, out) in enumerate(hist):
        if hop[0] == "New":
            exp = before + [(hop[2], list(dict.fromkeys(hop[1])))]
            if snapshot != exp:
                return ("heap:constructor", f"{hop}: store {snapshot}, expected {exp}", k)
        elif hop[0] == "From":
            exp = before + [(hop[2], before[hop[1]][1])]
            if snapshot[:len(before)] != before:
                return (f"heap:aliasing:construct:{hop[3]}", f"{hop} changed an existing object: {before} -> {snapshot}", k)
            if snapshot != exp:
                return (f"heap:copy-value:{hop[3]}", f"{hop}: store {snapshot}, expected {exp}", k)
        else:
            i, op = hop[1], hop[2]
            fr, val = before[i]
            for j, (b, a) in enumerate(zip(before, snapshot)):
                if j != i and a != b:
                    return (f"heap:aliasing:{op[0]}", f"{hop} on object {i} changed object {j}: {b} -> {a}", k)
            if fr:
                if snapshot[i] != before[i]:
                    return (f"heap:frozen-changed:{op[0]}", f"{hop} changed the frozen object {i}: {before[i]} -> {snapshot[i]}", k)
                if op[0] in MUT_METHODS:
                    if out != ("HAttributeError",):
                        return (f"heap:frozen-mutator:{op[0]}", f"{hop} on a frozen set returned {out}", k)
                elif op[0] in INPLACE:
                    if len(snapshot) != len(before) + 1 or not snapshot[-1][0]:
                        return (f"heap:frozen-inplace:{op[0]}", f"{hop}: store {before} -> {snapshot}", k)
                    q = {"IOr": "Union", "IAnd": "Intersection", "ISub": "Sub", "IXor": "SymDiff"}[op[0]]
                    qop = (q, [op[1]]) if q in QRYN else (q, op[1])
                    r = oracle(val, [(qop, val, ("OList", snapshot[-1][1]))])
                    if r:
                        return ("heap:" + r[0], r[1], k)
                else:
                    r = oracle(val, [(op, snapshot[i][1], out[1])]) if out[0] == "HOut" else ("heap:frozen-query-error", f"{hop}: {out}", k)
                    if r:
                        return ("heap:" + r[0], r[1], k)
                    if len(snapshot) != len(before):
                        return ("heap:object-count", f"{hop}: store {before} -> {snapshot}", k)
            else:
                if len(snapshot) != len(before) or out[0] != "HOut":
                    return ("heap:object-count", f"{hop}: {out}; store {before} -> {snapshot}", k)
                r = oracle(val, [(op, snapshot[i][1], out[1])])
                if r:
                    return ("heap:" + r[0], r[1], k)
        before = snapshot
    return None


def c_hop(h):
    if h[0] == "New":
        return f"C34H.HNewIter {clist(cZ(c) for c in h[1])} {vlib.cbool(h[2])}"
    if h[0] == "From":
        return f"C34H.HNewFrom {h[1]}%nat {vlib.cbool(h[2])}"
    return f"C34H.HApply {h[1]}%nat ({c_op(h[2])})"


def c_hout(o):
    if o[0] == "HOut":
        return f"C34H.HOut ({c_out(o[1])})"
    return "C34H." + o[0]


def c_hcase(hist):
    return clist(cpair(c_hop(h), cpair(clist(cpair(vlib.cbool(fr), clist(cZ(c) for c in codes)) for fr, codes in snap), c_hout(out)))
                 for h, snap, out in hist)


# ---------------------------------------------------------------------------------------------
def c_it(it):
    return "{| C34.ikind := C34.%s; C34.content := %s |}" % (it[0], clist(cZ(c) for c in it[1]))


def c_op(op):
    n = op[0]
    if n in UPD or n in QRY1:
        return f"C34.{n} {c_it(op[1])}"
    if n in MULTI_UPD or n in QRYN:
        return f"C34.{n} {clist(c_it(i) for i in op[1])}"
    if n in ELT or n == "GetItem":
        return f"C34.{n} {cZ(op[1])}"
    if n == "IndexRange":
        return f"C34.IndexRange {cZ(op[1])} {cZ(op[2])} {'None' if op[3] is None else '(Some ' + cZ(op[3]) + ')'}"
    if n in CMP:
        return f"C34.{n} {clist(cZ(c) for c in op[1])}"
    return f"C34.{n}"


def c_out(o):
    if o[0] == "OUnit":
        return "C34.OUnit"
    if o[0] == "OBool":
        return f"C34.OBool {vlib.cbool(o[1])}"
    if o[0] == "OInt":
        return f"C34.OInt {cZ(o[1])}"
    if o[0] == "OList":
        return f"C34.OList {clist(cZ(c) for c in o[1])}"
    return f"C34.OErr C34.{o[1] if o[1] != 'RuntimeError' else 'TypeError'}"


def c_case(init, hist):
    steps = clist(cpair(c_op(op), cpair(clist(cZ(c) for c in st), c_out(out))) for op, st, out in hist)
    return cpair(clist(cZ(c) for c in init), steps)


def shrink(init, ops, still_fails):
    """Delta-debug the op list, then the initial elements."""
    changed = True
    while changed:
        changed = False
        for i in range(len(ops)):
            cand = ops[:i] + ops[i + 1:]
            if still_fails(init, cand):
                ops, changed = cand, True
                break
    for i in range(len(init) - 1, -1, -1):
        cand = init[:i] + init[i + 1:]
        if still_fails(cand, ops):
            init = cand
    return init, ops


def run(ctx: vlib.Ctx):
    vlib.setup_impl_path()
    ctx.digest_sources(SRC)
    ctx.coq_static()
    if not ctx.quick:
        ctx.coqchk()
    n_hist = 600 if ctx.quick else 12000
    corpus = json.loads((vlib.VERIF / "corpus" / "C34.json").read_text())
    heap_corpus = [c["heap"] for c in corpus if "heap" in c]
    corpus = [c for c in corpus if "heap" not in c]
    hists = [(c["init"], [tuple(o) if not isinstance(o, tuple) else o for o in map(_detuple, c["ops"])]) for c in corpus]
    for _ in range(n_hist):
        hists.append(gen_history(ctx.rng, ctx.rng.choice([1, 2, 4, 8, 12])))
    cases, recs = [], []
    for init, ops in hists:
        hist = run_impl(init, ops)
        recs.append((init, ops, hist))
        cases.append(c_case(init, hist))
        ctx.case_seen((init, ops), nontrivial=len(ops) > 0)
        for op, _, out in hist:
            ctx.count("op:" + op[0])
            if out[0] == "OErr":
                ctx.count("err:" + out[1])
            if op[0] in UPD + QRY1:
                ctx.count("arg:" + op[1][2])
    init, ops, hist = recs[len(corpus)]
    ctx.sample({"init": init, "ops": [repr(o) for o in ops], "observed": [repr(h[1:]) for h in hist]})
    ctx.cov["rule"] = (f"random operation histories (1..12 ops over {len(UNIVERSE)} hashable values incl. None, '', a type object and Ellipsis; "
                       "arguments as list/tuple/set/OrderedSet/FrozenOrderedSet/iterator/generator/the receiver itself) and store "
                       "histories over several objects (2..16 ops: constructors from other objects, copy, freeze, operations "
                       "with other objects as arguments) plus the minimised-failure corpus; a case is non-trivial when it has "
                       "at least one operation; distinct = distinct (init, ops) / distinct store history")
    # S: direct oracle on every history
    n_or = 0
    for init, ops, hist in recs:
        r = oracle(init, hist)
        if r:
            n_or += 1
            sig, msg, k = r

            def still(i2, o2, sig=sig):
                try:
                    rr = oracle(i2, run_impl(i2, o2))
                except Exception:
                    return False
                return rr is not None and rr[0] == sig
            i2, o2 = shrink(init, ops[:k + 1], still)
            ctx.fail(sig, msg, {"init": i2, "ops": [list(map(_jsonable, o)) for o in o2], "universe": [repr(u) for u in UNIVERSE]})
    ctx.leg("S", oracle_failures=n_or, histories=len(recs))
    # K2: the Coq model replays every history
    bad = ctx.run_cases("C34_cases", "From Verif Require Import Models.C34.", "C34.case", "C34.check_case", cases)
    if bad is None:
        pass
    elif bad:
        ctx.leg("K2", ok=False, mismatches=len(bad))
        if n_or == 0:
            init, ops, hist = recs[bad[0]]
            ctx.broken("correspondence:C34-model-vs-orderedset",
                       "the ordered-set model (about which the theorems are proved) no longer reproduces the implementation",
                       {"init": init, "ops": [repr(o) for o in ops], "implementation": [repr(h[1:]) for h in hist],
                        "mismatching_histories": len(bad)})
    else:
        ctx.leg("K2", ok=True, histories=len(cases))
    # ---- several objects: aliasing, frozen objects, constructors from other objects ----
    n_heap = 400 if ctx.quick else 8000
    hhists = [[_dehop(h) for h in hc] for hc in heap_corpus]
    for _ in range(n_heap):
        hhists.append(gen_heap_history(ctx.rng, ctx.rng.choice([2, 4, 8, 12, 16])))
    hcases, hrecs, n_hor = [], [], 0
    for hops in hhists:
        hist, hash_ok = run_heap_impl(hops)
        hrecs.append((hops, hist))
        hcases.append(c_hcase(hist))
        ctx.case_seen(("heap", hops), nontrivial=len(hops) > 1)
        for h, snapshot, out in hist:
            ctx.count("heap:" + h[0] + (":" + h[3] if h[0] == "From" else ""))
            if h[0] == "Apply":
                ctx.count("heap:target:" + ("frozen" if snapshot[h[1]][0] else "mutable"))
                o = h[2]
                its = [o[1]] if o[0] in UPD + QRY1 else (o[1] if o[0] in MULTI_UPD + QRYN else [])
                if any(it[2].startswith("obj:") for it in its):
                    ctx.count("heap:arg-is-object")
        r = heap_oracle(hist)
        if r is None and not hash_ok:
            r = ("heap:frozen-hash", "the hash of a frozen object changed or differs from that of an equal frozen set", len(hops) - 1)
        if r:
            n_hor += 1
            sig, msg, k = r

            def hstill(o2, sig=sig):
                try:
                    h2, ok2 = run_heap_impl(o2)
                    rr = heap_oracle(h2)
                except Exception:
                    return False
                if rr is None and not ok2:
                    rr = ("heap:frozen-hash",)
                return rr is not None and rr[0] == sig
            o2 = hops[:k + 1]
            changed = True
            while changed:
                changed = False
                for i in range(len(o2)):
                    cand = o2[:i] + o2[i + 1:]
                    if cand and hstill(cand):
                        o2, changed = cand, True
                        break
            ctx.fail(sig, msg, {"heap": [_jsonable_hop(h) for h in o2], "universe": [repr(u) for u in UNIVERSE]})
    ctx.leg("S-heap", oracle_failures=n_hor, histories=len(hrecs))
    hbad = ctx.run_cases("C34_hcases", "From Verif Require Import Models.C34 Models.C34Heap.", "C34H.hcase",
                         "C34H.check_hcase", hcases)
    if hbad is None:
        pass
    elif hbad:
        ctx.leg("K2-heap", ok=False, mismatches=len(hbad))
        if n_hor == 0 and n_or == 0:
            hops, hist = hrecs[hbad[0]]
            ctx.broken("correspondence:C34-store-model-vs-orderedset",
                       "the store-of-objects model (independence, frozen immutability) no longer reproduces the implementation",
                       {"heap": [_jsonable_hop(h) for h in hops], "implementation": [repr(h) for h in hist],
                        "mismatching_histories": len(hbad)})
    else:
        ctx.leg("K2-heap", ok=True, histories=len(hcases))
    ctx.assumptions += [
        "elements are compared by ==/hash as Python does; the model identifies each test value with an integer code",
        "the Set/MutableSet/Sequence mixins of collections.abc are modelled as read from CPython 3.12",
    ]
    ctx.cov["trusted_base"] += ["hand-written model Models/C34.v tied by history correspondence (this run)",
                                "harness/props/C34.py (generator, abstraction to codes, reference oracle)"]


def _detuple(o):
    def fix(x):
        if isinstance(x, list) and len(x) == 3 and x[0] in ("KList", "KSet", "KIter"):
            return (x[0], x[1], x[2])
        return x
    o = list(o)
    if len(o) > 1:
        if isinstance(o[1], list) and o[1] and isinstance(o[1][0], list):
            o[1] = [fix(x) for x in o[1]]
        else:
            o[1] = fix(o[1])
    return tuple(o)


def _jsonable(x):
    return list(x) if isinstance(x, tuple) else x


def _jsonable_hop(h):
    if h[0] == "Apply":
        return ["Apply", h[1], [_jsonable(x) for x in h[2]]]
    return list(h)


def _dehop(h):
    if h[0] == "Apply":
        return ("Apply", h[1], _detuple(h[2]))
    return tuple(h)


def replay(ctx, path):
    vlib.setup_impl_path()
    d = json.loads(open(path).read())["replay"]
    if "heap" in d:
        hops = [_dehop(h) for h in d["heap"]]
        hist, hash_ok = run_heap_impl(hops)
        print("implementation:", hist, "hashes stable:", hash_ok)
        print("oracle:", heap_oracle(hist))
        print("model agrees:", ctx.coq_eval("From Verif Require Import Models.C34 Models.C34Heap.", "C34H.check_hcase " + c_hcase(hist)))
        return 0
    ops = [_detuple(o) for o in d["ops"]]
    hist = run_impl(d["init"], ops)
    print("implementation:", hist)
    print("oracle:", oracle(d["init"], hist))
    print("model agrees:", ctx.coq_eval("From Verif Require Import Models.C34.", "C34.check_case " + c_case(d["init"], hist)))
    return 0
