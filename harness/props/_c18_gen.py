"""Run one real Pynguin generation in this (fresh) process and export the suite.

usage: _c18_gen.py '<json>'   with keys repo, project, module, seed, mode, no_xfail, out, iterations,
algorithm, roundtrip.  Prints one line `RESULT <json>`.

Shared by C18 (pytest on the exported file) and C24 (export -> parse_seed_module -> re-render).
"""
from __future__ import annotations

import json
import logging
import os
import sys


def main() -> int:
    a = json.loads(sys.argv[1])
    sys.path.insert(0, os.path.join(a["repo"], "src"))
    os.environ["PYNGUIN_DANGER_AWARE"] = "1"
    os.environ["SE2P_PYNGUIN_VERIF"] = "1"
    import pynguin.configuration as config
    from pynguin.generator import run_pynguin, set_configuration

    errors: list[str] = []

    class H(logging.Handler):
        def emit(self, record):
            if record.levelno >= logging.ERROR:
                et = record.exc_info[0].__name__ if record.exc_info and record.exc_info[0] else ""
                errors.append(f"{record.getMessage()[:120]}|{et}")

    logging.getLogger().addHandler(H())
    logging.getLogger().setLevel(logging.ERROR)

    cfg = config.Configuration(
        project_path=a["project"],
        module_name=a["module"],
        test_case_output=config.TestCaseOutputConfiguration(
            output_path=a["out"],
            assertion_generation=config.AssertionGenerator[a["mode"]],
            no_xfail=bool(a.get("no_xfail")),
            format_with_black=bool(a.get("black", True)),
        ),
        algorithm=config.Algorithm[a.get("algorithm", "DYNAMOSA")],
        stopping=config.StoppingConfiguration(maximum_iterations=int(a.get("iterations", 6)), maximum_search_time=-1),
        seeding=config.SeedingConfiguration(seed=int(a["seed"])),
        statistics_output=config.StatisticsOutputConfiguration(
            report_dir=os.path.join(a["out"], "report"), statistics_backend=config.StatisticsBackend.NONE
        ),
    )
    if a.get("minimization"):
        cfg.test_case_output.minimization.test_case_minimization_strategy = config.MinimizationStrategy[a["minimization"]]
    set_configuration(cfg)
    # Snapshot the suite right before statement minimisation (which runs after assertion generation):
    # exported to <out>/pre so that the harness can tell whether a failing assertion was made stale by
    # the removal of a statement.  Observation only; the real export is untouched.
    import pynguin.generator as gen

    pre_info = {}
    orig_minimize = gen._minimize  # noqa: SLF001

    def spy_minimize(generation_result, algorithm=None):
        try:
            from pynguin.testcase import export

            pre = generation_result.clone()
            # drop the exception-raising tail (statement minimisation truncates after it anyway): the
            # snapshot then tells whether the assertions in front of it hold
            for orig_c, pre_c in zip(generation_result.test_case_chromosomes, pre.test_case_chromosomes):
                if orig_c.is_failing():
                    pos = orig_c.get_last_mutatable_statement()
                    if pos is not None:
                        pre_c.test_case.chop(pos - 1)
            sp = getattr(getattr(algorithm, "executor", None), "subject_properties", None)
            pre_path = export.TestSuiteWriter(no_xfail=bool(a.get("no_xfail"))).write(
                pre, a["module"], os.path.join(a["out"], "pre"), project_path=a["project"],
                format_with_black=False, seed=None, subject_properties=sp)
            pre_info["file"] = str(pre_path)
        except BaseException as e:  # noqa: BLE001
            pre_info["error"] = f"{type(e).__name__}: {e}"
        return orig_minimize(generation_result, algorithm)

    gen._minimize = spy_minimize  # noqa: SLF001
    # Observe the assertion filter: how many filtering executions delivered no verdict because the
    # execution timed out (then never-holding assertions stay in the test).  Observation only.
    import pynguin.assertion.assertiongenerator as agm

    filt = {"calls": 0, "timeouts": 0}
    fname_ = "_AssertionGenerator__remove_non_holding_assertions"
    orig_filter = getattr(agm.AssertionGenerator, fname_)

    def spy_filter(test, result):
        filt["calls"] += 1
        filt["timeouts"] += bool(getattr(result, "timeout", False))
        return orig_filter(test, result)

    setattr(agm.AssertionGenerator, fname_, staticmethod(spy_filter))
    devnull = open(os.devnull, "w")
    old_err = sys.stderr
    sys.stderr = devnull
    try:
        rc = run_pynguin()
    finally:
        sys.stderr = old_err
    name = a["module"].rsplit(".", 1)[-1]
    path = os.path.join(a["out"], f"test_{name}.py")
    res = {"rc": int(getattr(rc, "value", rc)), "file": path if os.path.exists(path) else None,
           "errors": errors[:8], "pre": pre_info, "filter": filt}
    if a.get("roundtrip") and res["file"]:
        try:
            from props import _c24_lib
        except ImportError:
            sys.path.insert(0, os.path.dirname(os.path.dirname(os.path.abspath(__file__))))
            from props import _c24_lib
        try:
            res["roundtrip"] = _c24_lib.roundtrip_file(open(path).read(), a["module"])
        except Exception as e:  # noqa: BLE001
            import traceback

            res["roundtrip"] = {"crash": f"{type(e).__name__}: {e}", "tb": traceback.format_exc()[-1500:]}
    print("RESULT " + json.dumps(res), flush=True)
    return 0


if __name__ == "__main__":
    sys.exit(main())
