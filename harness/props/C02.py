"""C02 — reported line coverage equals the lines the interpreter executed.

T   Properties/C02.v: lines_exact for every block, exclusion set and block prefix; run lifting;
    reported lines belong to the block and are registered; only probes are added.
K1b translation validation inside Coq: every really instrumented (LINE metric) live basic block of the
    corpus must equal `instrument_block` applied to the independently recomputed original raw block.
S   sys.monitoring LINE events of the uninstrumented code vs lineids_to_linenos(covered_line_ids) of the
    instrumented run on the same input, restricted to registered lines; all registered lines carry the
    module's file name.
"""
from __future__ import annotations

import concurrent.futures as cf
import json
import os

import vlib
from vlib import cZ, clist, cnat, copt, cpair

from props import _c01_gen as G
from props import _c01_impl as I

SRC = ["src/pynguin/instrumentation/version/python3_10.py", "src/pynguin/instrumentation/version/python3_11.py",
       "src/pynguin/instrumentation/version/python3_12.py", "src/pynguin/instrumentation/controlflow.py",
       "src/pynguin/instrumentation/tracer.py", "src/pynguin/instrumentation/transformer.py",
       "src/pynguin/ga/fitness_metrics.py"]


def cls_of(name):
    return {"RESUME": "C02.Resume", "END_FOR": "C02.EndFor"}.get(name, "C02.Other")


def c_ins(name, line):
    return "{| C02.cls := %s; C02.line := %s |}" % (cls_of(name), copt(None if line is None else cZ(line)))


PSEUDO = {"TE": 0, "TB": 1, "SL": 2}


def add_pragmas(src, rng):
    """Mark a few lines of f's body with '# pragma: no cover' to exercise the exclusion logic."""
    lines = src.split("\n")
    start = next(i for i, l in enumerate(lines) if l.startswith("def f("))
    cand = [i for i in range(start + 4, len(lines)) if lines[i].strip() and not lines[i].rstrip().endswith(":")]
    for i in rng.sample(cand, min(len(cand), rng.choice([0, 1, 2]))):
        lines[i] += "  # pragma: no cover"
    hdr = [i for i in range(start + 4, len(lines)) if lines[i].rstrip().endswith(":") and lines[i].lstrip().startswith(("if ", "for ", "while "))]
    for i in rng.sample(hdr, min(len(hdr), rng.choice([0, 0, 1]))):
        lines[i] += "  # pragma: no cover"
    return "\n".join(lines)


MARK = "# pragma: no cover"


def handler_pragma(src, rng):
    """Put the no-cover marker on exactly one handler of a try statement that has at least two; None if there is none."""
    import ast

    tries = [n for n in ast.walk(ast.parse(src)) if isinstance(n, ast.Try) and len(n.handlers) >= 2]
    if not tries:
        return None
    t = rng.choice(tries)
    h = rng.choice(t.handlers)
    lines = src.split("\n")
    lines[h.lineno - 1] += "  " + MARK
    return "\n".join(lines)


def must_cover_lines(src):
    """Independent reading of the marker semantics for except handlers: a marker on the header of ONE handler excludes
    that handler only.  Returns the body lines of unmarked sibling handlers (not nested in a marked handler), provided
    every marker of the file sits on a handler header (otherwise the empty set: nothing is claimed)."""
    import ast

    lines = src.split("\n")
    marked = {i + 1 for i, ln in enumerate(lines) if MARK in ln or "# pynguin: no cover" in ln}
    if not marked:
        return set()
    tree = ast.parse(src)
    handlers = [h for n in ast.walk(tree) if isinstance(n, ast.Try) for h in n.handlers]
    if not marked <= {h.lineno for h in handlers}:
        return set()
    spans = [(h.lineno, h.end_lineno) for h in handlers if h.lineno in marked]
    res = set()
    for n in ast.walk(tree):
        if isinstance(n, ast.Try) and any(h.lineno in marked for h in n.handlers):
            if any(a <= n.lineno <= b and (a, b) != (h.lineno, h.end_lineno) for a, b in spans for h in n.handlers if h.lineno in marked):
                continue
            if any(a < n.lineno <= b for a, b in spans if not any(h.lineno == a for h in n.handlers)):
                continue      # the whole try lies inside another marked handler
            for h in n.handlers:
                if h.lineno not in marked:
                    res |= set(range(h.body[0].lineno, h.body[-1].end_lineno + 1))
    return res


def _work(job):
    n, src, path, specs = job
    reload_leg = n % 3 == 0      # every third program (incl. corpus entries) is also "reloaded"
    I.setup()
    with open(path, "w") as f:
        f.write(src)
    res = {"n": n, "cases": [], "fails": [], "stats": {}}
    plain = compile(src, path, "exec")
    I.reset_records()
    try:
        sp, code, _pool = I.instrument(src, path, ("LINE",), seeding=False)
    except Exception as e:  # noqa: BLE001
        res["fails"].append(["instrument:" + type(e).__name__, str(e)[:200], None])
        return res
    from pynguin.instrumentation.version import common as c

    dead = live = 0
    ex0 = k_leg(sp, plain, code, path, res, c, "")
    if ex0 is None:
        return res
    instrumented = sorted(d["tree_index"] for d in ex0.values())
    # --- reload: reset + re-instrument the changed file on the SAME SubjectProperties -------------------
    if reload_leg:
        lines = src.split("\n")
        at = next(i for i, ln in enumerate(lines) if ln.startswith("def f(")) + 1
        before = "\n".join(lines[:at] + ["    # placeholder, becomes code when the module is reloaded"] + lines[at:])
        after = "\n".join(lines[:at] + ["    reloaded = 0"] + lines[at:])
        try:
            sp2, code2 = I.reinstrument_after_reset(before, after, path, ("LINE",))
        except Exception as e:  # noqa: BLE001
            res["fails"].append(["reload:instrument:" + type(e).__name__, str(e)[:200], None])
        else:
            ids = sorted(sp2.existing_lines)
            metas = [(m.file_name, m.line_number) for m in sp2.existing_lines.values()]
            if ids != list(range(len(ids))) or len(set(metas)) != len(metas):
                res["fails"].append(["reload:registry-not-dense", f"after reset + re-instrumentation line ids {ids[:8]}... "
                                     f"for {len(set(metas))} distinct lines", None])
            k_leg(sp2, compile(after, path, "exec"), code2, path, res, c, "reload:")
        with open(path, "w") as f:
            f.write(src)
        I.reset_records()
    res["stats"].update({"dead": res["stats"].get("dead", 0), "live": res["stats"].get("live", 0)})
    return s_leg(sp, plain, code, path, specs, res, set(instrumented))


def k_leg(sp, plain, code, path, res, c, tag):
    """Translation-validation cases for every live block + direct registry check of every probe."""
    ex = I.extract_blocks(sp, plain, code)
    dead = live = 0
    for coid, d in ex.items():
        exl = I.excluded_lines(path, d["meta"].code_object)
        if exl is None:
            res["fails"].append(["harness:no-ast", "module AST not available", None])
            return None
        with open(path) as _f:
            wrongly = sorted(set(exl) & must_cover_lines(_f.read()))
        if wrongly:
            res["fails"].append([f"{tag}exclusion:sibling-handler-excluded",
                                 f"code object {d['name']}: lines {wrongly} are bodies of except handlers WITHOUT a no-cover marker, but "
                                 f"should_cover_line rejects them because a sibling handler is marked", None])
        for b in d["blocks"]:
            if not b["live"]:
                dead += 1
                continue
            live += 1
            orig = []
            for e in b["orig"]:
                orig.append(f"C02.OI {c_ins(e[1], e[2])}" if e[0] == "O" else f"C02.OP {cnat(PSEUDO[e[0]])}")
            obs, k, ok = [], 0, True
            els = b["inst"]
            while k < len(els):
                e = els[k]
                if e[0] == "O":
                    obs.append(f"C02.II {c_ins(e[1], e[2])}")
                    k += 1
                elif e[0] == "A":
                    rec = I.RECORDS[e[1]]
                    m = len(rec["instrs"])
                    if e[2] != 0 or [x[:3] for x in els[k:k + m]] != [("A", e[1], j) for j in range(m)]:
                        ok = False
                        break
                    if rec["method"] != "track_line_visit" or not isinstance(rec["args"][0], c.InstrumentationConstantLoad):
                        ok = False
                        break
                    meta_ln = sp.existing_lines.get(rec["args"][0].value)
                    ln = meta_ln.line_number if meta_ln is not None else -1
                    nxt = els[k + m] if k + m < len(els) else None
                    if nxt is None or nxt[0] != "O" or nxt[2] != ln or (meta_ln is not None and meta_ln.file_name != path):
                        res["fails"].append([f"{tag}registry:probe-line-mismatch",
                                             f"code object {d['name']} block {b['index']}: the probe in front of the instruction of line "
                                             f"{nxt[2] if nxt else None} reports line id {rec['args'][0].value}, registered as line {ln}", None])
                    obs.append(f"C02.Probe {copt(None if ln is None else cZ(ln))}")
                    k += m
                else:
                    obs.append(f"C02.IP {cnat(PSEUDO[e[0]])}")
                    k += 1
            if not ok:
                res["fails"].append([f"{tag}structure:probe-not-contiguous", f"code object {d['name']} block {b['index']}", None])
                continue
            res["cases"].append([cpair(clist(cZ(z) for z in exl), clist(orig), clist(obs)),
                                 f"{tag}{d['name']}:{b['index']}", len(exl), any(e[0] != "O" for e in b["orig"])])
    res["stats"]["dead"] = res["stats"].get("dead", 0) + dead
    res["stats"]["live"] = res["stats"].get("live", 0) + live
    return ex


def s_leg(sp, plain, code, path, specs, res, instrumented):
    # --- S: sys.monitoring ---------------------------------------------------------------------
    registered = {}
    for lid, m in sp.existing_lines.items():
        registered[lid] = (m.file_name, m.line_number)
        if m.file_name != path or not isinstance(m.line_number, int):
            res["fails"].append(["registry:foreign-line", f"line id {lid} registered as {m.file_name}:{m.line_number}", None])
    reg_lines = {ln for (_f, ln) in registered.values() if isinstance(ln, int)}
    # lines the instrumentation deliberately leaves out: excluded by the cover configuration, or carried
    # only by RESUME / END_FOR
    import dis as _dis

    left_out = set()
    for idx, co in enumerate(I.code_tree(plain)):
        if idx not in instrumented:
            # a scope the transformer skips as a whole (excluded by the cover configuration, C08)
            left_out |= {ln for (_s, _e, ln) in co.co_lines() if ln is not None}
            continue
        left_out |= set(I.excluded_lines(path, co) or [])
        by_line = {}
        for ins in _dis.get_instructions(co):
            if ins.positions is not None and ins.positions.lineno is not None:
                by_line.setdefault(ins.positions.lineno, set()).add(ins.opname)
        left_out |= {ln for ln, ops in by_line.items() if ops <= {"RESUME", "END_FOR"}}
    with open(path) as _f:
        left_out -= must_cover_lines(_f.read())   # not exempt, whatever should_cover_line says
    seq = I.sequence_of(specs)
    truths = I.monitored_sequence(plain, path, seq, ("LINE",))
    runs = I.traced_sequence(sp, code, path, seq)
    for k, (truth, (exc, trace)) in enumerate(zip(truths, runs, strict=True)):
        kk = k if k < len(specs) else None
        if exc != truth["exc"]:
            res["fails"].append(["behaviour-differs", f"execution {k} of the sequence: plain {truth['exc']} instrumented {exc}", kk])
            continue
        reported = set(sp.lineids_to_linenos(trace.covered_line_ids))
        executed = set(truth["lines"]) & reg_lines
        unregistered = set(truth["lines"]) - reg_lines - left_out
        if unregistered:
            res["fails"].append(["lines:executed-not-registered", f"execution {k}: the interpreter executed lines {sorted(unregistered)} of the "
                                 f"module that are neither registered as coverable nor excluded (not instrumented at all)", kk])
        if reported != executed:
            extra, missing = sorted(reported - executed, key=str), sorted(executed - reported)
            kind = "reported-not-executed" if extra else "executed-not-reported"
            res["fails"].append([f"lines:{kind}", f"execution {k} of {len(seq)} on one tracer (fresh trace before each): "
                                 f"reported-but-not-executed {extra}, executed-but-not-reported {missing}", kk])
        res["stats"]["runs"] = res["stats"].get("runs", 0) + 1
        res["stats"]["lines"] = res["stats"].get("lines", 0) + len(executed)
    return res


def _isolated_work(job):
    n, src, path, specs = job
    specs, dropped = I.usable_specs(src, path, specs)
    stats = {"inconclusive:" + k: v for k, v in dropped.items()}
    r = I.isolated(_work, (n, src, path, specs), timeout=900)
    if "crash" in r:
        # the plain program runs normally on these inputs (usable_specs), so the interpreter died because of
        # the instrumented code; find the input
        hit = None
        for k, s in enumerate(specs):
            if "crash" in I.isolated(_work, (n, src, path, [s]), timeout=300):
                hit = k
                break
        if hit is None and specs:
            stats["inconclusive:crash-not-reproduced"] = 1
            return {"n": n, "cases": [], "fails": [], "stats": stats, "specs": specs}
        cause = I.crash_cause(src, path, specs[hit]) if hit is not None else ""
        return {"n": n, "cases": [], "fails": [["crash:" + r["crash"] + cause, "interpreter died when running the instrumented code"
                                                + ("; it also dies on the code that only went through bytecode's from_code/to_code round trip"
                                                   if cause else ""), hit]],
                "stats": stats, "specs": specs}
    if "inconclusive" in r:
        stats["inconclusive:" + r["inconclusive"]] = stats.get("inconclusive:" + r["inconclusive"], 0) + 1
        return {"n": n, "cases": [], "fails": [], "stats": stats, "specs": specs}
    if "harness_error" in r:
        return {"n": n, "cases": [], "fails": [["harness:" + r["harness_error"].split(":")[0], r["harness_error"] + r.get("tb", ""), None]],
                "stats": stats, "specs": specs}
    r["stats"].update(stats)
    r["specs"] = specs
    return r


# ---------------------------------------------------------------------------------------------
# package-shaped subject through the real import hook
def make_package(rng, k):
    """(init source, {submodule: source}, workload arguments): the module under test is pkg/__init__.py and
    imports its own submodules (absolute and relative) while the hook is installed."""
    n_tab = rng.choice([3, 8, 20, 35])
    tables = ['"""helper submodule, not the module under test"""', "LIMIT = 10", "NAMES = {}"]
    tables += [f"NAMES[{i}] = {i}" for i in range(n_tab)]
    tables += ["def fallback():", "    return -1", "def pick(i):", "    if i in NAMES:", "        return NAMES[i]", "    return LIMIT"]
    helpers = ['"""second helper"""', "from . import _tables", "def twice(x):", "    y = x * 2", "    if y > _tables.LIMIT:",
               "        y = _tables.LIMIT", "    return y"]
    imp = rng.choice([f"from subj{k} import _tables\nfrom . import helpers", f"from . import _tables, helpers",
                      f"import subj{k}._tables as _tables\nfrom .helpers import twice\nfrom . import helpers"])
    pad = "\n".join(f"C{i} = {i}" for i in range(rng.choice([0, 2, 5])))
    init = f'"""module under test: a package"""\n{pad}\n{imp}\nSTART = _tables.pick(1)\n' + (
        "def area(w, h):\n    if w < 0 or h < 0:\n        return _tables.fallback()\n    r = w * h\n"
        "    if r > _tables.LIMIT:\n        r = helpers.twice(_tables.LIMIT)\n    return r\n"
        "def total(w, h):\n    t = 0\n    for side in (w, h):\n        t += 2 * side\n    return t\n")
    return init, {"_tables": "\n".join(tables) + "\n", "helpers": "\n".join(helpers) + "\n"}, rng.choice([(3, 4), (-1, 2), (50, 50)])


def _package_work(job):
    """Import + workload of the package, uninstrumented under sys.monitoring, then through install_import_hook."""
    import importlib
    import sys as _sys

    root, k, init, subs, args = job
    I.setup()
    import pynguin.configuration as config
    from pynguin.instrumentation.machinery import install_import_hook
    from pynguin.instrumentation.tracer import SubjectProperties

    name = f"subj{k}"
    pkg = os.path.join(root, name)
    os.makedirs(pkg, exist_ok=True)
    mut = os.path.join(pkg, "__init__.py")
    with open(mut, "w") as f:
        f.write(init)
    for sub, src in subs.items():
        with open(os.path.join(pkg, sub + ".py"), "w") as f:
            f.write(src)
    _sys.dont_write_bytecode = True
    _sys.path.insert(0, root)

    def purge():
        for n in [n for n in _sys.modules if n == name or n.startswith(name + ".")]:
            del _sys.modules[n]
        importlib.invalidate_caches()

    def workload(m):
        return [m.area(*args), m.total(*args)]

    fails = []
    mon = _sys.monitoring
    executed = set()

    def on_line(c, line):
        if c.co_filename == mut:
            executed.add(line)
            return None
        return mon.DISABLE

    purge()
    mon.use_tool_id(I.TOOL, "c02pkg")
    mon.register_callback(I.TOOL, mon.events.LINE, on_line)
    mon.set_events(I.TOOL, mon.events.LINE)
    try:
        expected = workload(importlib.import_module(name))
    finally:
        mon.set_events(I.TOOL, 0)
        mon.register_callback(I.TOOL, mon.events.LINE, None)
        mon.free_tool_id(I.TOOL)
    purge()
    sp = SubjectProperties()
    tr = sp.instrumentation_tracer
    with install_import_hook(name, sp, coverage_metrics={config.CoverageMetric.LINE},
                             to_cover_config=config.ToCoverConfiguration()):
        with tr:
            module = importlib.import_module(name)
        tr.init_trace()      # like the executor: fresh trace with the import trace merged in
        with tr:
            result = workload(module)
    trace = tr.get_trace()
    purge()
    _sys.path.remove(root)
    if result != expected:
        fails.append(["package:behaviour-differs", f"workload returned {result}, uninstrumented {expected}"])
    foreign = sorted({(os.path.basename(m.file_name), m.line_number) for m in sp.existing_lines.values() if m.file_name != mut})
    if foreign:
        fails.append(["package:foreign-lines-registered", f"lines of other files are registered as coverable lines of the module under test "
                      f"{name}/__init__.py: {foreign[:6]}{' ...' if len(foreign) > 6 else ''}"])
    unknown = sorted(i for i in trace.covered_line_ids if i not in sp.existing_lines)
    if unknown:
        fails.append(["package:covered-id-not-registered", f"covered line ids {unknown[:6]} are not in the registry (it was reset during the import)"])
    else:
        reg = {m.line_number for m in sp.existing_lines.values() if m.file_name == mut}
        reported = set(sp.lineids_to_linenos(trace.covered_line_ids))
        own = {ln for co in I.code_tree(compile(init, mut, "exec")) for (_s, _e, ln) in co.co_lines() if ln}
        if reported - own:
            fails.append(["package:reported-line-not-in-module", f"reported lines {sorted(reported - own)} carry no code of {name}/__init__.py"])
        if reported != executed & reg:
            fails.append(["package:lines-differ", f"reported {sorted(reported)}; executed (sys.monitoring, registered) {sorted(executed & reg)}"])
        missing = executed - reg - {ln for ln in executed if ln == 1}
        resume_only = set()
        import dis as _dis
        for co in I.code_tree(compile(init, mut, "exec")):
            by = {}
            for ins in _dis.get_instructions(co):
                if ins.positions is not None and ins.positions.lineno is not None:
                    by.setdefault(ins.positions.lineno, set()).add(ins.opname)
            resume_only |= {ln for ln, ops in by.items() if ops <= {"RESUME", "END_FOR"}}
        if executed - reg - resume_only:
            fails.append(["package:executed-not-registered", f"executed lines {sorted(executed - reg - resume_only)} of the module under test are not registered"])
    return {"fails": fails, "program": {"init": init, "subs": subs, "args": list(args), "k": k}, "lines": len(executed)}


def package_leg(ctx, scratch):
    n = 3 if ctx.quick else 12
    for k in range(n):
        init, subs, args = make_package(ctx.rng, k)
        r = I.isolated(_package_work, (str(scratch / f"pk{k}"), k, init, subs, args), timeout=600)
        if "fails" not in r:
            ctx.count("S:package-inconclusive:" + str(r.get("inconclusive") or r.get("crash") or r.get("harness_error", "?"))[:40])
            if "harness_error" in r:
                ctx.fail("harness:package", r["harness_error"] + r.get("tb", ""), {"init": init})
            continue
        ctx.count("S:package-runs")
        for sig, msg in r["fails"]:
            ctx.fail(sig, msg, {"package": r["program"]})


def run(ctx: vlib.Ctx):
    I.setup()
    ctx.digest_sources(SRC)
    ctx.coq_static()
    if not ctx.quick:
        ctx.coqchk()
    scratch = ctx.mkscratch()
    corpus = json.loads((vlib.VERIF / "corpus" / "C02.json").read_text())
    n_prog = 40 if ctx.quick else 300
    n_inp = 3 if ctx.quick else 5
    progs = [(c["src"], c.get("specs") or []) for c in corpus]
    for s in G.SEED_PROGRAMS:
        progs.append((s, []))
    while len(progs) < n_prog:
        src, used = G.gen_module(ctx.rng)
        c = ctx.rng.random()
        if c < 0.3:
            src = add_pragmas(src, ctx.rng)
            ctx.count("with-pragma")
        elif c < 0.6 and (marked := handler_pragma(src, ctx.rng)) is not None:
            src = marked
            ctx.count("with-handler-pragma")
        progs.append((src, []))
        for u in used:
            ctx.count("stmt:" + u)
    progs = [(src, list(specs) + [G.gen_input(ctx.rng) for _ in range(n_inp)]) for src, specs in progs]
    ctx.cov["rule"] = ("generated modules (harness/props/_c01_gen.py), 30% with '# pragma: no cover' lines; one case per live "
                       "basic block of every code object; distinct = distinct (exclusions, block) terms; non-trivial = block "
                       "has a pseudo-instruction or an excluded line or more than one line")
    jobs = [(n, src, str(scratch / f"lm_{n}.py"), specs) for n, (src, specs) in enumerate(progs)]
    with cf.ProcessPoolExecutor(max_workers=min(12, os.cpu_count() or 4)) as exr:
        results = list(exr.map(_isolated_work, jobs, chunksize=2))
    cases, where = [], []
    n_or = 0
    seen = set()
    for r in results:
        for c, name, nex, pseudo in r["cases"]:
            cases.append(c)
            where.append((r["n"], name))
            ctx.case_seen(c, nontrivial=pseudo or nex > 0 or c.count("C02.Probe") > 1)
            if pseudo:
                ctx.count("block-with-pseudo-instruction")
            if nex:
                ctx.count("block-with-excluded-line")
        for k, v in r["stats"].items():
            ctx.count("S:" + k, v)
        for sig, msg, k in r["fails"]:
            n_or += 1
            if sig in seen:
                continue
            seen.add(sig)
            src, specs = progs[r["n"]][0], r.get("specs", progs[r["n"]][1])
            ctx.fail(sig, msg, {"program": src, "input": specs[k] if k is not None and k < len(specs) else None, "inputs": specs})
    ctx.sample({"program": progs[-1][0][len(G.PRELUDE):][:500], "case": cases[-1][:400] if cases else None})
    package_leg(ctx, scratch)
    ctx.leg("S", failures=n_or, programs=len(progs))
    bad = ctx.run_cases("C02_blocks", "From Verif Require Import Models.C02.", "C02.case", "C02.check_case", cases, shard=300)
    if bad:
        ctx.leg("K1b", ok=False, mismatches=len(bad))
        n, name = where[bad[0]]
        if n_or == 0:
            ctx.broken("correspondence:line-probe-placement",
                       "a really instrumented block differs from instrument_block applied to the original block "
                       "(probe missing, extra, misplaced or for another line)",
                       {"program": progs[n][0], "block": name, "case": cases[bad[0]][:1500], "mismatching_blocks": len(bad)})
    elif bad is not None:
        ctx.leg("K1b", ok=True, blocks=len(cases))
    ctx.assumptions += ["CPython executes the instructions of a basic block in order; the line table survives re-assembly",
                        "the probe call track_line_visit neither raises nor is skipped (C04/C05)",
                        "sys.monitoring LINE events are the ground truth for 'the interpreter executed the line'"]
    ctx.cov["trusted_base"] += ["harness/props/_c01_impl.py (block extraction, recorder), harness/props/C02.py (abstraction of blocks)"]


def replay(ctx, path):
    I.setup()
    d = json.loads(open(path).read())["replay"]
    if "package" in d:
        pk = d["package"]
        r = I.isolated(_package_work, (str(ctx.mkscratch() / "pk_replay"), pk.get("k", 0), pk["init"], pk["subs"], tuple(pk["args"])))
        print(pk["init"])
        print("failures:", r.get("fails", r))
        return 0
    scratch = ctx.mkscratch()
    r = _isolated_work((0, d["program"], str(scratch / "replay.py"), d.get("inputs") or ([d["input"]] if d.get("input") else [])))
    print(d["program"])
    print("input:", d.get("input"))
    print("failures:", r["fails"] or "none")
    return 0
