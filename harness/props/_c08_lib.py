"""C08 helper: drive the real instrumentation, abstract `ast` trees for the Coq model, and an
independent oracle for "excluded code"."""
from __future__ import annotations

import ast
import re
import sys
from pathlib import Path

SCOPES = (ast.FunctionDef, ast.AsyncFunctionDef, ast.ClassDef, ast.Lambda, ast.ListComp, ast.SetComp,
          ast.DictComp, ast.GeneratorExp)
DEFS = (ast.FunctionDef, ast.AsyncFunctionDef, ast.ClassDef)
MARK_PYNGUIN = re.compile(r"# +pynguin: +no +cover")
MARK_PRAGMA = re.compile(r"# +pragma: +no +cover")


# ---------------------------------------------------------------------------------------------
# real implementation
_SENTINEL = object()
def _code_key(path):
    return "/".join(f"{n}@{l}" for n, l in path)


def run_impl(case, path: Path, baseline=False, via_hook=False, module_name=None):
    """Instrument `case` with the real transformer.  Returns dict or {"error": kind}.

    baseline=True: exclusion logic switched off (ModuleAstInfo.from_path -> None), giving the
    executable lines / predicates / code objects of the module."""
    import pynguin.configuration as config
    from pynguin.instrumentation import transformer as tr
    from pynguin.instrumentation.tracer import SubjectProperties
    from pynguin.instrumentation.version import BranchCoverageInstrumentation, LineCoverageInstrumentation

    path.write_text(case["src"])
    sp = SubjectProperties()
    tc = config.ToCoverConfiguration(only_cover=list(case["only"]), no_cover=list(case["no"]),
                                     enable_inline_pynguin_no_cover=case["pynguin"],
                                     enable_inline_pragma_no_cover=case["pragma"])
    records = []  # (code, parent_id, code_object_id or None)
    orig_rec = tr.InstrumentationTransformer._instrument_code_recursive
    orig_from_path = tr.ModuleAstInfo.from_path
    stack = []

    def rec(self, code, module_ast_info, parent_code_object_id=None):
        ent = {"name": code.co_name, "first": code.co_firstlineno, "parent": stack[-1] if stack else None,
               "children": [], "registered": False}
        idx = len(records)
        records.append(ent)
        before = set(sp.existing_code_objects)
        stack.append(idx)
        try:
            res = orig_rec(self, code, module_ast_info, parent_code_object_id)
        finally:
            stack.pop()
        if res is not code:
            new = [i for i in sp.existing_code_objects if i not in before]
            # the id registered for this very code object is the one whose meta holds `res`
            for i in new:
                if sp.existing_code_objects[i].code_object is res:
                    ent["registered"] = True
                    ent["id"] = i
        return res

    tr.InstrumentationTransformer._instrument_code_recursive = rec
    if baseline:
        tr.ModuleAstInfo.from_path = classmethod(lambda cls, p, to_cover_config: None)
    try:
        if via_hook:
            import importlib

            from pynguin.instrumentation.machinery import install_import_hook

            old = config.configuration.ignore_methods
            config.configuration.ignore_methods = list(case.get("ignore_methods", []))
            sys.path.insert(0, str(path.parent))
            sys.modules.pop(module_name, None)
            try:
                with install_import_hook(module_name, sp, {config.CoverageMetric.BRANCH, config.CoverageMetric.LINE}, tc):
                    with sp.instrumentation_tracer:
                        importlib.import_module(module_name)
            finally:
                sys.path.remove(str(path.parent))
                sys.modules.pop(module_name, None)
                config.configuration.ignore_methods = old
        else:
            t = tr.InstrumentationTransformer(sp, [BranchCoverageInstrumentation(sp), LineCoverageInstrumentation(sp)], tc)
            t.instrument_code(compile(case["src"], str(path), "exec"))
    except ValueError as e:
        if "Conflicting cover lines" in str(e):
            return {"error": "conflict", "no_cover": list(tc.no_cover)}
        raise
    except RuntimeError as e:
        if "Failed to compute stacksize" in str(e):
            return {"error": "stacksize"}  # instrumentation placement defect (C01), not C08
        raise
    finally:
        tr.InstrumentationTransformer._instrument_code_recursive = orig_rec
        tr.ModuleAstInfo.from_path = orig_from_path
    # keys: path of (name, firstlineno, sibling ordinal)
    def key(i):
        parts = []
        while i is not None:
            e = records[i]
            sib = [j for j, x in enumerate(records) if x["parent"] == e["parent"] and j <= i
                   and x["name"] == e["name"] and x["first"] == e["first"]]
            parts.append(f"{e['name']}@{e['first']}#{len(sib) - 1}")
            i = e["parent"]
        return "/".join(reversed(parts))

    id2key = {}
    cos = {}
    for i, e in enumerate(records):
        k = key(i)
        cos[k] = {"first": e["first"], "name": e["name"], "registered": e["registered"],
                  "parent": key(e["parent"]) if e["parent"] is not None else None}
        if e["registered"]:
            id2key[e["id"]] = k
    blocks = {}
    line_adapter = LineCoverageInstrumentation(sp)
    for cid, meta in sp.existing_code_objects.items():
        k = id2key[cid]
        bl = []
        for node in meta.cfg.basic_block_nodes:
            lines = [ins.lineno if isinstance(ins.lineno, int) else None for ins in node.original_instructions]
            # instructions the line adapter considers at all (its own rule: not RESUME / END_FOR ...)
            ilines = [ins.lineno if isinstance(ins.lineno, int) else None for ins in node.original_instructions
                      if line_adapter.should_instrument_line(ins, _SENTINEL)]
            last = node.try_get_instruction(-1)
            bl.append({"index": node.index, "lines": lines, "ilines": ilines,
                       "last": last.lineno if last is not None and isinstance(last.lineno, int) else None,
                       "has_last": last is not None})
        blocks[k] = bl
    preds = sorted((id2key[m.code_object_id], m.node.index, m.line_no if isinstance(m.line_no, int) else -1)
                   for m in sp.existing_predicates.values())
    # instructions without a position register a line goal `None` (outside C08: no line to exclude)
    lines = sorted({m.line_number for m in sp.existing_lines.values() if isinstance(m.line_number, int)})
    line_owner = {}
    for m in sp.existing_lines.values():
        line_owner.setdefault(m.line_number, id2key[m.code_object_id])
    return {"cos": cos, "blocks": blocks, "preds": [list(p) for p in preds], "lines": lines,
            "no_cover": list(tc.no_cover)}


def ast_answers(case, path: Path):
    """Answers of the real AstInfo predicates for every scope and every line."""
    import pynguin.configuration as config
    from pynguin.instrumentation import transformer as tr

    path.write_text(case["src"])
    tc = config.ToCoverConfiguration(only_cover=list(case["only"]), no_cover=list(case["no"]),
                                     enable_inline_pynguin_no_cover=case["pynguin"],
                                     enable_inline_pragma_no_cover=case["pragma"])
    try:
        mi = tr.ModuleAstInfo.from_path(str(path), tc)
    except ValueError:
        return {"error": "conflict"}
    nlines = case["src"].count("\n") + 2
    firsts = sorted({0} | {co_first_line(n) for n in ast.walk(mi.module_ast) if isinstance(n, SCOPES)} | {1, nlines})
    res = {"no_cover": sorted(mi.no_cover_lines), "only_cover": sorted(mi.only_cover_lines), "scopes": []}
    for f in firsts:
        info = mi.get_scope(f)
        if info is None:
            res["scopes"].append({"first": f, "found": False})
            continue
        res["scopes"].append({
            "first": f, "found": True, "start": tr.scope_line_range(info.ast)[0],
            "covered": info.should_be_covered(),
            "line": [info.should_cover_line(l) for l in range(nlines + 1)],
            "cond": [info.should_cover_conditional_statement(l) for l in range(nlines + 1)],
        })
    return res


def co_first_line(node):
    """co_firstlineno of the code object compiled from a scope node (first decorator line)."""
    decs = getattr(node, "decorator_list", [])
    return min([node.lineno] + [d.lineno for d in decs])


# ---------------------------------------------------------------------------------------------
# abstraction of the ast into the Coq model's tree (Models/C08.v)
def rng_of(body):
    if not body:
        return None
    return (body[0].lineno, body[-1].end_lineno or body[-1].lineno)


def is_main(node):
    t = node.test
    return (isinstance(t, ast.Compare) and isinstance(t.left, ast.Name) and t.left.id == "__name__"
            and len(t.ops) == 1 and isinstance(t.ops[0], ast.Eq) and len(t.comparators) == 1
            and isinstance(t.comparators[0], ast.Constant) and t.comparators[0].value == "__main__")


def is_type_checking(node):
    t = node.test
    return (isinstance(t, ast.Name) and t.id == "TYPE_CHECKING") or (
        isinstance(t, ast.Attribute) and t.attr == "TYPE_CHECKING" and isinstance(t.value, ast.Name)
        and t.value.id in ("typing", "types"))


def scope_name(node):
    if isinstance(node, ast.Lambda):
        return "<lambda>"
    if isinstance(node, (ast.ListComp, ast.SetComp, ast.DictComp, ast.GeneratorExp)):
        return f"<generator-{node.lineno}>"
    return getattr(node, "name", "")


class Abstraction:
    """ast -> C08.node terms.  A node is (kind, s, e, kids); kinds are Coq constructor texts.
    Children are kept in ast.iter_child_nodes order; the statement lists of compound statements
    are wrapped in synthetic KArm nodes."""

    def __init__(self):
        self.codes: dict[str, int] = {}

    def code(self, name):
        return self.codes.setdefault(name, len(self.codes) + 1)

    def qual(self, dotted):
        return [self.code(p) for p in dotted.split(".")]

    def arm(self, a, stmts):
        return (f"C08.KArm C08.{a}", 0, -1, [self.node(x) for x in stmts])

    def kids(self, n, skip=()):
        return [self.node(ch) for ch in ast.iter_child_nodes(n) if not any(ch is x for x in skip)]

    def node(self, n):
        from vlib import cbool, cZ
        s = getattr(n, "lineno", None)
        if isinstance(n, ast.Module):
            end = (n.body[-1].end_lineno or 0) if n.body else 0
            return (f"C08.KScope true false {cZ(0)} {cZ(0)}", 0, end, self.kids(n))
        if isinstance(n, ast.match_case):
            s, e = n.pattern.lineno, (n.body[-1].end_lineno or n.pattern.lineno)
            return ("C08.KCase", s, e, self.kids(n, n.body) + [self.arm("ABody", n.body)])
        if s is None:
            return ("C08.KOther", 0, -1, self.kids(n))
        e = getattr(n, "end_lineno", None) or s
        if isinstance(n, SCOPES):
            k = f"C08.KScope false {cbool(isinstance(n, DEFS))} {cZ(co_first_line(n))} {cZ(self.code(scope_name(n)))}"
            return (k, s, e, self.kids(n))
        if isinstance(n, ast.If):
            el = len(n.orelse) == 1 and isinstance(n.orelse[0], ast.If) and n.orelse[0].col_offset == n.col_offset
            sp = is_main(n) or is_type_checking(n)
            return (f"C08.KIf {cbool(el)} {cbool(sp)}", s, e,
                    [self.node(n.test), self.arm("ABody", n.body), self.arm("AOrelse", n.orelse)])
        if isinstance(n, (ast.For, ast.While)):
            hdr = self.kids(n, list(n.body) + list(n.orelse))
            return ("C08.KLoop", s, e, hdr + [self.arm("ABody", n.body), self.arm("AOrelse", n.orelse)])
        if isinstance(n, (ast.Try, ast.TryStar)):
            return ("C08.KTry", s, e, [self.arm("ABody", n.body)] + [self.node(h) for h in n.handlers]
                    + [self.arm("AOrelse", n.orelse), self.arm("AFinal", n.finalbody)])
        if isinstance(n, ast.ExceptHandler):
            return ("C08.KHandler", s, e, self.kids(n, n.body) + [self.arm("ABody", n.body)])
        if isinstance(n, ast.Match):
            return ("C08.KMatch", s, e, [self.node(n.subject)] + [self.node(c) for c in n.cases])
        return ("C08.KOther", s, e, self.kids(n))


def simplify(t):
    """Drop position-less/plain subtrees that hold no scope and no compound statement: they cannot
    influence any model function (keeps the Coq terms small)."""
    k, s, e, ks = t
    ks = [simplify(c) for c in ks]
    if not k.startswith("C08.KArm"):  # the first/last statement of an arm give the arm's line range
        ks = [c for c in ks if not (c[0] == "C08.KOther" and not c[3])]
    return (k, s, e, ks)


def c_node(t):
    from vlib import cZ, clist
    k, s, e, ks = t
    return f"C08.Node ({k}) {cZ(s)} {cZ(e)} {clist(c_node(c) for c in ks)}"


# ---------------------------------------------------------------------------------------------
# independent oracle: which lines are excluded code / must be goals
def oracle(case):
    """Returns dict(exc=set of lines that must not carry any goal,
                    must=set of lines that must be line goals when executable,
                    exc_scopes=set of co_first_line of def/class/lambda... scopes that must not be
                    code-object goals, must_scopes=...).

    Semantics (property text + docs/user/coverage.rst + docstrings of AstInfo):
      * a marked line is excluded;
      * a marker on the header line of if/for/while/try excludes that arm's body; a marker on the
        line of `else:` / `finally:` (between the arms) excludes the else/finally arm; a marker on an
        `except` line excludes the handler body; on `match` the whole statement, on a `case` line the
        case body;
      * a marker on the `def`/`class` line, or the qualified name in no_cover, excludes the whole
        definition including everything nested in it;
      * `if __name__ == "__main__"` and TYPE_CHECKING blocks are excluded entirely;
      * everything nested in excluded code is excluded;
      * with only_cover: a def/class that is not a target, not inside a target and does not contain a
        target is excluded; lines inside a target (nested scopes too) must be goals unless excluded
        by the rules above; enclosing scopes' own lines are unconstrained.
    Decorator lines of an excluded definition are unconstrained (they run in the enclosing scope)."""
    src = case["src"]
    tree = ast.parse(src)
    marked = set()
    for i, ln in enumerate(src.splitlines(), 1):
        if (case["pynguin"] and MARK_PYNGUIN.search(ln)) or (case["pragma"] and MARK_PRAGMA.search(ln)):
            marked.add(i)
    from props._c08_gen import scope_names
    names = scope_names(tree)
    no_nodes = [names[n] for n in case["no"] if n in names]
    only_nodes = [names[n] for n in case["only"] if n in names]
    only_active = bool(only_nodes)
    exc, must, free = set(), set(), set()
    exc_scopes, must_scopes = set(), set()

    def contains_target(n):
        return any(t is m for m in ast.walk(n) for t in only_nodes)

    def span(nodes):
        return range(nodes[0].lineno, (nodes[-1].end_lineno or nodes[-1].lineno) + 1)

    def between_marked(prev, nxt):
        if not prev or not nxt:
            return False
        return any(k in marked for k in range((prev[-1].end_lineno or 0) + 1, nxt[0].lineno))

    def visit_list(nodes, ex, inside_only):
        for n in nodes:
            visit(n, ex, inside_only)

    def mark_lines(n, ex, inside_only):
        """classify the node's own lines"""
        s, e = n.lineno, n.end_lineno or n.lineno
        for l in range(s, e + 1):
            if ex or l in marked:
                exc.add(l)
            elif not only_active or inside_only:
                must.add(l)
            else:
                free.add(l)

    def visit(n, ex, inside_only):
        if isinstance(n, DEFS):
            hdr_ex = ex or n.lineno in marked or any(n is x for x in no_nodes)
            is_t = any(n is t for t in only_nodes)
            io = inside_only or is_t
            sibling = only_active and not io and not contains_target(n)
            body_ex = hdr_ex or sibling
            (exc_scopes if body_ex else must_scopes if (not only_active or io) else set()).add(co_first_line(n))
            # header line(s) of the definition
            hdr_end = n.body[0].lineno - 1 if n.body[0].lineno > n.lineno else n.lineno
            for l in range(n.lineno, max(hdr_end, n.lineno) + 1):
                if hdr_ex or l in marked:
                    exc.add(l)
                else:
                    # the def line runs in the enclosing scope as well; for a definition that is
                    # merely not selected by only_cover it stays a line of that enclosing scope
                    free.add(l)
            for d in n.decorator_list:
                visit(d, ex, inside_only)
            for ch in ast.iter_child_nodes(n):
                if any(ch is d for d in n.decorator_list) or any(ch is b for b in n.body):
                    continue
                visit(ch, hdr_ex, io)  # arguments, bases, returns
            if n.body[0].lineno == n.lineno and not hdr_ex:
                # one-line definition: the only line is shared with the enclosing scope; when the
                # definition itself has to be covered, its line has to be a line goal
                if not sibling and (not only_active or io) and n.lineno not in marked:
                    must.add(n.lineno)
                for b in n.body:
                    for ch in ast.walk(b):
                        if isinstance(ch, (ast.Lambda, ast.ListComp, ast.SetComp, ast.DictComp, ast.GeneratorExp)):
                            visit(ch, body_ex, io)
                return
            visit_list(n.body, body_ex, io)
            return
        if isinstance(n, (ast.Lambda, ast.ListComp, ast.SetComp, ast.DictComp, ast.GeneratorExp)):
            (exc_scopes if (ex or n.lineno in marked) else must_scopes if (not only_active or inside_only) else set()).add(n.lineno)
            for ch in ast.iter_child_nodes(n):
                visit(ch, ex, inside_only)
            return
        if isinstance(n, ast.If):
            if is_main(n) or is_type_checking(n):
                for l in range(n.lineno, (n.end_lineno or n.lineno) + 1):
                    exc.add(l)
                for ch in ast.iter_child_nodes(n):
                    visit(ch, True, inside_only)
                return
            hdr(n, n.test, ex, inside_only)
            visit_list(n.body, ex or n.lineno in marked, inside_only)
            if n.orelse:
                is_elif = (len(n.orelse) == 1 and isinstance(n.orelse[0], ast.If)
                           and n.orelse[0].col_offset == n.col_offset)
                visit_list(n.orelse, ex or (not is_elif and between_marked(n.body, n.orelse)), inside_only)
            return
        if isinstance(n, (ast.For, ast.While)):
            hdr(n, None, ex, inside_only)
            for ch in ast.iter_child_nodes(n):
                if not any(ch is b for b in list(n.body) + list(n.orelse)):
                    visit(ch, ex, inside_only)
            visit_list(n.body, ex or n.lineno in marked, inside_only)
            visit_list(n.orelse, ex or between_marked(n.body, n.orelse), inside_only)
            return
        if isinstance(n, (ast.Try, ast.TryStar)):
            hdr(n, None, ex, inside_only)
            visit_list(n.body, ex or n.lineno in marked, inside_only)
            for h in n.handlers:
                hdr(h, None, ex, inside_only)
                if h.type is not None:
                    visit(h.type, ex, inside_only)
                visit_list(h.body, ex or h.lineno in marked, inside_only)
            prev = n.handlers[-1].body if n.handlers else n.body
            visit_list(n.orelse, ex or between_marked(prev, n.orelse), inside_only)
            prev2 = n.orelse or prev
            visit_list(n.finalbody, ex or between_marked(prev2, n.finalbody), inside_only)
            return
        if isinstance(n, ast.Match):
            mex = ex or n.lineno in marked
            hdr(n, None, ex, inside_only)
            visit(n.subject, mex, inside_only)
            for c in n.cases:
                cex = mex or c.pattern.lineno in marked
                for ch in ast.iter_child_nodes(c):
                    if not any(ch is b for b in c.body):
                        visit(ch, cex, inside_only)
                l = c.pattern.lineno
                (exc if cex else free).add(l)
                visit_list(c.body, cex, inside_only)
            return
        if isinstance(n, ast.stmt):
            if isinstance(n, (ast.With, ast.AsyncWith)):
                hdr(n, None, ex, inside_only)
                for it in n.items:
                    visit(it, ex, inside_only)
                visit_list(n.body, ex, inside_only)
                return
            mark_lines(n, ex, inside_only)
        for ch in ast.iter_child_nodes(n):
            visit(ch, ex, inside_only)

    def hdr(n, test, ex, inside_only):
        l = n.lineno
        if ex or l in marked:
            exc.add(l)
        elif not only_active or inside_only:
            must.add(l)
        else:
            free.add(l)
        if test is not None:
            visit(test, ex, inside_only)

    visit_list(tree.body, False, False)
    # a line that is excluded for one construct and required for another (one-liners) is excluded
    must -= exc
    return {"exc": exc, "must": must, "marked": marked, "exc_scopes": exc_scopes - must_scopes,
            "must_scopes": must_scopes - exc_scopes}
