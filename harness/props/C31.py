"""C31 — in-process and subprocess execution agree (PARTIAL, thin model).

T    static proofs over Models/C31.v (orchestration of execute_multiple / fallback, transport filter,
     _fix_assertion_trace).
K2a  orchestration: real SubprocessTestCaseExecutor.execute_multiple on batches in which some test cases
     kill (os._exit) or hang their subprocess; timeout flags and result identity per position are replayed
     by the Coq model.
K2b  real _fix_result_for_pickle on results holding picklable and unpicklable exceptions, and real
     _fix_assertion_trace on synthetic traces and bindings, replayed by the Coq model.
S=K  the property itself is a differential and is checked as such (harness/props/_c31_diff.py, own
     process): TestFactory-made test cases for small deterministic modules, executed by a TestCaseExecutor
     and a SubprocessTestCaseExecutor with RemoteAssertionTraceObserver / RemoteAssertionVerification-
     Observer attached; timeout flag, exception types per position, covered line ids, code objects,
     executed predicates, zero true/false distance sets, assertion traces and verification traces
     (with one deliberately falsified assertion) must be equal.
Timeouts are generous (60 s) so that machine load cannot turn into a reported difference; a difference is
only reported if it persists when the driver is re-run.
"""
from __future__ import annotations

import concurrent.futures as cf
import json
import os
import signal
import subprocess
import sys
from pathlib import Path

import vlib
from vlib import cZ, cbool, clist, copt, cpair

SRC = ["src/pynguin/testcase/subprocess_executor.py", "src/pynguin/testcase/execution.py"]
FIELDS = ["timeout", "exceptions", "lines", "code_objects", "predicates", "true_zero", "false_zero",
          "assertions", "verification"]
MODULES = ["numeric", "strings", "stateful", "containers"]


def run_driver(sc, base: Path, tag: str, watchdog: int):
    d = base / tag
    sc = dict(sc, dir=str(d))
    p = subprocess.Popen([sys.executable, str(Path(__file__).with_name("_c31_diff.py")), json.dumps(sc)],
                         stdout=subprocess.PIPE, stderr=subprocess.PIPE, text=True, env=vlib.impl_env(),
                         start_new_session=True)
    try:
        out, err = p.communicate(timeout=watchdog)
    except subprocess.TimeoutExpired:
        try:
            os.killpg(p.pid, signal.SIGKILL)
        except ProcessLookupError:
            pass
        p.communicate()
        return None, f"no return within {watchdog} s"
    finally:
        try:
            os.killpg(p.pid, signal.SIGKILL)
        except (ProcessLookupError, PermissionError):
            pass
    for ln in out.splitlines():
        if ln.startswith("RESULT "):
            return json.loads(ln[7:]), ""
    return None, "driver-crash: " + (err or out)[-2000:]


def diffs_of(log):
    """List of (signature, message, detail) for one differential driver run."""
    res = []
    mod = log["module"]
    for k, c in enumerate(log["cases"]):
        for ps in ("pass1", "pass2"):
            if ps not in c:
                continue
            a, b = c[ps]["inproc"], c[ps]["subproc"]
            for f in FIELDS:
                if a[f] != b[f]:
                    res.append((f"diff:{f}:{mod}", f"{ps} of test {k} of module {mod}: in-process {f} = {str(a[f])[:300]}, "
                                f"subprocess {f} = {str(b[f])[:300]}", {"test": c["code"], "pass": ps, "field": f,
                                                                       "inproc": a[f], "subproc": b[f]}))
                    break
    lim = log.get("limits")
    if lim:
        wrong = [c for c in lim["child"] if c != lim["parent"]]
        if wrong:
            res.append((f"limits:child-differs:{mod}", f"executor built with (maximum, per statement) = {lim['parent']}; the "
                        f"executor in the child process has {wrong[0]}: test cases get a different budget in the subprocess",
                        {"parent": lim["parent"], "child": lim["child"]}))
        if not lim["child"]:
            res.append((f"limits:no-child-executor:{mod}", "no TestCaseExecutor was built in a child process", {}))
        exp = [min(lim["parent"][0], lim["parent"][1] * n) for n in lim["sizes"]]
        if lim["budgets"] != exp:
            res.append((f"limits:parent-budget:{mod}", f"_calculate_timeout gives {lim['budgets']} for sizes {lim['sizes']}, "
                        f"min(maximum, per*size) is {exp}", {"limits": lim}))
    for ib in log.get("iter_batches", []):
        if len(ib["subproc"]) != ib["k"]:
            res.append((f"iterator-batch:shape:{mod}", f"execute_multiple(generator of {ib['k']} test cases) returned "
                        f"{len(ib['subproc'])} results", {"k": ib["k"]}))
            continue
        for i, (x, y) in enumerate(zip(ib["subproc"], ib["inproc"])):
            for f in FIELDS:
                if x[f] != y[f]:
                    res.append((f"iterator-batch:{f}:{mod}", f"execute_multiple(generator of {ib['k']} test cases): result {i} "
                                f"differs in {f} from the in-process result: {str(y[f])[:200]} vs {str(x[f])[:200]}",
                                {"k": ib["k"], "index": i, "field": f}))
                    break
    rep = log.get("repeat")
    if rep:
        for k, (x, y) in enumerate(zip(rep["subproc"], rep["inproc"])):
            for f in FIELDS:
                if x[f] != y[f]:
                    res.append((f"mutant:lost-after-call:{f}", f"mutated module version registered once, call {k + 1} on the same "
                                f"executor: in-process {f} = {str(y[f])[:200]}, subprocess {f} = {str(x[f])[:200]}",
                                {"call": k + 1, "field": f, "inproc": y[f], "subproc": x[f]}))
                    break
            else:
                continue
            break
    ba = log.get("batch_all")
    if ba:
        if len(ba["subproc"]) != len(ba["inproc"]):
            res.append((f"batch:shape:{mod}", "execute_multiple returned a different number of results", {}))
        for i, (x, y) in enumerate(zip(ba["subproc"], ba["inproc"])):
            for f in FIELDS:
                if x[f] != y[f]:
                    res.append((f"batch:{f}:{mod}", f"execute_multiple result {i} of module {mod} differs in {f} from the "
                                f"in-process result: {str(y[f])[:200]} vs {str(x[f])[:200]}", {"index": i, "field": f}))
                    break
    return res


def gen_patterns(rng, n):
    pats = [["fine", "die", "fine2"], ["die"], ["fine", "fine2"], ["die", "fine"]]
    for _ in range(n):
        k = rng.choice([1, 2, 3, 4])
        pats.append([rng.choice(["fine", "fine2", "fine", "die"]) for _ in range(k)])
    return pats


def batch_to_case(b):
    """Abstract one orchestration batch for the Coq model: every fine test has one item (the code of its
    in-process canonical result), picklable."""
    codes: dict = {}

    def code(x):
        key = json.dumps(x, sort_keys=True)
        return codes.setdefault(key, len(codes) + 1)

    tests, singles, observed = [], [], []
    for kind, sub, ref in zip(b["pattern"], b["subproc"], b["inproc"]):
        fine = kind.startswith("fine")
        tests.append([(code(ref), True)] if fine else [(0, True)])
        singles.append(fine)
        if sub["timeout"]:
            observed.append(None)
        else:
            observed.append([code(sub)])
    batch_ok = all(k.startswith("fine") for k in b["pattern"])
    return tests, batch_ok, singles, observed


def c_lcase(lim):
    pr = lambda x: cpair(cZ(x[0]), cZ(x[1]))  # noqa: E731
    return "{| C31.l_parent := %s; C31.l_child := %s; C31.l_sizes := %s; C31.l_budgets := %s |}" % (
        pr(lim["parent"]), clist(pr(c) for c in lim["child"]), clist(cZ(n) for n in lim["sizes"]),
        clist(cZ(b) for b in lim["budgets"]))


def c_batch(tests, batch_ok, singles, observed):
    return ("{| C31.c_tests := %s; C31.c_batch_ok := %s; C31.c_singles := %s; C31.c_observed := %s |}" % (
        clist(clist(cpair(cZ(c), cbool(p)) for c, p in t) for t in tests), cbool(batch_ok),
        clist(cbool(x) for x in singles),
        clist(copt(None if o is None else clist(cZ(x) for x in o)) for o in observed)))


# ------------------------------------------------------------------------------------------------
# K2b: pure functions of the subprocess executor, in this process
class _Unpicklable(Exception):
    def __reduce__(self):
        raise TypeError("deliberately unpicklable")


def run_transport(rng):
    """Real _fix_result_for_pickle on exceptions; returns (items [(pos, picklable)], observed positions)."""
    import logging

    from pynguin.testcase.execution_result import ExecutionResult
    from pynguin.testcase.subprocess_executor import SubprocessTestCaseExecutor as S

    n = rng.choice([0, 1, 2, 3, 5])
    items = []
    r = ExecutionResult()
    pos = 0
    for _ in range(n):
        pos += rng.choice([1, 1, 2])
        ok = rng.random() < 0.6
        items.append((pos, ok))
        exc = rng.choice([ValueError, KeyError, TypeError])("e%d" % pos) if ok else _Unpicklable("u%d" % pos)
        r.report_new_thrown_exception(pos, exc)
    lg = logging.getLogger("pynguin.testcase.subprocess_executor")
    old = lg.level
    lg.setLevel(logging.CRITICAL)
    try:
        S._fix_result_for_pickle(r)
    finally:
        lg.setLevel(old)
    return items, [int(k) for k in r.exceptions]


def run_fix_trace(rng):
    """Real _fix_assertion_trace; names are var_<n>; assertion values are unique so the OrderedSet never merges."""
    import pynguin.assertion.assertion as ass
    import pynguin.assertion.assertion_trace as at
    from pynguin.testcase.subprocess_executor import SubprocessTestCaseExecutor as S

    npos = rng.choice([0, 1, 2, 3, 4])
    same = rng.random() < 0.5
    old = {p: rng.randrange(8) for p in range(npos)}
    if same:
        new = dict(old)
    else:
        new = {p: rng.randrange(8) for p in rng.sample(range(npos + 1), rng.randrange(0, npos + 2))}
    trace, val = [], 100
    for p in sorted(rng.sample(range(6), rng.choice([0, 1, 2, 3]))):
        lst = []
        for _ in range(rng.choice([1, 2, 3])):
            val += 1
            src = rng.randrange(9)
            lst.append((val, src))
        trace.append((p, lst))
    return list(old.items()), list(new.items()), trace, exec_fix_trace(old, new, trace)


def exec_fix_trace(old, new, trace):
    import pynguin.assertion.assertion as ass
    import pynguin.assertion.assertion_trace as at
    from pynguin.testcase.subprocess_executor import SubprocessTestCaseExecutor as S

    t = at.AssertionTrace()
    for p, lst in trace:
        for val, src in lst:
            t.add_entry(p, ass.ObjectAssertion(f"var_{src}", val))
    try:
        S._fix_assertion_trace(t, {p: f"var_{v}" for p, v in dict(old).items()}, {p: f"var_{v}" for p, v in dict(new).items()})
        return [(int(p), [(int(a._object), int(a._source[4:])) for a in s]) for p, s in t.trace.items() if s]
    except KeyError:
        return None


def c_fcase(old, new, trace, observed):
    cb = lambda b: clist(cpair(cZ(p), cZ(v)) for p, v in b)  # noqa: E731
    ct = lambda tr: clist(cpair(cZ(p), clist(cpair(cZ(c), cZ(v)) for c, v in l)) for p, l in tr)  # noqa: E731
    return "{| C31.f_old := %s; C31.f_new := %s; C31.f_trace := %s; C31.f_observed := %s |}" % (
        cb(old), cb(new), ct(trace), copt(None if observed is None else ct(observed)))


# ------------------------------------------------------------------------------------------------
def run(ctx: vlib.Ctx):
    vlib.setup_impl_path()
    ctx.digest_sources(SRC)
    ctx.coq_static()
    if not ctx.quick:
        ctx.coqchk()
    corpus = json.loads((vlib.VERIF / "corpus" / "C31.json").read_text())
    base = ctx.mkscratch() / "diff"
    base.mkdir(parents=True, exist_ok=True)

    n_tests, length = (4, 4) if ctx.quick else (14, 6)
    jobs = []
    for j in corpus["diff_jobs"]:
        jobs.append(dict(j, max_timeout=60, per_stmt=20))
    for m in MODULES:
        for rep in range(1 if ctx.quick else 3):
            jobs.append({"module": m, "seed": ctx.rng.randrange(10 ** 6), "n": n_tests, "len": length, "max_timeout": 60,
                         "per_stmt": 20})
    pats = [list(p) for p in corpus["patterns"]] + gen_patterns(ctx.rng, 2 if ctx.quick else 12)
    jobs.append({"module": "crash", "patterns": pats, "max_timeout": 60})
    jobs.append({"module": "mutant", "max_timeout": 60, "per_stmt": 20})
    # results whose pickling runs instrumented SUT code (exception class with __reduce__) and results far larger
    # than a pipe buffer; 30 s limits: a child that blocks in send() costs one join timeout, not more
    jobs.append({"module": "pickling", "max_timeout": 30, "per_stmt": 30})
    # unequal limits and a slow test case that is well inside its budget min(60, 5*6) = 30 s: a child that
    # gets other limits than the parent shows up as a limits difference and as a timeout-flag difference
    jobs.append({"module": "slow", "max_timeout": 60, "per_stmt": 5, "nap": 6})
    if not ctx.quick:
        jobs.append({"module": "slow", "max_timeout": 45, "per_stmt": 7, "nap": 8})
    if not ctx.quick:
        jobs.append({"module": "crash", "patterns": [["fine", "hang"], ["hang"], ["fine2", "hang", "fine"]], "max_timeout": 10})
    wd = 900 if ctx.quick else 2400
    pool = cf.ThreadPoolExecutor(max_workers=6 if ctx.quick else 10)
    futs = [pool.submit(run_driver, j, base, f"j{i}", wd) for i, j in enumerate(jobs)]

    # --- K2b in this process while the drivers run -------------------------------------------------
    tcases, fcases, tobs, fobs = [], [], [], []
    for _ in range(300 if ctx.quick else 4000):
        items, obs = run_transport(ctx.rng)
        tobs.append((items, obs))
        # one "test" whose in-process result has these items; batch succeeds
        tcases.append(c_batch([[(p, ok) for p, ok in items]], True, [True], [obs]))
        ctx.case_seen(("transport", tuple(items)), nontrivial=any(not ok for _, ok in items))
        ctx.count("transport:unpicklable:%d" % min(3, sum(1 for _, ok in items if not ok)))
    for c in corpus["fix_trace"]:
        old, new = [tuple(x) for x in c["old"]], [tuple(x) for x in c["new"]]
        trace = [(p, [tuple(a) for a in l]) for p, l in c["trace"]]
        observed = exec_fix_trace(old, new, trace)
        fobs.append((old, new, trace, observed))
        fcases.append(c_fcase(old, new, trace, observed))
    for _ in range(600 if ctx.quick else 8000):
        old, new, trace, observed = run_fix_trace(ctx.rng)
        fobs.append((old, new, trace, observed))
        fcases.append(c_fcase(old, new, trace, observed))
        ctx.case_seen(("fix", tuple(old), tuple(new), str(trace)), nontrivial=bool(trace) and bool(new))
        ctx.count("fix_trace:" + ("keyerror" if observed is None else "identical" if old == new else "renamed"))
    bad_t = ctx.run_cases("C31_transport", "From Verif Require Import Models.C31.", "C31.case", "C31.check_case", tcases)
    bad_f = ctx.run_cases("C31_fix", "From Verif Require Import Models.C31.", "C31.fcase", "C31.check_fcase", fcases)
    if bad_t:
        items, obs = tobs[bad_t[0]]
        kept = [p for p, ok in items if ok]
        if obs != kept:
            ctx.fail("transport:wrong-filter", f"_fix_result_for_pickle kept the exceptions at {obs} of {items} "
                     f"((position, picklable)); the picklable ones are at {kept}", {"kind": "transport", "items": items, "observed": obs})
        else:
            ctx.broken("correspondence:C31-transport", "the transport model no longer matches _fix_result_for_pickle",
                       {"items": items, "observed": obs, "mismatching": len(bad_t)})
    if bad_f:
        old, new, trace, observed = fobs[bad_f[0]]
        if old == new and observed is not None:
            ctx.fail("fix_trace:identity", f"_fix_assertion_trace changed a trace although the bindings are identical: {trace} -> {observed}",
                     {"old": old, "new": new, "trace": trace, "observed": observed})
        else:
            ctx.broken("correspondence:C31-fix-assertion-trace", "_fix_assertion_trace no longer matches the model",
                       {"old": old, "new": new, "trace": trace, "observed": observed, "mismatching": len(bad_f)})
    ctx.leg("K2b", transport_ok=(bad_t == []), fix_trace_ok=(bad_f == []))

    # --- differential and orchestration ------------------------------------------------------------
    bcases, bmeta, n_diff, n_cases = [], [], 0, 0
    lcases: list = []
    for i, (j, fut) in enumerate(zip(jobs, futs)):
        log, note = fut.result()
        if log is None:
            if note.startswith("no return"):
                ctx.fail(f"hang:{j['module']}", f"differential driver for {j['module']} did not return ({note})", {"job": j})
            else:
                ctx.broken(f"driver:{j['module']}", "the differential driver failed", {"job": j, "detail": note})
            continue
        ds = diffs_of(log)
        shape_bad = [b for b in log["batches"] if len(b["subproc"]) != len(b["pattern"])]
        if ds or shape_bad:
            ctx.log(f"job {i} ({j['module']}): {len(ds)} differences; re-running once to rule out machine load")
            log2, note2 = run_driver(j, base, f"j{i}r", wd)
            if log2 is not None:
                sig2 = {d[0] for d in diffs_of(log2)}
                ds = [d for d in ds if d[0] in sig2]
                log = log2
        for sig, msg, det in ds[:4]:
            n_diff += 1
            ctx.fail(sig, msg, {"kind": "diff", "job": j, "detail": det})
        for ib in log.get("iter_batches", []):
            ctx.count("iterator-batch:size:%d" % min(ib["k"], 3))
        if log.get("limits"):
            lcases.append(c_lcase(log["limits"]))
            ctx.count("limits:jobs")
        for c in log["cases"]:
            n_cases += 1
            a = c["pass1"]["inproc"]
            ctx.case_seen(("diff", j["module"], c["code"]), nontrivial=bool(a["lines"]))
            ctx.count("diff:module:" + j["module"])
            ctx.count("diff:exception:" + ("yes" if a["exceptions"] else "no"))
            ctx.count("diff:assertions:" + ("yes" if c["n_assertions"] else "no"))
            ctx.count("diff:falsified:" + ("yes" if c.get("falsified") else "no"))
            if c.get("mutant"):
                ctx.count("diff:mutated-module-registered")
            if "pass2" in c and c["pass2"]["inproc"]["verification"]["failed"]:
                ctx.count("diff:verification-failed-nonempty")
        if log["cases"]:
            ctx.sample({"module": j["module"], "test": log["cases"][0]["code"], "inproc": log["cases"][0]["pass1"]["inproc"]}, limit=3)
        for b in log["batches"]:
            if len(b["subproc"]) != len(b["pattern"]):
                ctx.fail("batch:shape:crash", f"execute_multiple returned {len(b['subproc'])} results for {len(b['pattern'])} tests",
                         {"kind": "batch", "pattern": b["pattern"]})
                continue
            t, ok, s, o = batch_to_case(b)
            bcases.append(c_batch(t, ok, s, o))
            bmeta.append(b)
            ctx.case_seen(("batch", tuple(b["pattern"])), nontrivial=any(not k.startswith("fine") for k in b["pattern"]))
            ctx.count("batch:crashes:%d" % sum(1 for k in b["pattern"] if not k.startswith("fine")))
    pool.shutdown()
    bad_b = ctx.run_cases("C31_batches", "From Verif Require Import Models.C31.", "C31.case", "C31.check_case", bcases)
    if bad_b:
        b = bmeta[bad_b[0]]
        flags = [r["timeout"] for r in b["subproc"]]
        exp = [not k.startswith("fine") for k in b["pattern"]]
        if flags != exp:
            ctx.fail("batch:timeout-flags", f"execute_multiple on {b['pattern']}: timeout flags {flags}, expected {exp}",
                     {"kind": "batch", "pattern": b["pattern"], "flags": flags})
        else:
            ctx.fail("batch:result-differs", f"execute_multiple on {b['pattern']}: a surviving test's result differs from its "
                     "in-process result", {"kind": "batch", "pattern": b["pattern"]})
    bad_l = ctx.run_cases("C31_limits", "From Verif Require Import Models.C31.", "C31.lcase", "C31.check_lcase", lcases)
    if bad_l and n_diff == 0:
        ctx.broken("correspondence:C31-limits", "the limits/budget model does not accept the observed parent/child limits",
                   {"cases": lcases})
    ctx.leg("K2a", ok=(bad_b == []), batches=len(bcases), limits_ok=(bad_l == []), limit_cases=len(lcases))
    ctx.leg("S", differences=n_diff, test_cases=n_cases)
    ctx.cov["rule"] = ("differential: TestFactory-made test cases (length <= %d) for 4 small deterministic modules, two passes "
                       "(assertion trace, assertion verification with one falsified assertion), non-trivial = the test covers at "
                       "least one line; orchestration: batches of fine/killing/hanging tests; transport: 0..5 exceptions, 40%% "
                       "unpicklable; fix_trace: random bindings (50%% identical) and traces" % length)
    ctx.assumptions += [
        "the test cases are deterministic (modules without randomness, time or addresses in values; addresses in reprs are masked)",
        "timeouts of 60 s are never reached by terminating test cases (machine load); differences must persist on a re-run",
        "multiprocess start method 'fork'",
    ]
    ctx.cov["trusted_base"] += [
        "hand-written thin model Models/C31.v tied by K2a/K2b (this run); the agreement itself is decided by the differential, "
        "not by a theorem",
        "harness/props/C31.py, _c31_diff.py (canonicalisation of results, abstraction of batches to item codes)",
        "dill/pickle, multiprocess, fork",
    ]


def replay(ctx, path):
    vlib.setup_impl_path()
    d = json.loads(open(path).read())["replay"]
    if d.get("kind") == "diff":
        log, note = run_driver(d["job"], ctx.mkscratch(), "replay", 2400)
        print(note or "\n".join(f"{s}: {m}" for s, m, _ in diffs_of(log)) or "no difference")
        return 0
    if d.get("kind") == "batch":
        log, note = run_driver({"module": "crash", "patterns": [d["pattern"]], "max_timeout": 60}, ctx.mkscratch(), "replay", 2400)
        print(note or json.dumps(log["batches"], indent=1)[:3000])
        return 0
    print(json.dumps(d, indent=1))
    return 0
