"""Shared by C20 and C23: adversarial Python values, their abstraction to Base/PyExpr.v terms,
translation of libcst expression nodes to PyExpr expressions (token *values* are what CPython reads
from the token text), and a bit-exact comparison of Python values."""
from __future__ import annotations

import ast
import enum
import math
import struct

from vlib import cZ, cbool, cfloat, clist, copt

MAXDIGITS = 4300  # sys.get_int_max_str_digits() default


class Untranslatable(Exception):
    pass


# ---------------------------------------------------------------------------------------------
# enums used as assertable values (plain Enum members: public, module level)
class Color(enum.Enum):
    RED = 1
    GREEN = "g"
    BLUE = (1, 2)


class Shape(enum.Enum):
    DOT = 0
    LINE = 1


ENUM_NS = {"Color": Color, "Shape": Shape}


# ---------------------------------------------------------------------------------------------
# value generators
SPECIAL_FLOATS = [0.0, -0.0, float("inf"), -float("inf"), float("nan"), 5e-324, -5e-324, 2.2250738585072014e-308,
                  2.225073858507201e-308, 1.7976931348623157e308, -1.7976931348623157e308, 1.0, -1.0, 0.1, -0.1,
                  1e22, 1e23, 1e16, 9007199254740993.0, 1e-7, 123456789.0, 0.30000000000000004, 1.5e300, 2.0 ** 70,
                  4.35, 0.01, -2.5, 1e-320, math.pi, 100.0, 1e15, 1e17]


def gen_float(rng):
    c = rng.random()
    if c < 0.45:
        return rng.choice(SPECIAL_FLOATS)
    if c < 0.65:
        return struct.unpack("<d", struct.pack("<Q", rng.getrandbits(64)))[0]      # any bit pattern
    if c < 0.8:
        return round(rng.gauss(0, 1) * rng.choice([1, 20, 2048]), rng.choice([0, 1, 2, 8]))
    if c < 0.9:
        return math.nextafter(rng.choice([1.0, 2.0 ** 53, 1e22, 0.5]), rng.choice([0.0, math.inf]))
    return rng.gauss(0, 1) * 10.0 ** rng.randint(-30, 30)


def gen_int(rng, big=False):
    c = rng.random()
    if c < 0.3:
        return rng.choice([0, 1, -1, 2, 3, 255, 256, -256, 2 ** 31, -2 ** 31, 2 ** 53 + 1, -(2 ** 63), 2 ** 64, 10 ** 30, -10 ** 30])
    if c < 0.8:
        return rng.randint(-3000, 3000)
    if big and c < 0.85:
        return rng.choice([1, -1]) * 10 ** rng.choice([400, 4299])
    return rng.choice([1, -1]) * rng.getrandbits(rng.choice([8, 40, 70, 200]))


STR_ALPHABET = ["a", "b", "Z", " ", "'", '"', "\\", "\n", "\t", "\r", "\x00", "\x7f", "\x85", "\xa0", "\xe9", " ",
                "€", "\ud800", "\udfff", "\U0001f600", "\U0010ffff", "{", "}", "%", "#", "0"]


def gen_str(rng):
    n = rng.choice([0, 0, 1, 1, 2, 3, 5, 9])
    return "".join(rng.choice(STR_ALPHABET) if rng.random() < 0.8 else chr(rng.choice([rng.randrange(0x20, 0x7F), rng.randrange(0, 0x110000)]))
                   for _ in range(n))


def gen_bytes(rng):
    n = rng.choice([0, 1, 1, 2, 4, 7])
    return bytes(rng.choice([0, 10, 13, 34, 39, 92, 97, 127, 128, 255, rng.randrange(256)]) for _ in range(n))


SPECIAL_COMPLEX = [complex(math.nan, math.inf), complex(math.inf, math.nan), complex(-math.inf, math.nan), complex(math.nan, -math.inf),
                   complex(math.nan, math.nan), complex(math.nan, 0.0), complex(0.0, math.nan), complex(math.inf, -math.inf),
                   complex(1e308, 1e308), complex(1.7976931348623157e308, -1.7976931348623157e308), complex(-1.5e308, 1.2e308),
                   complex(-0.0, -0.0), complex(5e-324, -5e-324), complex(math.inf, 1e308), complex(0.0, 1.7976931348623157e308)]


def gen_complex(rng, nan_ok=True):
    while True:
        z = rng.choice(SPECIAL_COMPLEX) if rng.random() < 0.2 else complex(gen_float(rng), gen_float(rng))
        if nan_ok or not (math.isnan(z.real) or math.isnan(z.imag)):
            return z


def gen_scalar(rng, floats=True, enums=False, nan_complex=True):
    kinds = ["int", "int", "bool", "str", "str", "bytes", "complex", "none"]
    if floats:
        kinds += ["float", "float", "float"]
    if enums:
        kinds += ["enum", "enum"]
    k = rng.choice(kinds)
    if k == "int":
        return gen_int(rng)
    if k == "bool":
        return rng.random() < 0.5
    if k == "str":
        return gen_str(rng)
    if k == "bytes":
        return gen_bytes(rng)
    if k == "complex":
        return gen_complex(rng, nan_complex)
    if k == "none":
        return None
    if k == "enum":
        return rng.choice([Color.RED, Color.GREEN, Color.BLUE, Shape.DOT, Shape.LINE])
    return gen_float(rng)


def _hashable(v):
    try:
        hash(v)
        return True
    except TypeError:
        return False


def gen_value(rng, depth=3, **kw):
    """A possibly nested value.  kw: floats / enums / nan_complex as in gen_scalar."""
    if depth <= 0 or rng.random() < 0.45:
        return gen_scalar(rng, **kw)
    k = rng.choice(["list", "tuple", "set", "dict"])
    n = rng.choice([0, 1, 1, 2, 3])
    if k == "list":
        return [gen_value(rng, depth - 1, **kw) for _ in range(n)]
    if k == "tuple":
        return tuple(gen_value(rng, depth - 1, **kw) for _ in range(n))
    if k == "set":
        s = set()
        for _ in range(n):
            e = gen_hashable(rng, depth - 1, **kw)
            s.add(e)
        return s
    d = {}
    for _ in range(n):
        d[gen_hashable(rng, depth - 1, **kw)] = gen_value(rng, depth - 1, **kw)
    return d


def gen_hashable(rng, depth, **kw):
    if depth > 0 and rng.random() < 0.25:
        return tuple(gen_hashable(rng, depth - 1, **kw) for _ in range(rng.choice([0, 1, 2])))
    return gen_scalar(rng, **kw)


# ---------------------------------------------------------------------------------------------
# classification (for signatures / distribution)
def classify(v) -> str:
    if v is None:
        return "none"
    if isinstance(v, bool):
        return "bool"
    if isinstance(v, enum.Enum):
        return "enum"
    if isinstance(v, int):
        if abs(v) >= 10 ** MAXDIGITS:
            return "int:digit-limit"
        return "int:negative" if v < 0 else "int"
    if isinstance(v, float):
        return "float:" + fclass(v)
    if isinstance(v, complex):
        cs = {fclass(v.real), fclass(v.imag)}
        for c in ("nan", "negzero", "inf", "neginf", "subnormal", "negative"):
            if c in cs:
                return "complex:" + c
        return "complex:finite"
    if isinstance(v, str):
        return "str"
    if isinstance(v, bytes):
        return "bytes"
    return type(v).__name__


def fclass(x: float) -> str:
    if math.isnan(x):
        return "nan"
    if math.isinf(x):
        return "inf" if x > 0 else "neginf"
    if x == 0:
        return "negzero" if math.copysign(1.0, x) < 0 else "zero"
    if abs(x) < 2.2250738585072014e-308:
        return "subnormal"
    return "negative" if x < 0 else "finite"


def leaves(v):
    if isinstance(v, (list, tuple, set, frozenset)):
        for e in v:
            yield from leaves(e)
    elif isinstance(v, dict):
        for k, e in v.items():
            yield from leaves(k)
            yield from leaves(e)
    else:
        yield v


# ---------------------------------------------------------------------------------------------
# bit-exact identity of Python values (NaN == NaN, 0.0 != -0.0, types exact, set order free)
def fsame(a: float, b: float) -> bool:
    if math.isnan(a) or math.isnan(b):
        return math.isnan(a) and math.isnan(b)
    return a == b and math.copysign(1.0, a) == math.copysign(1.0, b)


def ident(a, b) -> bool:
    if type(a) is not type(b):
        return False
    if isinstance(a, float):
        return fsame(a, b)
    if isinstance(a, complex):
        return fsame(a.real, b.real) and fsame(a.imag, b.imag)
    if isinstance(a, (list, tuple)):
        return len(a) == len(b) and all(ident(x, y) for x, y in zip(a, b))
    if isinstance(a, (set, frozenset)):
        return len(a) == len(b) and all(any(ident(x, y) for y in b) for x in a)
    if isinstance(a, dict):
        return len(a) == len(b) and all(ident(k1, k2) and ident(v1, v2) for (k1, v1), (k2, v2) in zip(a.items(), b.items()))
    if isinstance(a, enum.Enum):
        return a is b
    return a == b


# ---------------------------------------------------------------------------------------------
# Coq printers
def cstring(s: str) -> str:
    if not all(0x20 <= ord(c) < 0x7F for c in s):
        raise Untranslatable(f"non-ASCII identifier {s!r}")
    return '"' + s.replace('"', '""') + '"%string'


def cpystr(cps) -> str:
    return clist(f"{int(c)}%N" for c in cps)


def c_value(v) -> str:
    """Python value -> PyExpr.value term."""
    if v is None:
        return "VNone"
    if isinstance(v, bool):
        return f"(VBool {cbool(v)})"
    if isinstance(v, enum.Enum) and not isinstance(v, (int, str)):
        return f"(VEnum {cstring(type(v).__name__)} {cstring(v.name)})"
    if type(v) is int:
        return f"(VInt {cZ(v)})"
    if type(v) is float:
        return f"(VFloat {cfloat(v)})"
    if type(v) is complex:
        return f"(VComplex {cfloat(v.real)} {cfloat(v.imag)})"
    if type(v) is str:
        return f"(VStr {cpystr(map(ord, v))})"
    if type(v) is bytes:
        return f"(VBytes {cpystr(v)})"
    if type(v) is list:
        return f"(VList {clist(c_value(x) for x in v)})"
    if type(v) is tuple:
        return f"(VTuple {clist(c_value(x) for x in v)})"
    if type(v) is set:
        return f"(VSet {clist(c_value(x) for x in v)})"
    if type(v) is dict:
        return "(VDict " + clist(f"({c_value(k)}, {c_value(x)})" for k, x in v.items()) + ")"
    if isinstance(v, type):
        return f"(VType {cstring(v.__module__)} {clist(cstring(p) for p in v.__qualname__.split('.'))})"
    t = type(v)
    try:
        n = len(v)
    except Exception:  # noqa: BLE001
        n = None
    return (f"(VObj {cstring(t.__module__)} {clist(cstring(p) for p in t.__qualname__.split('.'))} "
            f"{copt(None if n is None else cZ(n))})")


ERRS = {"NameError": "NameError", "TypeError": "TypeError", "ValueError": "ValueError"}


def c_res(kind, payload) -> str:
    """('ok', value) | ('err', exception class name)."""
    if kind == "ok":
        return f"(Ok {c_value(payload)})"
    return f"(Err {ERRS.get(payload, 'Unsupported')})"


# ---------------------------------------------------------------------------------------------
# libcst node -> expression (python tuples) -> Coq
def cst_to_expr(node):
    import libcst as cst

    if isinstance(node, cst.Name):
        return ("Name", node.value)
    if isinstance(node, cst.Float):
        return ("Float", float(ast.literal_eval(node.value)))
    if isinstance(node, cst.Integer):
        v = ast.literal_eval(node.value)
        if type(v) is not int:
            raise Untranslatable(node.value)
        return ("Int", v)
    if isinstance(node, cst.SimpleString):
        v = node.evaluated_value
        if isinstance(v, str):
            return ("Str", [ord(c) for c in v])
        return ("Bytes", list(v))
    if isinstance(node, cst.UnaryOperation):
        if isinstance(node.operator, cst.Minus):
            return ("Neg", cst_to_expr(node.expression))
        raise Untranslatable(type(node.operator).__name__)
    if isinstance(node, cst.Attribute):
        return ("Attr", cst_to_expr(node.value), node.attr.value)
    if isinstance(node, cst.Call):
        args, kw = [], []
        for a in node.args:
            if a.star:
                raise Untranslatable("starred argument")
            if a.keyword is None:
                if kw:
                    raise Untranslatable("positional after keyword")
                args.append(cst_to_expr(a.value))
            else:
                kw.append((a.keyword.value, cst_to_expr(a.value)))
        return ("Call", cst_to_expr(node.func), args, kw)
    if isinstance(node, (cst.List, cst.Tuple, cst.Set)):
        els = []
        for e in node.elements:
            if not isinstance(e, cst.Element):
                raise Untranslatable("starred element")
            els.append(cst_to_expr(e.value))
        return ({cst.List: "List", cst.Tuple: "Tuple", cst.Set: "Set"}[type(node)], els)
    if isinstance(node, cst.Dict):
        items = []
        for e in node.elements:
            if not isinstance(e, cst.DictElement):
                raise Untranslatable("starred dict element")
            items.append((cst_to_expr(e.key), cst_to_expr(e.value)))
        return ("Dict", items)
    if isinstance(node, cst.Comparison) and len(node.comparisons) == 1:
        t = node.comparisons[0]
        if isinstance(t.operator, cst.Equal):
            return ("Eq", cst_to_expr(node.left), cst_to_expr(t.comparator))
        if isinstance(t.operator, cst.Is):
            return ("Is", cst_to_expr(node.left), cst_to_expr(t.comparator))
        raise Untranslatable(type(t.operator).__name__)
    if isinstance(node, cst.FormattedString):
        p = node.parts
        if (len(p) == 3 and isinstance(p[0], cst.FormattedStringExpression) and isinstance(p[1], cst.FormattedStringText)
                and isinstance(p[2], cst.FormattedStringExpression) and node.start == 'f"'
                and all(q.conversion is None and q.format_spec is None for q in (p[0], p[2]))):
            return ("FStr2", cst_to_expr(p[0].expression), [ord(c) for c in p[1].value], cst_to_expr(p[2].expression))
        raise Untranslatable("f-string shape")
    raise Untranslatable(type(node).__name__)


def c_expr(e) -> str:
    k = e[0]
    if k == "Name":
        return f"(EName {cstring(e[1])})"
    if k == "Float":
        return f"(EFloat {cfloat(e[1])})"
    if k == "Int":
        return f"(EInt {cZ(e[1])})"
    if k == "Str":
        return f"(EStr {cpystr(e[1])})"
    if k == "Bytes":
        return f"(EBytes {cpystr(e[1])})"
    if k == "Neg":
        return f"(ENeg {c_expr(e[1])})"
    if k == "Attr":
        return f"(EAttr {c_expr(e[1])} {cstring(e[2])})"
    if k == "Call":
        return (f"(ECall {c_expr(e[1])} {clist(c_expr(a) for a in e[2])} "
                + clist(f"({cstring(n)}, {c_expr(a)})" for n, a in e[3]) + ")")
    if k in ("List", "Tuple", "Set"):
        return f"(E{k} {clist(c_expr(a) for a in e[1])})"
    if k == "Dict":
        return "(EDict " + clist(f"({c_expr(a)}, {c_expr(b)})" for a, b in e[1]) + ")"
    if k in ("Eq", "Is"):
        return f"(E{k} {c_expr(e[1])} {c_expr(e[2])})"
    if k == "FStr2":
        return f"(EFStr2 {c_expr(e[1])} {cpystr(e[2])} {c_expr(e[3])})"
    if k == "Bad":
        return "EBad"
    raise Untranslatable(k)


def code_of(node) -> str:
    import libcst as cst

    return cst.Module(body=[]).code_for_node(node)


def int_ok(v) -> bool:
    """ints small enough to be written into a Coq case file comfortably"""
    return all(not (type(x) is int) or abs(x) < 10 ** 80 for x in leaves(v))


def srepr(v) -> str:
    """repr that also works for ints beyond the int->str digit limit (hex), NaN/inf (names) and enums;
    evaluates back to the value in a namespace with inf, nan and the enum classes."""
    if type(v) is int and abs(v) >= 10 ** 400:
        return hex(v)
    if type(v) is float:
        if math.isnan(v):
            return "nan"
        if math.isinf(v):
            return "inf" if v > 0 else "-inf"
        return repr(v)
    if type(v) is complex:
        return f"complex({srepr(v.real)}, {srepr(v.imag)})"
    if isinstance(v, enum.Enum):
        return f"{type(v).__name__}.{v.name}" if v.name and v.name.isidentifier() else f"{type(v).__name__}({srepr(v.value)})"
    if type(v) is list:
        return "[" + ", ".join(srepr(x) for x in v) + "]"
    if type(v) is tuple:
        return "(" + ", ".join(srepr(x) for x in v) + ("," if len(v) == 1 else "") + ")"
    if type(v) is set:
        return "{" + ", ".join(srepr(x) for x in v) + "}" if v else "set()"
    if type(v) is dict:
        return "{" + ", ".join(f"{srepr(k)}: {srepr(x)}" for k, x in v.items()) + "}"
    return repr(v)
