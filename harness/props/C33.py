"""C33 — worker crashes never hang Pynguin and restarts are bounded.

T   static proofs over Models/C33.v (restart protocol as a state machine over all crash sequences).
K2  scripted correspondence: the REAL PynguinClient / MasterProcess / RunningTask (get_result,
    _restart, _adjust_search_time_after_crash, _start_worker) are driven in this process with the
    process/pipe/clock primitives of master.py replaced by scripted fakes; every history is replayed by
    the Coq model (vm_compute).
TR  trace refinement of real master/worker runs with real worker deaths (harness/props/_c33_driver.py:
    env-guarded hook at phase boundaries, dying modules under test, external SIGKILL); the Coq model
    must accept each observed trace.
S   direct oracle on the same real runs, independent of the model: the command returns (watchdog),
    search times at worker starts strictly decrease and stay positive, restarts <= initial budget,
    no restart under iteration budgets, ReturnCode.OK only if a worker ran to the end.
"""
from __future__ import annotations

import concurrent.futures as cf
import json
import os
import signal
import subprocess
import sys
import threading
import time
from pathlib import Path

import vlib
from vlib import cZ, cbool, clist, copt

SRC = ["src/pynguin/master_worker/master.py", "src/pynguin/master_worker/worker.py",
       "src/pynguin/master_worker/client.py", "src/pynguin/generator.py"]
GRID = 1 << 22          # time.time() readings in 2^30..2^31 s are multiples of 2^-22 s


# ------------------------------------------------------------------------------------------------
# Coq printers
def c_outcome(o):
    if o[0] == "Deliver":
        return f"C33.Deliver {copt(None if o[1] is None else cZ(o[1]))}"
    return f"C33.Die {cZ(o[1])} {cZ(o[2])}"


def c_event(e):
    if e[0] == "EAdjust":
        return f"C33.EAdjust {cZ(e[1])}"
    if e[0] == "ERestart":
        return f"C33.ERestart {cZ(e[1])} {cbool(e[2])}"
    return "C33.EAbort"


def c_case(c):
    res = None
    if c["result"] is not None:
        ok, rc, k = c["result"]
        res = f"({cbool(ok)}, {copt(None if rc is None else cZ(rc))}, {cZ(k)})"
    return ("{| C33.c_time := %s; C33.c_sub := %s; C33.c_umw := %s; C33.c_outcomes := %s; C33.c_events := %s; "
            "C33.c_result := %s; C33.c_final_time := %s; C33.c_final_sub := %s; C33.c_client := %s |}" % (
                cZ(c["time"]), cbool(c["sub"]), cbool(c["umw"]), clist(c_outcome(o) for o in c["outcomes"]),
                clist(c_event(e) for e in c["events"]), copt(res), cZ(c["final_time"]), cbool(c["final_sub"]),
                copt(None if c["client"] is None else cZ(c["client"]))))


# ------------------------------------------------------------------------------------------------
# K2: scripted histories on the real master classes
class _Exhausted(BaseException):
    """The scripted adversary has no further outcome: the master would block in recv()."""


def gen_script(rng):
    """(search time, subprocess flag, use_master_worker, outcomes).  Elapsed times are rationals on the
    2^-22 grid (what differences of time.time() readings are); a few are zero/negative (clock steps)."""
    c = rng.choice([-1, -1, 0, 1, 1, 2, 3, 4, 5, 7, 10, 30, 600, rng.randrange(1, 2000)])
    n = rng.choice([0, 1, 1, 2, 3, 4, 6, 9])
    outs = []
    for _ in range(n):
        r = rng.random()
        if r < 0.72:
            kind = rng.random() if c <= 8 else rng.random() * 0.9 - 0.2
            if kind < 0.35:
                ticks = rng.randrange(1, GRID)                      # below one second
            elif kind < 0.55:
                ticks = rng.randrange(1, 4) * GRID + rng.choice([0, 0, 1, -1, rng.randrange(GRID)])
            elif kind < 0.75:
                ticks = max(1, c) * GRID + rng.choice([-1, 0, 1, rng.randrange(-GRID, GRID)])  # around the budget
            elif kind < 0.93:
                ticks = rng.randrange(1, 40 * GRID)
            elif kind < 0.97:
                ticks = 0                                            # clock did not advance
            else:
                ticks = -rng.randrange(1, 3 * GRID)                  # clock stepped back
            outs.append(("Die", ticks, GRID))
        else:
            outs.append(("Deliver", rng.choice([0, 0, 0, 1, 2, 3, None])))
    return c, rng.random() < 0.3, rng.random() < 0.9, outs


def run_script(c, sub, umw, outs, with_client=True, foreign_global=False):
    """Drive the real classes.  Returns the observation dict for check_case."""
    import pynguin.configuration as config
    from pynguin.generator import ReturnCode
    from pynguin.master_worker import client as C
    from pynguin.master_worker import master as M
    from pynguin.master_worker.worker import WorkerResult, WorkerReturnCode

    cfg = config.Configuration(
        project_path="/nonexistent", module_name="nomodule",
        test_case_output=config.TestCaseOutputConfiguration(output_path="/nonexistent"),
        algorithm=config.Algorithm.DYNAMOSA,
        stopping=config.StoppingConfiguration(maximum_iterations=5, maximum_search_time=c),
    )
    cfg.use_master_worker = umw
    cfg.subprocess = sub
    old_cfg = config.configuration
    if foreign_global:
        # library use: the task's Configuration is NOT the process-wide one (nobody called set_configuration in
        # the master); the restart protocol must work on the task's own budget
        glob = config.Configuration(
            project_path="/nonexistent", module_name="nomodule",
            test_case_output=config.TestCaseOutputConfiguration(output_path="/nonexistent"),
            algorithm=config.Algorithm.DYNAMOSA,
            stopping=config.StoppingConfiguration(maximum_iterations=5, maximum_search_time=987654),
        )
        glob.use_master_worker = umw
        glob.subprocess = not sub
        config.configuration = glob
    else:
        config.configuration = cfg

    base = float(1 << 30) + 12345.0
    script = list(outs)
    pos = {"k": 0, "clock": base}
    obs = {"starts": [], "restart_returns": [], "adjusted": [], "result": None}

    class Recv:
        def __init__(self, k):
            self.k = k

        def recv(self):
            if self.k >= len(script):
                raise _Exhausted
            o = script[self.k]
            if o[0] == "Die":
                # the worker ran for ticks/GRID seconds: advance the clock, then fail like a closed pipe
                pos["clock"] = pos["clock"] + o[1] / GRID
                raise EOFError
            rc = None if o[1] is None else ReturnCode(o[1])
            return WorkerResult(task_id="t", worker_return_code=WorkerReturnCode.OK, return_code=rc)

        def close(self):
            pass

    class Send:
        def close(self):
            pass

    class FakeMp:
        @staticmethod
        def Pipe(duplex=False):  # noqa: N802
            k = pos["k"]
            pos["k"] += 1
            return Recv(k), Send()

        class Process:
            def __init__(self, target=None, args=(), name=None):
                self.pid = 0

            def start(self):
                pass

            def is_alive(self):
                return False

            def terminate(self):
                pass

            def join(self, timeout=None):
                pass

            def kill(self):
                pass

    class FakeTime:
        @staticmethod
        def time():
            return pos["clock"]

    saved = (M.mp, M.time)
    RT = M.RunningTask
    o_start, o_restart = RT._start_worker, RT._restart

    def w_start(self, task):
        obs["starts"].append((task.configuration.stopping.maximum_search_time, bool(task.configuration.subprocess),
                              self._restart_count))
        return o_start(self, task)

    def w_restart(self):
        r = o_restart(self)
        obs["restart_returns"].append(bool(r))
        obs["adjusted"].append(self._task.configuration.stopping.maximum_search_time)
        return r

    o_get = M.MasterProcess.get_result

    def w_get(self, task_id):
        r = o_get(self, task_id)
        obs["result"] = (int(r.worker_return_code) == 0, None if r.return_code is None else int(r.return_code),
                         int(r.restart_count))
        return r

    client_rc = None
    try:
        M.mp, M.time = FakeMp, FakeTime
        RT._start_worker, RT._restart = w_start, w_restart
        M.MasterProcess.get_result = w_get
        try:
            if with_client:
                client_rc = int(C.run_pynguin_with_master_worker(cfg))
            else:
                mp_ = M.MasterProcess()
                mp_.get_result(mp_.start_pynguin(cfg))
        except _Exhausted:
            pass
    finally:
        M.mp, M.time = saved
        RT._start_worker, RT._restart = o_start, o_restart
        M.MasterProcess.get_result = o_get
        config.configuration = old_cfg

    events = []
    for i, ok in enumerate(obs["restart_returns"]):
        events.append(("EAdjust", obs["adjusted"][i]))
        if ok:
            st = obs["starts"][i + 1] if i + 1 < len(obs["starts"]) else (None, None, None)
            events.append(("ERestart", st[2] if st[2] is not None else -999, bool(st[1])))
        else:
            events.append(("EAbort",))
    return {"time": c, "sub": sub, "umw": umw, "outcomes": [list(o) for o in outs], "events": [list(e) for e in events],
            "result": None if obs["result"] is None else list(obs["result"]),
            "final_time": cfg.stopping.maximum_search_time, "final_sub": bool(cfg.subprocess),
            "client": client_rc, "n_starts": len(obs["starts"]), "start_times": [s[0] for s in obs["starts"]],
            "foreign_global": foreign_global}


def oracle_script(o):
    """Property-level checks on one scripted history (independent of the Coq model).
    Only crash sequences with positive elapsed times are judged (the property's premise)."""
    wf = all(x[0] != "Die" or x[1] > 0 for x in o["outcomes"])
    if not wf:
        return None
    c0 = o["time"]
    st = o["start_times"]
    for a, b in zip(st, st[1:]):
        if not (0 < b < a):
            return ("restart:no-strict-decrease" if b >= a else "restart:without-time",
                    f"worker restarted with search time {b} after {a}")
    if len(st) - 1 > max(0, c0):
        return ("restart:unbounded", f"{len(st) - 1} restarts with an initial search time of {c0}")
    n_die = sum(1 for x in o["outcomes"] if x[0] == "Die")
    if o["result"] is None and n_die == len(o["outcomes"]) and n_die > max(0, c0):
        return ("hang:get_result-still-waiting", f"after {n_die} crashes with budget {c0} the master still waits")
    if o["client"] == 0:
        k = len(st) - 1
        if not (k < len(o["outcomes"]) and o["outcomes"][k][0] == "Deliver" and o["outcomes"][k][1] == 0):
            return ("success-without-delivery", "client reports ReturnCode.OK but no worker delivered it")
    return None


# ------------------------------------------------------------------------------------------------
# TR / S: real runs
PHASES = ["setup", "search", "assertions", "minimize", "export", "report"]


def quick_scenarios(rng):
    """One scenario per phase of the property (import, search, assertion generation, export) plus the
    budget variants; runs that survive a restart continue in (slow) subprocess mode, hence the tiny
    iteration budgets."""
    it = lambda: rng.choice([1, 2])  # noqa: E731
    how = lambda: rng.choice(["", ":KILL"])  # noqa: E731
    sc = [
        {"name": "import-x2", "sut": "die_import", "search_time": 90, "iterations": it(), "sut_crashes": 2,
         "foreign_global": True},
        {"name": "import-iterbudget", "sut": "die_import", "search_time": -1, "iterations": it(), "sut_crashes": 1},
        {"name": "import-always", "sut": "die_import", "search_time": rng.choice([2, 3]), "iterations": -1,
         "sut_crashes": 1000},
        {"name": "search", "sut": "ok", "search_time": 90, "iterations": it(), "crash": "search:1" + how()},
        {"name": "assertions", "sut": "ok", "search_time": 90, "iterations": it(), "crash": "assertions:1" + how()},
        {"name": "export", "sut": "ok", "search_time": 90, "iterations": it(), "crash": "export:1" + how()},
        {"name": "midsearch-sut", "sut": "die_exec", "search_time": 90, "iterations": it(), "sut_crashes": 2},
        {"name": "export-budget-used", "sut": "hard", "search_time": 2, "iterations": -1, "crash": "export:1"},
        {"name": "export-iterbudget", "sut": "ok", "search_time": -1, "iterations": it(), "crash": "export:1" + how()},
        {"name": "extkill-search", "sut": "hard", "search_time": 4, "iterations": -1,
         "ext_kill": [["search", 0.3], ["search", 0.3]]},
    ]
    for s in sc:
        s["seed"] = rng.randrange(1, 10 ** 6)
    return sc


def thorough_scenarios(rng):
    it = lambda: rng.choice([2, 3, 5])  # noqa: E731
    how = lambda: rng.choice(["", ":KILL"])  # noqa: E731
    sc = [
        {"name": "baseline", "sut": "ok", "search_time": 90, "iterations": it()},
        {"name": "export-x2", "sut": "ok", "search_time": 200, "iterations": it(), "crash": "export:2" + how()},
        {"name": "setup", "sut": "ok", "search_time": 90, "iterations": it(), "crash": "setup:1" + how()},
        {"name": "report", "sut": "ok", "search_time": 90, "iterations": it(), "crash": "report:1" + how()},
        {"name": "minimize", "sut": "ok", "search_time": 90, "iterations": it(), "crash": "minimize:1" + how()},
        {"name": "extkill-subprocess", "sut": "ok", "search_time": 90, "iterations": 2, "subprocess": True,
         "ext_kill": [["search", 0.2]]},
        {"name": "three-phases", "sut": "ok", "search_time": 200, "iterations": it(),
         "crash": "setup:1,assertions:1,export:1"},
        {"name": "mutation-assertions", "sut": "ok", "search_time": 200, "iterations": 2, "crash": "assertions:1",
         "assertions": "MUTATION_ANALYSIS"},
    ]
    for s in sc:
        s["seed"] = rng.randrange(1, 10 ** 6)
    return sc


def random_scenario(rng, k):
    sut = rng.choice(["ok", "ok", "hard", "die_import", "die_exec"])
    budget = rng.choice(["time+iter", "time+iter", "iter", "time"])
    s = {"name": f"rnd{k}", "sut": sut, "seed": rng.randrange(1, 10 ** 6)}
    if budget == "time+iter":
        s["search_time"], s["iterations"] = rng.choice([5, 20, 90]), rng.choice([1, 2, 3, 5])
    elif budget == "iter":
        s["search_time"], s["iterations"] = -1, rng.choice([1, 2, 4])
    else:
        s["search_time"], s["iterations"] = rng.choice([1, 2, 3, 5]), -1
    if sut in ("die_import", "die_exec"):
        s["sut_crashes"] = rng.choice([1, 1, 2, 3, 1000])
    specs = []
    for ph in rng.sample(PHASES, rng.choice([0, 1, 1, 1, 2, 3])):
        specs.append(f"{ph}:{rng.choice([1, 1, 2, 3])}" + rng.choice(["", ":KILL"]))
    s["crash"] = ",".join(specs)
    if rng.random() < 0.2:
        s["ext_kill"] = [[rng.choice(["setup", "search", "assertions"]), rng.choice([0.0, 0.1, 0.5])]
                         for _ in range(rng.choice([1, 2]))]
    if rng.random() < 0.15:
        s["subprocess"] = True
        s["iterations"] = min(s["iterations"], 3) if s["iterations"] > 0 else s["iterations"]
    if rng.random() < 0.1:
        s["algorithm"] = rng.choice(["MOSA", "RANDOM", "WHOLE_SUITE"])
    if rng.random() < 0.4:
        s["foreign_global"] = True
    return s


class RealRunner:
    """Runs scenarios, each in a session (process group) of its own, under a watchdog.

    A scenario that has not returned after `soft` seconds is only noted as late (loaded machine); one that
    has not returned after `hard` seconds is a hang: its process group is killed, the hang is reported and
    ALL other scenarios are aborted (killed / not started) — a hang is the violation, there is no point in
    waiting for it a dozen times.  No process group survives kill_all()."""

    def __init__(self, base: Path, soft: float, hard_of):
        self.base, self.soft, self.hard_of = base, soft, hard_of
        self.abort = threading.Event()
        self.lock = threading.Lock()
        self.live: set[int] = set()

    @staticmethod
    def _killpg(pid):
        try:
            os.killpg(pid, signal.SIGKILL)
        except (ProcessLookupError, PermissionError):
            pass

    def kill_all(self):
        with self.lock:
            pids = list(self.live)
        for pid in pids:
            self._killpg(pid)

    def run(self, s):
        """Returns (log | None, note); note is '', 'late ...', 'skipped', 'no return within N s' or 'driver-crash: ...'."""
        if self.abort.is_set():
            return None, "skipped"
        d = self.base / s["name"]
        d.mkdir(parents=True, exist_ok=True)
        sc = {k: v for k, v in s.items() if k != "name"}
        sc["dir"] = str(d)
        hard = self.hard_of(s)
        sc["deadline"] = hard + 30          # the driver kills its own process group should the harness die
        with open(d / "stdout.txt", "w") as fo, open(d / "stderr.txt", "w") as fe:
            p = subprocess.Popen([sys.executable, str(Path(__file__).with_name("_c33_driver.py")), json.dumps(sc)],
                                 stdout=fo, stderr=fe, env=vlib.impl_env(), start_new_session=True)
        with self.lock:
            self.live.add(p.pid)
        t0 = time.monotonic()
        note = ""
        try:
            while p.poll() is None:
                el = time.monotonic() - t0
                if self.abort.is_set():
                    return None, "skipped"
                if el > hard:
                    self.abort.set()
                    return None, f"no return within {int(hard)} s"
                time.sleep(0.25)
            el = time.monotonic() - t0
            if el > self.soft:
                note = f"late ({int(el)} s)"
        finally:
            self._killpg(p.pid)          # the driver, orphaned workers, execution subprocesses
            with self.lock:
                self.live.discard(p.pid)
        out = (d / "stdout.txt").read_text()
        for ln in out.splitlines():
            if ln.startswith("RESULT "):
                return json.loads(ln[7:]), note
        return None, "driver-crash: " + ((d / "stderr.txt").read_text() or out)[-1500:]


def run_real(s, base: Path, hard=1200):
    """One scenario on its own (replay)."""
    return RealRunner(base, 120, lambda _s: hard).run(s)


def real_to_case(s, log):
    outs = [("Die", int(n), int(d)) for n, d, _ in log["adjusts"]]
    events = []
    for i, ok in enumerate(log["restart_returns"]):
        events.append(("EAdjust", log["adjusts"][i][2]))
        if ok:
            st = log["starts"][i + 1]
            events.append(("ERestart", st[2], bool(st[1])))
        else:
            events.append(("EAbort",))
    aborted = bool(log["restart_returns"]) and not log["restart_returns"][-1]
    res = log["result"]
    if res is not None and not aborted:
        outs.append(("Deliver", res[1]))
    last = log["starts"][-1]
    final_time = log["adjusts"][-1][2] if log["adjusts"] else log["starts"][0][0]
    return {"time": log["starts"][0][0], "sub": bool(log["starts"][0][1]), "umw": True,
            "outcomes": [list(o) for o in outs], "events": [list(e) for e in events], "result": res,
            "final_time": final_time, "final_sub": bool(last[1]), "client": log["client_rc"]}


def oracle_real(s, log, has_hook=True):
    """The property, read off the observed run; nothing here depends on the Coq model."""
    st = [x[0] for x in log["starts"]]
    for a, b in zip(st, st[1:]):
        if b >= a:
            return ("restart:no-strict-decrease", f"worker restarted with search time {b} after {a}")
        if b <= 0:
            return ("restart:without-time", f"worker restarted with search time {b}")
    c0 = st[0]
    if len(st) - 1 > max(0, c0):
        return ("restart:unbounded", f"{len(st) - 1} restarts with an initial search time of {c0}")
    if c0 <= 0 and len(st) > 1:
        return ("restart:without-time", "restart under an iteration budget (no search time)")
    if log["client_rc"] == 0:
        if not log["result"] or not log["result"][0] or log["result"][1] != 0:
            return ("success-without-delivery", f"client returned OK, WorkerResult = {log['result']}")
        if has_hook and [str(log["pids"][-1]), "report"] not in log["phases"]:
            return ("success-without-delivery", "client returned OK but the last worker never reached the end of the pipeline")
        if not log["outputs"]:
            return ("success-without-delivery", "client returned OK but no test file was exported")
    return None


# ------------------------------------------------------------------------------------------------
def run(ctx: vlib.Ctx):
    vlib.setup_impl_path()
    ctx.digest_sources(SRC)
    ctx.coq_static()
    if not ctx.quick:
        ctx.coqchk()
    corpus = json.loads((vlib.VERIF / "corpus" / "C33.json").read_text())

    # the hook must be present (and inert without its state directory)
    import pynguin.generator as gen
    has_hook = hasattr(gen, "_verif_phase")
    if not has_hook:
        ctx.notes.append("pynguin.generator._verif_phase missing: phase-boundary crash injection unavailable "
                         "(apply fixes/HOOK-generator-phase.diff); only hook-free scenarios run")

    # --- real runs start first (in the background), scripted K2 meanwhile -----------------------
    base = ctx.mkscratch() / "real"
    base.mkdir(parents=True, exist_ok=True)
    scen = [dict(s) for s in corpus["scenarios"]]
    scen += quick_scenarios(ctx.rng)
    if not ctx.quick:
        scen += thorough_scenarios(ctx.rng)
        scen += [random_scenario(ctx.rng, k) for k in range(24)]
    names = set()
    for i, s in enumerate(scen):
        if s["name"] in names:
            s["name"] += f"_{i}"
        names.add(s["name"])
    if not has_hook:
        scen = [s for s in scen if not s.get("crash") and not s.get("ext_kill")]
    if os.environ.get("VERIF_C33_REAL") == "0":      # developer knob for the sensitivity self-test only
        scen = []
        ctx.notes.append("real runs skipped (VERIF_C33_REAL=0)")
    # quick: a run is a hang after 360 s (healthy runs take 2..100 s, depending on machine load; "late" after
    # 120 s is only logged); thorough: 900 s + 10 s per second of search time
    runner = RealRunner(base, 120, (lambda _s: 360) if ctx.quick else (lambda x: 900 + 10 * max(0, x["search_time"])))
    pool = cf.ThreadPoolExecutor(max_workers=12)
    futs = {s["name"]: pool.submit(runner.run, s) for s in scen}
    try:
        _run_rest(ctx, corpus, scen, futs, has_hook)
    finally:
        runner.abort.set()
        runner.kill_all()
        pool.shutdown(wait=True)
        runner.kill_all()


def _run_rest(ctx, corpus, scen, futs, has_hook):

    # --- K2 scripted ------------------------------------------------------------------------------
    scripts = [(c["time"], c["sub"], c["umw"], [tuple(o) for o in c["outcomes"]]) for c in corpus["scripts"]]
    for _ in range(1000 if ctx.quick else 15000):
        scripts.append(gen_script(ctx.rng))
    obs, cases, n_or = [], [], 0
    import logging
    logging.getLogger("pynguin").setLevel(logging.CRITICAL)
    for i, (c, sub, umw, outs) in enumerate(scripts):
        o = run_script(c, sub, umw, outs, with_client=(i % 5 != 4), foreign_global=(i % 2 == 1))
        ctx.count("script:global-config:" + ("foreign" if i % 2 == 1 else "same"))
        obs.append(o)
        cases.append(c_case(o))
        n_die = sum(1 for x in outs if x[0] == "Die")
        ctx.case_seen((c, sub, umw, outs), nontrivial=n_die > 0)
        ctx.count("script:budget:" + ("none" if c <= 0 else "small" if c <= 5 else "large"))
        ctx.count("script:restarts:%d" % min(o["n_starts"] - 1, 5))
        ctx.count("script:end:" + ("waiting" if o["result"] is None else "delivered" if o["result"][0] else "aborted"))
        r = oracle_script(o)
        if r:
            n_or += 1
            ctx.fail("script:" + r[0], r[1], {"kind": "script", "time": c, "sub": sub, "umw": umw, "foreign_global": i % 2 == 1,
                                              "outcomes": [list(x) for x in outs], "observed": o})
    logging.getLogger("pynguin").setLevel(logging.NOTSET)
    ctx.log(f"scripted histories: {len(obs)}")
    ctx.sample({"script": obs[len(corpus["scripts"])]})
    bad = ctx.run_cases("C33_scripts", "From Verif Require Import Models.C33.", "C33.case", "C33.check_case", cases)
    if bad:
        ctx.leg("K2", ok=False, mismatches=len(bad))
        if n_or == 0:
            ctx.broken("correspondence:C33-model-vs-master",
                       "the restart-protocol model no longer reproduces RunningTask/PynguinClient on scripted histories",
                       {"first": obs[bad[0]], "mismatching": len(bad)})
    elif bad is not None:
        ctx.leg("K2", ok=True, histories=len(cases))

    # --- real runs: collect, oracle, trace refinement ---------------------------------------------
    real_cases, real_meta, n_real_fail, n_skipped = [], [], 0, 0
    for s in scen:
        log, note = futs[s["name"]].result()
        if log is None and note == "skipped":
            n_skipped += 1
            continue
        if log is None and note.startswith("no return"):
            n_real_fail += 1
            ph = (s.get("crash") or ("sut:" + s["sut"])).split(":")[0]
            ctx.log(f"scenario {s['name']}: {note}: HANG; remaining real scenarios are aborted")
            ctx.fail(f"hang:{ph}", f"master/worker run did not return ({note}; healthy runs of this scenario take 2-100 s)",
                     {"kind": "real", "scenario": s})
            continue
        if note.startswith("late"):
            ctx.log(f"scenario {s['name']}: returned {note} (machine load)")
        if log is None:
            ctx.broken("driver:" + s["name"], "the crash-injection driver failed", {"scenario": s, "detail": note})
            continue
        ctx.log(f"real {s['name']}: starts={log['starts']} deaths={len(log['adjusts'])} result={log['result']} "
                f"rc={log['client_rc']} wall={log['wall']}")
        ctx.count("real:restarts:%d" % (len(log["starts"]) - 1))
        ctx.count("real:rc:%d" % log["client_rc"])
        ctx.count("real:deaths:%d" % len(log["adjusts"]))
        died_in = [p for p in PHASES if p in (s.get("crash") or "")]
        for p in died_in:
            ctx.count("real:phase:" + p)
        ctx.case_seen(("real", json.dumps(s, sort_keys=True)), nontrivial=len(log["adjusts"]) > 0)
        r = oracle_real(s, log, has_hook)
        if r:
            n_real_fail += 1
            ctx.fail("real:" + r[0], r[1], {"kind": "real", "scenario": s, "log": log})
        case = real_to_case(s, log)
        real_cases.append(c_case(case))
        real_meta.append((s, log, case))
    if n_skipped:
        ctx.notes.append(f"{n_skipped} real scenarios aborted after a confirmed hang")
    if real_meta:
        ctx.sample({"real": {"scenario": real_meta[0][0], "log": {k: v for k, v in real_meta[0][1].items() if k != "phases"}}})
    badr = ctx.run_cases("C33_real", "From Verif Require Import Models.C33.", "C33.case", "C33.check_case", real_cases)
    if badr:
        ctx.leg("TR", ok=False, mismatches=len(badr))
        if n_real_fail == 0 and n_or == 0:
            s, log, case = real_meta[badr[0]]
            ctx.broken("trace-refinement:C33-real-runs", "the model does not accept the trace of a real master/worker run",
                       {"scenario": s, "log": log, "case": case})
    elif badr is not None:
        ctx.leg("TR", ok=True, runs=len(real_cases))
    ctx.leg("S", script_failures=n_or, real_failures=n_real_fail, real_runs=len(scen))
    ctx.cov["rule"] = ("scripted: random (search time, flags, outcome list of 0..9 Die(elapsed on the 2^-22 s grid, incl. "
                       "zero/negative clock steps)/Deliver(rc)) on the real master classes with fake pipe/process/clock; "
                       "non-trivial = at least one crash; distinct = distinct scripts.  real: master/worker runs with worker "
                       "deaths at import/setup/search/assertions/minimize/export/report (hook exit or SIGKILL, dying SUT, "
                       "external SIGKILL), under time, iteration and mixed budgets; non-trivial = at least one death")
    ctx.assumptions += [
        "a dead worker makes recv() raise (the OS delivers EOF once every holder of the pipe's write end is gone); "
        "sampled by the real runs, not modelled",
        "time.time() advanced between worker start and the failed recv (0 < elapsed); elapsed is a multiple of 2^-22 s "
        "and the search time is below 2^30 s, so the float subtraction in _adjust_search_time_after_crash is exact",
        "maximum_search_time is an int (configuration.py, CLI)",
        "multiprocess start method 'fork' (library default on Linux) in the real runs",
    ]
    ctx.cov["trusted_base"] += [
        "hand-written model Models/C33.v tied by scripted correspondence and trace refinement of real runs (this run)",
        "harness/props/C33.py, _c33_driver.py (method wrappers, fake pipe/process/clock, abstraction to events)",
        "env-guarded hook pynguin.generator._verif_phase (add-only, inert without SE2P_PYNGUIN_VERIF_STATE)",
    ]


def replay(ctx, path):
    vlib.setup_impl_path()
    d = json.loads(open(path).read())["replay"]
    if d.get("kind") == "script":
        o = run_script(d["time"], d["sub"], d["umw"], [tuple(x) for x in d["outcomes"]],
                       foreign_global=d.get("foreign_global", False))
        print("implementation:", o)
        print("oracle:", oracle_script(o))
        print("model agrees:", ctx.coq_eval("From Verif Require Import Models.C33.", "C33.check_case " + c_case(o)))
        return 0
    s = d["scenario"]
    log, note = run_real(s, ctx.mkscratch() / "replay")
    print("scenario:", s)
    print("run:", log, note)
    if log:
        print("oracle:", oracle_real(s, log))
        print("model agrees:", ctx.coq_eval("From Verif Require Import Models.C33.",
                                            "C33.check_case " + c_case(real_to_case(s, log))))
    return 0
