"""Adversarial runtime values for C04/C05 as re-buildable, JSON-able specs.

A spec is a (nested) list; `build(spec)` returns a FRESH Python object every time, so that the plain
evaluation, the traced evaluation and the heuristic observation never share mutable state
(iterators!).  User classes are created once per class spec (classes are immutable here), their
instances are fresh.  Every dunder method of a user class appends (class name, slot) to LOG.
"""
from __future__ import annotations

import decimal
import fractions
import numbers

LOG: list = []

SLOTS = ["__eq__", "__ne__", "__lt__", "__le__", "__gt__", "__ge__"]
# behaviours of a slot: "T"/"F" return a bool, "NI" NotImplemented, "cmp" compares payloads,
# "0"/"s"/"l" return a non-bool object (0, "x", [] ), "rb" returns an object whose __bool__ raises,
# "VE"/"TE"/"ZE" raise
BEHAVIOURS = ["T", "F", "NI", "cmp", "0", "s", "l", "rb", "VE", "TE", "ZE"]

_CLASSES: dict = {}


class _BoolRaiser:
    def __bool__(self):
        LOG.append(("_BoolRaiser", "__bool__"))
        raise ValueError("no truth value")


def _mk_method(cname, slot, beh):
    import operator

    opf = {"__eq__": operator.eq, "__ne__": operator.ne, "__lt__": operator.lt, "__le__": operator.le,
           "__gt__": operator.gt, "__ge__": operator.ge}.get(slot)

    def method(self, *args):
        LOG.append((cname, slot))
        if beh == "T":
            return True
        if beh == "F":
            return False
        if beh == "NI":
            return NotImplemented
        if beh == "0":
            return 0
        if beh == "s":
            return "x"
        if beh == "l":
            return []
        if beh == "rb":
            return _BoolRaiser()
        if beh == "VE":
            raise ValueError(slot)
        if beh == "TE":
            raise TypeError(slot)
        if beh == "ZE":
            raise ZeroDivisionError(slot)
        if beh == "nan":
            return float("nan")
        if beh == "cmp":
            other = args[0]
            if not hasattr(other, "payload"):
                return NotImplemented
            return opf(self.payload, other.payload)
        if beh.startswith("len"):
            return int(beh[3:])
        if beh == "iter":
            return iter(list(self.items))
        if beh == "has":
            return any(args[0] is x or args[0] == x for x in self.items)
        if beh == "hash":
            return hash(self.payload)
        raise AssertionError(beh)

    method.__name__ = slot
    return method


def get_class(cspec):
    """cspec: {"name":..., "slots": {slot: beh}, "base": None|cspec, "number": bool, "next": bool}"""
    key = repr(cspec)
    if key in _CLASSES:
        return _CLASSES[key]
    base = get_class(cspec["base"]) if cspec.get("base") else object
    ns = {}
    name = cspec["name"]
    for slot, beh in cspec["slots"].items():
        if beh == "none":
            ns[slot] = None            # e.g. __hash__ = None, __contains__ = None
        else:
            ns[slot] = _mk_method(name, slot, beh)
    if "__eq__" in ns and "__hash__" not in ns:
        ns["__hash__"] = None
    if cspec.get("next"):              # a hand-written one-shot iterator

        def __iter__(self):
            LOG.append((name, "__iter__"))
            return self

        def __next__(self):
            LOG.append((name, "__next__"))
            if self.items:
                return self.items.pop(0)
            raise StopIteration

        ns["__iter__"], ns["__next__"] = __iter__, __next__

    def __init__(self, payload=0, items=()):
        self.payload = payload
        self.items = list(items)

    def __repr__(self):
        return f"<{name} {self.payload!r} {self.items!r}>"

    ns["__init__"], ns["__repr__"] = __init__, __repr__
    cls = type(name, (base,), ns)
    if cspec.get("number"):
        numbers.Number.register(cls)
    _CLASSES[key] = cls
    return cls


def build(spec):
    t = spec[0]
    if t == "int":
        return int(spec[1])
    if t == "bool":
        return bool(spec[1])
    if t == "none":
        return None
    if t == "float":
        return float.fromhex(spec[1]) if spec[1] not in ("nan", "inf", "-inf") else float(spec[1])
    if t == "complex":
        return complex(build(["float", spec[1]]), build(["float", spec[2]]))
    if t == "decimal":
        return decimal.Decimal(spec[1])
    if t == "fraction":
        return fractions.Fraction(int(spec[1]), int(spec[2]))
    if t == "str":
        return "".join(chr(c) for c in spec[1])
    if t == "bytes":
        return bytes(spec[1])
    if t == "bytearray":
        return bytearray(spec[1])
    if t == "list":
        return [build(s) for s in spec[1]]
    if t == "tuple":
        return tuple(build(s) for s in spec[1])
    if t == "set":
        return {build(s) for s in spec[1]}
    if t == "frozenset":
        return frozenset(build(s) for s in spec[1])
    if t == "dict":
        return {build(k): build(v) for k, v in spec[1]}
    if t == "range":
        return range(spec[1], spec[2])
    if t == "iter":
        return iter([build(s) for s in spec[1]])
    if t == "gen":
        return (x for x in [build(s) for s in spec[1]])
    if t == "obj":
        return get_class(spec[1])(spec[2], [build(s) for s in spec[3]])
    if t == "plainfn":
        return _PLAIN[spec[1]]
    if t == "wrapsfn":                    # functools.wraps-decorated function
        return _DECORATED[spec[1]]
    if t == "lrufn":                      # lru_cache wrapper
        return _CACHED[spec[1]]
    if t == "staticm":                    # staticmethod object
        return _STATIC[spec[1]]
    if t == "delegating":                 # user wrapper class with a delegate in __wrapped__
        return _Delegating(build(spec[1]), spec[2])
    if t == "exci":                       # exception instance
        return EXC_CLASSES[spec[1]]("boom")
    if t == "excc":                       # exception class
        return EXC_CLASSES[spec[1]]
    if t == "exct":                       # tuple of exception classes (possibly nested)
        return tuple(build(s) for s in spec[1])
    raise AssertionError(spec)


# ---- objects that expose `__wrapped__` without being typetracing proxies -------------------------
import functools as _functools  # noqa: E402


def _plain0(x=0):
    return x


def _plain1(x=1):
    return x + 1


_PLAIN = [_plain0, _plain1]


def _decorate(f):
    @_functools.wraps(f)
    def wrapper(*a, **k):
        return f(*a, **k)
    return wrapper


_DECORATED = [_decorate(f) for f in _PLAIN]
_CACHED = [_functools.lru_cache(maxsize=None)(f) for f in _PLAIN]
_STATIC = [staticmethod(f) for f in _PLAIN]


class _Delegating:
    """a wrapper that keeps its delegate in `__wrapped__` and has its own comparison behaviour:
    mode 0: plain object (identity ==, always true, no `in`); mode 1: falsy; mode 2: equal to nothing,
    contains nothing"""

    def __init__(self, wrapped, mode):
        self.__wrapped__ = wrapped
        self.mode = mode

    def __repr__(self):
        return f"<Delegating {self.__wrapped__!r} mode {self.mode}>"

    def __bool__(self):
        return self.mode != 1

    def __eq__(self, other):
        if self.mode == 2:
            return False
        return self is other

    def __hash__(self):
        return 7

    def __contains__(self, item):
        if self.mode == 2:
            return False
        raise TypeError("not a container")


class _MyErr(Exception):
    pass


class _MySubErr(_MyErr, ValueError):
    pass


class _EmptyErr(Exception):                 # falsy instance: an empty error collection
    def __len__(self):
        return 0


class _FalseErr(ValueError):                # falsy instance
    def __bool__(self):
        return False


class _BoolRaisesErr(LookupError):          # no truth value at all
    def __bool__(self):
        raise RuntimeError("no truth value")


class _EqErr(KeyError):                     # equal to everything
    def __eq__(self, other):
        return True

    def __hash__(self):
        return 1


class _EqRaisesErr(OSError):
    def __eq__(self, other):
        raise RuntimeError("not comparable")

    __hash__ = None


class _AlwaysMeta(type):                    # isinstance / issubclass always say yes
    def __subclasscheck__(cls, sub):
        return True

    def __instancecheck__(cls, inst):
        return True


class _NeverMeta(type):                     # ... always say no
    def __subclasscheck__(cls, sub):
        return False

    def __instancecheck__(cls, inst):
        return False


class _FalsyMeta(type):                     # the class object itself is falsy
    def __bool__(cls):
        return False


class _MetaErr(Exception, metaclass=_AlwaysMeta):
    pass


class _NeverErr(Exception, metaclass=_NeverMeta):
    pass


class _SubNeverErr(_NeverErr):
    pass


class _FalsyClsErr(ArithmeticError, metaclass=_FalsyMeta):
    pass


import abc as _abc  # noqa: E402


class _AbcErr(Exception, metaclass=_abc.ABCMeta):     # ValueError is a *virtual* subclass
    pass


_AbcErr.register(ValueError)

EXC_CLASSES = {
    "ValueError": ValueError, "TypeError": TypeError, "KeyError": KeyError, "LookupError": LookupError,
    "Exception": Exception, "BaseException": BaseException, "OSError": OSError, "IOError": IOError,
    "MyErr": _MyErr, "MySubErr": _MySubErr, "ZeroDivisionError": ZeroDivisionError,
    "ArithmeticError": ArithmeticError, "StopIteration": StopIteration, "KeyboardInterrupt": KeyboardInterrupt,
    "EmptyErr": _EmptyErr, "FalseErr": _FalseErr, "BoolRaisesErr": _BoolRaisesErr, "EqErr": _EqErr,
    "EqRaisesErr": _EqRaisesErr, "MetaErr": _MetaErr, "NeverErr": _NeverErr, "SubNeverErr": _SubNeverErr,
    "FalsyClsErr": _FalsyClsErr, "AbcErr": _AbcErr,
}
EXOTIC_EXC = ["EmptyErr", "FalseErr", "BoolRaisesErr", "EqErr", "EqRaisesErr", "MetaErr", "NeverErr", "SubNeverErr",
              "FalsyClsErr", "AbcErr"]
# bases of the exotic classes, so that matching handlers are frequent
EXC_BASES = {"EmptyErr": ["Exception"], "FalseErr": ["ValueError", "Exception"], "BoolRaisesErr": ["LookupError"],
             "EqErr": ["KeyError", "LookupError"], "EqRaisesErr": ["OSError", "IOError"], "MetaErr": ["Exception"],
             "NeverErr": ["Exception"], "SubNeverErr": ["NeverErr", "Exception"], "FalsyClsErr": ["ArithmeticError"],
             "AbcErr": ["Exception"], "MySubErr": ["MyErr", "ValueError"], "KeyError": ["LookupError"]}


def handler_has_subclasscheck(exc) -> bool:
    """a handler class (or an element of a handler tuple) whose metaclass overrides __subclasscheck__"""
    hs = exc if isinstance(exc, tuple) else (exc,)
    return any(isinstance(h, type) and type(h).__subclasscheck__ is not type.__subclasscheck__ for h in hs)


def is_one_shot(spec) -> bool:
    """the value is an iterator without __contains__: a membership test consumes it"""
    if spec[0] in ("iter", "gen"):
        return True
    if spec[0] == "obj":
        c = spec[1]
        slots = dict(c["slots"])
        b = c.get("base")
        while b:
            slots = {**b["slots"], **slots}
            b = b.get("base")
        has_next = c.get("next") or (c.get("base") or {}).get("next")
        return bool(has_next) and "__contains__" not in slots
    return False


def vclass(spec) -> str:
    t = spec[0]
    if t == "int":
        n = abs(int(spec[1]))
        return "int:huge" if n > 10**308 else "int:big" if n >= 2**53 else "int"
    if t == "float":
        return "float:" + (spec[1] if spec[1] in ("nan", "inf", "-inf") else "fin")
    if t == "obj":
        return "obj"
    if t in ("wrapsfn", "lrufn", "staticm", "delegating"):
        return "has-__wrapped__"
    return t


# ------------------------------------------------------------------------------------------------
F = float.hex
SPECIAL_FLOATS = ["nan", "inf", "-inf", F(0.0), F(-0.0), F(5e-324), F(-5e-324), F(2.0**53), F(2.0**53 + 2),
                  F(1.0), F(-1.0), F(0.5), F(1.5), F(1e308), F(-1e308), F(1.7976931348623157e308),
                  F(0.1), F(0.30000000000000004), F(0.9999999999999999), F(1e16), F(3.0)]
SPECIAL_INTS = [0, 1, -1, 2, 3, 5, 255, 2**53, 2**53 + 1, 2**53 - 1, -(2**53) - 1, 2**63, 2**64 + 1,
                10**400, -(10**400), 10**400 + 1, 10**16, 10**308, 2**1024, 2**1024 - 1]
DECIMALS = ["0", "1", "1.5", "-2", "NaN", "sNaN", "Infinity", "-Infinity", "0.1", "1E+400", "0.5", "0.3"]
STRS = [[], [97], [98], [97, 98], [98, 97], [97, 97], [0x1F600], [0xD800], [97, 0x1F600], [39], [34, 39],
        [65], [97, 98, 99], [120, 97, 98, 121]]


def gen_scalar(rng):
    c = rng.random()
    if c < 0.22:
        return ["int", str(rng.choice(SPECIAL_INTS) + rng.choice([0, 0, 1, -1, 2]))]
    if c < 0.30:
        return ["int", str(rng.randrange(-6, 7))]
    if c < 0.50:
        return ["float", rng.choice(SPECIAL_FLOATS)]
    if c < 0.54:
        return ["float", F(rng.uniform(-4, 4))]
    if c < 0.58:
        return ["bool", rng.random() < 0.5]
    if c < 0.61:
        return ["none"]
    if c < 0.66:
        return ["complex", rng.choice(SPECIAL_FLOATS), rng.choice(SPECIAL_FLOATS)]
    if c < 0.73:
        return ["decimal", rng.choice(DECIMALS)]
    if c < 0.78:
        return ["fraction", str(rng.choice([0, 1, -1, 3, 2**53 + 1, 10**400])), str(rng.choice([1, 2, 3, 7]))]
    if c < 0.90:
        return ["str", list(rng.choice(STRS))]
    if c < 0.96:
        return ["bytes", [x % 256 for x in rng.choice(STRS)]]
    return ["bytearray", [x % 256 for x in rng.choice(STRS)]]


def gen_hashable(rng):
    for _ in range(20):
        s = gen_scalar(rng)
        if s[0] != "bytearray" and s != ["decimal", "sNaN"]:
            return s
    return ["int", "0"]


def gen_class(rng, name):
    slots = {}
    for s in SLOTS:
        if rng.random() < 0.45:
            slots[s] = rng.choice(BEHAVIOURS)
    if rng.random() < 0.35:
        slots["__bool__"] = rng.choice(["T", "F", "VE", "TE", "0"])
    if rng.random() < 0.35:
        slots["__len__"] = rng.choice(["len0", "len1", "len3", "VE", "len-1"])
    if rng.random() < 0.3:
        slots["__contains__"] = rng.choice(["T", "F", "has", "VE", "TE", "0", "s", "none"])
    if rng.random() < 0.3:
        slots["__iter__"] = rng.choice(["iter", "VE", "TE"])
    if "__eq__" in slots and rng.random() < 0.5:
        slots["__hash__"] = "hash"
    c = {"name": name, "slots": slots, "base": None, "number": rng.random() < 0.12, "next": rng.random() < 0.08}
    if c["next"]:
        slots.pop("__iter__", None)
    if c["number"] and rng.random() < 0.6:
        slots["__float__"] = rng.choice(["VE", "s", "nan"])
    return c


def gen_obj(rng, cls=None):
    cls = cls or gen_class(rng, rng.choice(["A", "B"]))
    items = [gen_scalar(rng) for _ in range(rng.choice([0, 0, 1, 3]))]
    return ["obj", cls, rng.randrange(0, 3), items]


def gen_container(rng, member=None):
    kind = rng.choice(["list", "tuple", "set", "frozenset", "dict", "range", "iter", "gen", "str", "list"])
    n = rng.choice([0, 1, 2, 3, 5])
    if kind == "range":
        return ["range", rng.randrange(-2, 2), rng.randrange(0, 6)]
    if kind == "str":
        return ["str", list(rng.choice(STRS))]
    if kind in ("set", "frozenset", "dict"):
        elems = [gen_hashable(rng) for _ in range(n)]
        if member is not None and member != ["decimal", "sNaN"] and member[0] in ("int", "float", "bool", "none", "str", "bytes", "decimal", "fraction", "complex"):
            elems.insert(rng.randrange(len(elems) + 1), member)
        if kind == "dict":
            return ["dict", [[e, ["int", "1"]] for e in elems]]
        return [kind, elems]
    elems = [gen_scalar(rng) if rng.random() < 0.85 else gen_obj(rng) for _ in range(n)]
    if member is not None:
        elems.insert(rng.randrange(len(elems) + 1), member)
    return [kind, elems]


def gen_wrapped(rng):
    """an operand exposing `__wrapped__` that is not a typetracing proxy"""
    c = rng.random()
    if c < 0.5:
        inner = rng.choice([["int", "0"], ["int", "3"], ["list", []], ["list", [["int", "3"]]], ["str", []],
                            ["float", "nan"], ["none"], ["bool", False], ["set", [["int", "1"]]]])
        return ["delegating", inner if rng.random() < 0.7 else gen_scalar(rng), rng.randrange(3)]
    return [rng.choice(["wrapsfn", "lrufn", "staticm"]), rng.randrange(2)]


def gen_value(rng, depth=0):
    c = rng.random()
    if c < 0.05:
        return gen_wrapped(rng)
    if c < 0.62:
        return gen_scalar(rng)
    if c < 0.80:
        return gen_obj(rng)
    if depth < 1 and c < 0.86:
        return ["list", [gen_value(rng, depth + 1) for _ in range(rng.choice([1, 2]))]]
    return gen_container(rng)


def neighbour(rng, spec):
    """a value related to spec (equal copy, off by one, same number in another type, ...)"""
    t = spec[0]
    c = rng.random()
    if t in ("wrapsfn", "lrufn", "staticm") and c < 0.7:
        return ["plainfn", spec[1]]                                       # the function it wraps
    if t == "delegating" and c < 0.7:
        return spec[1]                                                    # its delegate
    if c < 0.3:
        return spec
    if t == "int":
        n = int(spec[1])
        if c < 0.6:
            return ["int", str(n + rng.choice([1, -1, 2]))]
        try:
            return ["float", F(float(n))]
        except OverflowError:
            return ["float", "inf"]
    if t == "float" and spec[1] not in ("nan", "inf", "-inf"):
        x = float.fromhex(spec[1])
        if x == int(x) and c < 0.7:
            return ["int", str(int(x) + rng.choice([0, 0, 1, -1]))]
        import math

        return ["float", F(math.nextafter(x, rng.choice([math.inf, -math.inf])))]
    if t == "str":
        s = list(spec[1])
        if s and c < 0.6:
            s[rng.randrange(len(s))] += rng.choice([1, -1, 3])
            s = [max(0, x) for x in s]
        else:
            s = s + [rng.choice([97, 0x1F600])]
        return ["str", s]
    if t == "obj":
        if c < 0.55:
            return ["obj", spec[1], rng.randrange(0, 3), spec[3]]            # same class
        if c < 0.8:                                                        # a subclass
            sub = gen_class(rng, "S")
            sub["base"] = spec[1]
            sub["next"] = False
            return gen_obj(rng, sub)
    return gen_scalar(rng)


def gen_exc_pair(rng):
    names = list(EXC_CLASSES)
    ename = rng.choice(EXOTIC_EXC) if rng.random() < 0.5 else rng.choice(names)
    err = [rng.choice(["exci", "exci", "excc"]), ename]

    def handler():
        c = rng.random()
        if c < 0.35:
            return ename                                         # the class itself
        if c < 0.6 and ename in EXC_BASES:
            return rng.choice(EXC_BASES[ename])                  # one of its bases
        if c < 0.75:
            return rng.choice(EXOTIC_EXC)
        return rng.choice(names)

    c = rng.random()
    if c < 0.55:
        exc = ["excc", handler()]
    elif c < 0.92:
        exc = ["exct", [["excc", handler()] for _ in range(rng.choice([0, 1, 2, 3]))]]
    else:
        # malformed handlers on which CPython and the tracer both raise TypeError.  `except None:` and
        # nested tuples are not generated: CPython rejects them when the handler is reached, while
        # given_exception_matches (pinned by tests/utils/test_type_utils.py) answers False / recurses;
        # malformed handlers are outside the property's quantifier.
        exc = rng.choice([["int", "5"], ["str", [97]], ["tuple", [["int", "1"]]]])
    return err, exc
