"""C24 — exported tests round-trip through the seed parser.

T  static proofs: parse o render on assertion forms, whole-function round trip (partial: names in scope),
   refutation for names the parser does not know.
K2 (a) assertion forms rendered by the real assertion_to_cst and parsed by the real parse_assertion /
       _RootNameCollector, compared with the model's classify in Coq;
   (b) functions written by the real TestSuiteWriter (stub suites), parsed by the real
       CstStatementDeserializer, compared with the model's deserialize in Coq.
S  whole files: stub suites and real generations -> export -> parse_seed_module(create_assertions=True)
   -> re-render -> diff of every function body (modulo SUT-reference normalisation).
"""
from __future__ import annotations

import ast
import concurrent.futures as cf
import json
import os
import shutil
import subprocess
import sys
from pathlib import Path

import vlib

sys.path.insert(0, str(Path(__file__).resolve().parent))
import _c18_stub as S  # noqa: E402
import _c24_lib as T  # noqa: E402

SRC = ["src/pynguin/analyses/seeding.py", "src/pynguin/large_language_model/parsing/deserializer.py",
       "src/pynguin/testcase/export.py", "src/pynguin/assertion/assertion_to_ast.py"]
SUT_DIR = vlib.VERIF / "corpus" / "C18" / "sut"
SUT_MODULES = ["numeric", "strings", "containers", "state", "enums", "floats", "rnd", "errors", "shapes.area", "foreign", "exits", "kwclash", "declared", "rndkey", "summary", "testnames", "nestedexc", "shadow"]
MODES = ["MUTATION_ANALYSIS", "SIMPLE", "SIMPLE", "CHECKED_MINIMIZING"]
GEN = str(Path(__file__).resolve().parent / "_c18_gen.py")
MODULE = "c18stub"
ALIAS = "c18stub_"
HEADER = ("import pytest\nimport sys\nimport c18stub\nc18stub_ = sys.modules['c18stub']\n"
          "from c18stub import Box, Color, LIMIT, StubError, boom, decimal, enum, fl, hidden_shade, json, lst, ok, shade, text\n")

PLAIN = [5, -3, 0, "s", "it's", b"x", [1, 2], (1,), (), {"a": 1}, set(), {1, 2}, [], 10**12, [[1], ("a", None)], {1: [True]}]


def gen_form(rng):
    """(form tuple, python assertion spec).  Names: var_7 (the asserted variable), attribute `ratio`."""
    v = rng.choice([0, 3, 7])
    shape = rng.choice(["SVar", "SVar", "SDot", "SAlias"])
    kind = rng.choice(["Object", "Object", "Float", "TypeName", "IsInstanceB", "IsInstanceM", "Len"])
    attr = rng.choice(["ratio", "items", "color"])
    src_text = {"SVar": f"var_{v}", "SDot": f"var_{v}.{attr}", "SAlias": f"{ALIAS}.LIMIT"}[shape]
    d = {"kind": kind, "src": src_text, "shape": shape, "var": v, "attr": attr}
    if kind == "Object":
        d["vclass"] = rng.choice(["VNoneBool", "VPlain", "VPlain", "VDeep", "VEnum", "VCall"])
        d["value"] = {"VNoneBool": rng.choice([None, True, False]), "VPlain": rng.choice(PLAIN), "VDeep": [[[[[[1]]]]]],
                      "VEnum": rng.choice(["RED", "GREEN"]), "VCall": rng.choice(["inf", "-inf"])}[d["vclass"]]
    elif kind == "Float":
        d["value"] = rng.choice([1.5, 0.0, -2.25, 1e300, "inf", "nan"])
    elif kind == "IsInstanceB":
        d["type"] = rng.choice(["int", "list", "dict", "str", "float"])
    elif kind == "IsInstanceM":
        d["type"] = rng.choice(["Box", "Color", "Box.Inner", "A.B.C"])
    elif kind == "Len":
        d["n"] = rng.choice([0, 1, 17])
    d["known"] = rng.random() < 0.8
    return d


def eval_form(d, deser_ambient):
    """Render with the real renderer, parse with the real parser.  -> (form, observed code, observed form)"""
    import importlib

    import libcst as cst
    import pynguin.assertion.assertion as ass
    from pynguin.assertion.assertion_to_ast import assertion_to_cst
    from pynguin.large_language_model.parsing.deserializer import _RootNameCollector, normalize_sut_references, parse_assertion

    mod = importlib.import_module(MODULE)
    k = d["kind"]
    if k == "Object":
        val = d["value"]
        if d["vclass"] == "VEnum":
            val = getattr(mod.Color, val)
        elif d["vclass"] == "VCall":
            val = float(val)
        a = ass.ObjectAssertion(d["src"], val)
    elif k == "Float":
        a = ass.FloatAssertion(d["src"], float(d["value"]))
    elif k == "TypeName":
        a = ass.TypeNameAssertion(d["src"], "decimal", "Decimal")
    elif k == "IsInstanceB":
        a = ass.IsInstanceAssertion(d["src"], "builtins", d["type"])
    elif k == "IsInstanceM":
        a = ass.IsInstanceAssertion(d["src"], MODULE, d["type"])
    else:
        a = ass.CollectionLengthAssertion(d["src"], d["n"])
    node = assertion_to_cst(a)
    text = cst.Module(body=[node]).code
    module = cst.parse_module(HEADER + "def test_x():\n    " + text)
    normalized = normalize_sut_references(module, MODULE, ALIAS)
    fn = [n for n in normalized.body if isinstance(n, cst.FunctionDef)][0]
    line = fn.body.body[0]
    assert_node = line.body[0]
    var = f"var_{d['var']}"
    known_vars = {var: None} if d["known"] else {}
    parsed = parse_assertion(assert_node, known_vars)
    codes = T.Codes()
    form = T.form_of_assert(ast.parse(cst.Module(body=[line]).code).body[0], ALIAS, codes)
    rerendered = None
    if parsed is not None:
        obs = (0, T.form_of_assertion(parsed[1], codes))
        # direct oracle at form level: what was lifted must render to the same code
        again = cst.parse_module(HEADER + "def test_x():\n    " + cst.Module(body=[assertion_to_cst(parsed[1])]).code)
        again = normalize_sut_references(again, MODULE, ALIAS)
        fn2 = [n for n in again.body if isinstance(n, cst.FunctionDef)][0]
        a1 = ast.dump(ast.parse(cst.Module(body=[line]).code).body[0])
        a2 = ast.dump(ast.parse(cst.Module(body=[fn2.body.body[0]]).code).body[0])
        if a1 != a2:
            rerendered = cst.Module(body=[fn2.body.body[0]]).code.strip()
    else:
        names = _RootNameCollector.collect(line)
        obs = (1 if names <= (deser_ambient | set(known_vars)) else 2, None)
    return form, obs, text.strip(), rerendered


def e2e_job(job, repo, scratch):
    module, seed, mode, no_xfail = job
    out = Path(scratch) / f"e2e-{module}-{seed}-{mode}-{int(no_xfail)}"
    shutil.rmtree(out, ignore_errors=True)
    out.mkdir(parents=True)
    a = {"repo": str(repo), "project": str(SUT_DIR), "module": module, "seed": seed, "mode": mode,
         "no_xfail": no_xfail, "out": str(out), "iterations": 6, "roundtrip": True}
    env = dict(os.environ, PYTHONHASHSEED="0", PYTHONPATH=str(Path(__file__).resolve().parents[1]))
    try:
        r = subprocess.run([sys.executable, GEN, json.dumps(a)], capture_output=True, text=True, timeout=400, env=env)
    except subprocess.TimeoutExpired:
        return {"job": job, "status": "timeout"}
    line = [ln for ln in r.stdout.splitlines() if ln.startswith("RESULT ")]
    if not line:
        return {"job": job, "status": "crash", "detail": r.stderr[-600:]}
    res = json.loads(line[-1][7:])
    if not res["file"]:
        return {"job": job, "status": "nofile", "errors": res["errors"]}
    rt = res.get("roundtrip") or {}
    if "crash" in rt:
        return {"job": job, "status": "roundtrip-crash", "detail": rt, "src": Path(res["file"]).read_text()}
    return {"job": job, "status": "ok", "rt": rt, "src": Path(res["file"]).read_text()}


def judge(rt) -> list[tuple[str, str, dict]]:
    bad = []
    if not rt.get("entry_point_consistent", True):
        bad.append(("roundtrip:entry-point-differs", "parse_seed_module and the per-function deserializer disagree", {}))
    for f in rt["functions"]:
        for sig, msg in f["diffs"]:
            bad.append((sig, f"{f['name']}: {msg}", {"function": f["name"], "exported": f["orig"], "re_rendered": f["new"]}))
    return bad


def run(ctx: vlib.Ctx):
    vlib.setup_impl_path()
    ctx.digest_sources(SRC)
    ctx.coq_static()
    if not ctx.quick:
        ctx.coqchk()
    scratch = ctx.mkscratch()
    rng = ctx.rng
    S._setup_paths()  # noqa: SLF001
    import pynguin.configuration as config
    from pynguin.analyses.module import generate_test_cluster
    from pynguin.large_language_model.parsing.deserializer import CstStatementDeserializer

    config.configuration.module_name = MODULE
    cluster = generate_test_cluster(MODULE)
    T._CLUSTERS[MODULE] = cluster  # noqa: SLF001
    ambient = set(CstStatementDeserializer(cluster, create_assertions=True)._ambient_names)  # noqa: SLF001
    corpus = json.loads((vlib.VERIF / "corpus" / "C24.json").read_text())
    seen_sig = set()
    cases, meta = [], []

    # ---- K2a: assertion forms -------------------------------------------------------------------
    forms = [c["form"] for c in corpus if c.get("kind") == "form"]
    for _ in range(300 if ctx.quick else 3000):
        forms.append(gen_form(rng))
    n_skip = 0
    for d in forms:
        try:
            form, obs, text, rerendered = eval_form(d, ambient)
        except Exception as e:  # noqa: BLE001  (value rendering failures are C20's subject)
            n_skip += 1
            ctx.count("form:render-failed:" + type(e).__name__)
            continue
        ctx.case_seen(("form", json.dumps(d, sort_keys=True, default=repr)))
        ctx.count(f"form:{d['kind']}:{d['shape']}:{'known' if d['known'] else 'unknown'}")
        ctx.count("form:verdict:" + ["lifted", "raw", "dropped"][obs[0]])
        if form is None:
            ctx.broken("form-recogniser", "the harness does not recognise a rendered assertion shape", {"text": text, "form": d})
            continue
        if obs[0] == 2 and d["known"]:
            sig = f"roundtrip:assertion-dropped:{T.assert_shape(ast.parse(text).body[0])}"
            if sig not in seen_sig:
                seen_sig.add(sig)
                ctx.fail(sig, f"rendered assertion `{text}` is dropped by the seed parser although its variable is in scope",
                         {"kind": "form", "form": d, "rendered": text})
        if rerendered is not None:
            sig = f"roundtrip:assertion-changed:{T.assert_shape(ast.parse(text).body[0])}"
            if sig not in seen_sig:
                seen_sig.add(sig)
                ctx.fail(sig, f"rendered assertion `{text}` is parsed into an assertion that renders `{rerendered}`",
                         {"kind": "form", "form": d, "rendered": text, "re_rendered": rerendered})
        lifted = "None" if obs[1] is None else f"(Some {T.c_form(obs[1])})"
        cases.append(f"C24.CForm ({T.c_form(form)}, {'true' if d['known'] else 'false'}, ({obs[0]}%N, {lifted}))")
        meta.append({"kind": "form", "form": d, "rendered": text, "observed": obs})
    ctx.log(f"forms evaluated: {len(forms)} ({n_skip} not renderable)")

    # ---- K2b + S: stub suites written by the real writer, parsed back ----------------------------
    specs = [c["spec"] for c in corpus if c.get("kind") == "stub"]
    for _ in range(80 if ctx.quick else 500):
        specs.append(S.gen_suite(rng))
    n_funcs = n_fail = 0
    tot = {"asserts": 0, "lifted": 0, "statements": 0}
    for i, sp in enumerate(specs):
        d = scratch / f"stub{i}"
        os.makedirs(d, exist_ok=True)
        _, src, _ = S.write_suite(sp, str(d))
        shutil.rmtree(d, ignore_errors=True)
        ctx.case_seen(("stub", json.dumps(sp, sort_keys=True)), nontrivial=any(sp["tests"]))
        rt = T.roundtrip_file(src, sp["module"])
        for f in rt["functions"]:
            n_funcs += 1
            for k in tot:
                tot[k] += f[k]
            for sh, n in f["shapes"].items():
                ctx.count("stub:assert-shape:" + sh, n)
        for sig, msg, detail in judge(rt):
            n_fail += 1
            if sig not in seen_sig:
                seen_sig.add(sig)
                ctx.fail(sig, msg, {"kind": "file", "module": sp["module"], "written_file": src, **detail})
        for r in T.tc_cases(src, sp["module"]):
            if not r["matched"]:
                ctx.count("stub:observed-statement-not-in-export")
            cases.append(r["term"])
            meta.append({"kind": "function", "module": sp["module"], "function": r["name"], "written_file": src})
    ctx.leg("S-stub", files=len(specs), functions=n_funcs, differences=n_fail, **tot)
    ctx.log(f"stub suites round-tripped: {len(specs)} files, {n_funcs} functions")

    bad_idx = ctx.run_cases("C24_cases", "From Verif Require Import Models.C24.", "C24.case", "C24.check_case", cases, shard=150)
    if bad_idx is None:
        pass
    elif bad_idx:
        ctx.leg("K2", ok=False, mismatches=len(bad_idx))
        known = vlib.load_findings(ctx.pid)
        if not [f for f in ctx.failures if f.kind == "input" and vlib.match_finding(known, f.signature) is None]:
            ctx.broken("correspondence:C24-parser-model",
                       "the seed-parser model (about which the theorems are proved) no longer predicts what the real "
                       "parse_assertion / CstStatementDeserializer does with Pynguin's own output",
                       {"first": meta[bad_idx[0]], "mismatching_cases": len(bad_idx),
                        "kinds": sorted({meta[i]["kind"] for i in bad_idx})})
    else:
        ctx.leg("K2", ok=True, cases=len(cases))
    ctx.log("model evaluated")

    # ---- S: real generations ---------------------------------------------------------------------
    jobs = [tuple(c["job"]) for c in corpus if c.get("kind") == "e2e"]
    limit = os.environ.get("VERIF_E2E_LIMIT")
    if ctx.quick:
        for m in SUT_MODULES:
            jobs.append((m, rng.randrange(1, 10**6), rng.choice(MODES), rng.random() < 0.3))
    else:
        for m in SUT_MODULES:
            for mode in MODES:
                for _ in range(2):
                    jobs.append((m, rng.randrange(1, 10**6), mode, rng.random() < 0.3))
    jobs = list(dict.fromkeys(jobs))
    if limit is not None:
        jobs = jobs[: int(limit)]
    stats = {"ok": 0}
    etot = {"asserts": 0, "lifted": 0, "statements": 0, "functions": 0}
    e_fail = 0
    with cf.ThreadPoolExecutor(max_workers=8 if ctx.quick else 12) as ex:
        for res in ex.map(lambda j: e2e_job(j, ctx.repo, scratch), jobs):
            stats[res["status"]] = stats.get(res["status"], 0) + 1
            job = res["job"]
            ctx.count("e2e:module:" + job[0])
            ctx.count("e2e:" + res["status"])
            if res["status"] == "roundtrip-crash":
                sig = "roundtrip:parser-crash"
                if sig not in seen_sig:
                    seen_sig.add(sig)
                    ctx.fail(sig, f"parse_seed_module / re-rendering crashed on an exported file: {res['detail'].get('crash')}",
                             {"kind": "file", "module": job[0], "job": list(job), "written_file": res["src"], "detail": res["detail"]})
                continue
            if res["status"] != "ok":
                continue
            rt = res["rt"]
            ctx.case_seen(("e2e", res["src"]), nontrivial=bool(rt["functions"]))
            for f in rt["functions"]:
                etot["functions"] += 1
                for k in ("asserts", "lifted", "statements"):
                    etot[k] += f[k]
                for sh, n in f["shapes"].items():
                    ctx.count("e2e:assert-shape:" + sh, n)
            for sig, msg, detail in judge(rt):
                e_fail += 1
                if sig not in seen_sig:
                    seen_sig.add(sig)
                    ctx.fail(sig, msg, {"kind": "file", "module": job[0], "job": list(job), "written_file": res["src"], **detail})
            if len(ctx.cov["samples"]) < 3 and rt["functions"]:
                f0 = rt["functions"][0]
                ctx.sample({"e2e_job": list(job), "exported": f0["orig"][:8], "re_rendered": f0["new"][:8]})
    ctx.leg("S-e2e", jobs=len(jobs), differences=e_fail, **stats, **{"total_" + k: v for k, v in etot.items()})
    ctx.log("real generations round-tripped")
    if jobs and stats.get("ok", 0) == 0:
        ctx.broken("e2e-no-runs", "no real generation produced a test file that could be round-tripped", stats)
    ctx.cov["rule"] = ("forms: random (kind x source shape x value class x variable in scope), distinct = distinct spec; "
                       "stub files: random suites through the real writer; e2e: real generations; a file is non-trivial "
                       "when it has a test function with a statement; distinct = distinct file text")
    ctx.assumptions += [
        "function bodies are compared after SUT-reference normalisation (`Color.RED` and `alias.Color.RED` are the same "
        "reference in the exported file) and as syntax trees (layout/black formatting ignored); decorators are not part "
        "of a test case",
        "literal text is atomic: literal_eval/is_assertable classify it (value rendering is C20/C23)",
        "an empty exported function (`pass`) yields no test case; that is not counted as a loss",
    ]
    ctx.cov["trusted_base"] += [
        "hand-written model Models/C24.v tied by the form and function correspondences of this run",
        "harness/props/_c24_lib.py (ast diff, structural recogniser of rendered assertion shapes), _c18_stub.py",
        "libcst, ast.literal_eval: outside the model",
    ]
    ctx.notes.append(f"assertions lifted back into Assertion objects: stub {tot['lifted']}/{tot['asserts']}, "
                     f"e2e {etot['lifted']}/{etot['asserts']} (the rest are kept as raw assert statements that render identically)")


def replay(ctx, path):
    vlib.setup_impl_path()
    S._setup_paths()  # noqa: SLF001
    sys.path.insert(0, str(SUT_DIR))
    d = json.loads(open(path).read())["replay"]
    if d["kind"] == "form":
        import pynguin.configuration as config
        from pynguin.analyses.module import generate_test_cluster
        from pynguin.large_language_model.parsing.deserializer import CstStatementDeserializer

        config.configuration.module_name = MODULE
        amb = set(CstStatementDeserializer(generate_test_cluster(MODULE), create_assertions=True)._ambient_names)  # noqa: SLF001
        form, obs, text, rerendered = eval_form(d["form"], amb)
        print("re-rendered differently:", rerendered)
        print("rendered:", text, "\nverdict (0 lifted, 1 raw, 2 dropped):", obs)
        lifted = "None" if obs[1] is None else f"(Some {T.c_form(obs[1])})"
        print("model agrees:", ctx.coq_eval("From Verif Require Import Models.C24.",
              f"C24.check_case (C24.CForm ({T.c_form(form)}, {'true' if d['form']['known'] else 'false'}, ({obs[0]}%N, {lifted})))"))
    else:
        rt = T.roundtrip_file(d["written_file"], d["module"])
        for f in rt["functions"]:
            print(f["name"], f["diffs"])
            if f["diffs"]:
                print("  exported   :", f["orig"])
                print("  re-rendered:", f["new"])
    return 0
