"""C10 — fitness / coverage / covered verdicts agree.
T: static proofs (Proofs/C10.v).  K1a: fitness_metrics.py translated by py2v on every run, tie file
coq/dyn/C10_tie.v re-checked against it.  K2: random valid traces/registries through the real metric
functions and goals, compared with the model inside Coq.  TR: traces and values of real search runs.
S: the property's clauses asserted directly on the implementation's answers."""
from __future__ import annotations

import json
import math
import shutil
from fractions import Fraction
from types import SimpleNamespace

import pipeline
import py2v
import vlib
from vlib import cZ, cbool, clist, cpair

SRC = ["src/pynguin/ga/fitness_metrics.py", "src/pynguin/ga/coveragegoals.py",
       "src/pynguin/utils/controlflowdistance.py", "src/pynguin/ga/computations.py"]
T, R, S = "trace", "registry", "idset"
SIGS = {
    "normalise": ([("value", "dist")], "Q"),
    "_predicate_fitness": ([("predicate", "Z"), ("branch_distances", "ddist"), ("trace", T)], "Q"),
    "compute_branch_distance_fitness": ([("trace", T), ("subject_properties", R), ("exclude_code", S),
                                         ("exclude_true", S), ("exclude_false", S)], "Q"),
    "compute_branch_distance_fitness_is_covered": ([("trace", T), ("subject_properties", R), ("exclude_code", S),
                                                    ("exclude_true", S), ("exclude_false", S)], "bool"),
    "compute_line_coverage_fitness_is_covered": ([("trace", T), ("subject_properties", R)], "bool"),
    "compute_checked_coverage_statement_fitness_is_covered": ([("trace", T), ("subject_properties", R)], "bool"),
    "compute_branch_coverage": ([("trace", T), ("subject_properties", R)], "Q"),
    "compute_line_coverage": ([("trace", T), ("subject_properties", R)], "Q"),
}
DISTS = [0.0, 0.0, 1.0, 0.5, 3.0, 5e-324, 1e308, 2.5e-10, 7.25, math.inf, 1e16, 0.1]


# ---------------------------------------------------------------------------------------------
def cQ(x) -> str:
    if isinstance(x, float) and not math.isfinite(x):
        return "(-1 # 1)%Q"   # NaN / inf results never agree with the (non-negative, finite) model value
    f = Fraction(x)
    return f"({f.numerator} # {f.denominator})%Q"


def cdist(x: float) -> str:
    return "C10.Inf" if math.isinf(x) else f"(C10.Fin {cQ(x)})"


def c_trace(t) -> str:
    return ("{| C10.exec_code := %s; C10.exec_pred := %s; C10.true_d := %s; C10.false_d := %s; "
            "C10.cov_lines := %s; C10.chk_lines := %s |}") % (
        clist(cZ(c) for c in t["code"]), clist(cpair(cZ(k), cZ(v)) for k, v in t["pred"]),
        clist(cpair(cZ(k), cdist(v)) for k, v in t["td"]), clist(cpair(cZ(k), cdist(v)) for k, v in t["fd"]),
        clist(cZ(c) for c in t["cov"]), clist(cZ(c) for c in t["chk"]))


def c_reg(r) -> str:
    return "{| C10.branchless := %s; C10.predicates := %s; C10.lines := %s |}" % (
        clist(cZ(c) for c in r["branchless"]), clist(cZ(c) for c in r["predicates"]), clist(cZ(c) for c in r["lines"]))


def c_case(c) -> str:
    goals = clist(
        "{| C10Corr.g_pred := %s; C10Corr.g_value := %s; C10Corr.g_code := %s; C10Corr.g_diameter := %s; "
        "C10Corr.g_paths := %s; C10Corr.g_fitness := %s; C10Corr.g_covered := %s |}" % (
            cZ(g["p"]), cbool(g["value"]), cZ(g["code"]), cZ(g["diameter"]),
            clist(cpair(cZ(e), cZ(n)) for e, n in g["paths"]), cQ(g["fitness"]), cbool(g["covered"]))
        for g in c["goals"])
    return ("{| C10Corr.s_trace := %s; C10Corr.s_reg := %s; C10Corr.s_ec := %s; C10Corr.s_et := %s; C10Corr.s_ef := %s; "
            "C10Corr.s_valid := %s; C10Corr.s_fitness := %s; C10Corr.s_covered := %s; C10Corr.s_bcov := %s; "
            "C10Corr.s_lcov := %s; C10Corr.s_lcovd := %s; C10Corr.s_ccovd := %s; C10Corr.s_lfit := %s; C10Corr.s_cfit := %s; C10Corr.s_ccov := %s; "
            "C10Corr.s_norm := %s; C10Corr.s_goals := %s; C10Corr.s_line_goals := %s; C10Corr.s_code_goals := %s |}") % (
        c_trace(c["trace"]), c_reg(c["reg"]), clist(cZ(x) for x in c["ec"]), clist(cZ(x) for x in c["et"]),
        clist(cZ(x) for x in c["ef"]), cbool(c["valid"]), cQ(c["fitness"]), cbool(c["covered"]), cQ(c["bcov"]),
        cQ(c["lcov"]), cbool(c["lcovd"]), cbool(c["ccovd"]), cZ(c["lfit"]), cZ(c["cfit"]), cQ(c["ccov"]),
        clist(cpair(cdist(d), cQ(q)) for d, q in c["norm"]), goals,
        clist(cpair(cZ(l), cbool(b)) for l, b in c["line_goals"]),
        clist(cpair(cpair(cZ(cid), cbool(b)), cQ(f)) for cid, b, f in c["code_goals"]))


# ---------------------------------------------------------------------------------------------
def gen_case(rng):
    nc, npred, nl = rng.choice([1, 2, 3, 4]), rng.choice([0, 1, 2, 3, 5]), rng.choice([0, 1, 3, 6])
    pred_code = {p: rng.randrange(nc) for p in range(npred)}
    diam = {c: rng.choice([1, 1, 2, 3, 5]) for c in range(nc)}
    edges = {c: [] for c in range(nc)}
    for c in range(nc):
        ps = [p for p in range(npred) if pred_code[p] == c]
        for i, a in enumerate(ps):
            for b in ps[i + 1:]:
                if rng.random() < 0.5:
                    edges[c].append((a, b))
    full = rng.random() < 0.25
    code = [c for c in range(nc) if full or rng.random() < 0.6]
    if rng.random() < 0.15:
        code.append(99)  # the import trace may mention a code object outside the registry
    rng.shuffle(code)
    execd = [p for p in range(npred) if pred_code[p] in code and (full or rng.random() < 0.7)]
    rng.shuffle(execd)
    pred, td, fd = [], [], []
    for p in execd:
        cnt = rng.choice([1, 1, 2, 3, 7])
        mode = rng.random()
        if full or mode < 0.25:
            a, b = 0.0, 0.0
        elif mode < 0.6:
            a, b = 0.0, rng.choice([d for d in DISTS if d > 0])
        elif mode < 0.9:
            a, b = rng.choice([d for d in DISTS if d > 0]), 0.0
        else:
            a, b = rng.choice([d for d in DISTS if d > 0]), rng.choice([d for d in DISTS if d > 0])
        pred.append((p, cnt)); td.append((p, a)); fd.append((p, b))
    lines = list(range(nl))
    cov = [l for l in lines if full or rng.random() < 0.5]
    chk = [l for l in cov if rng.random() < 0.5]
    rng.shuffle(cov)

    def sub(xs, p=0.25):
        return [x for x in xs if rng.random() < p] if rng.random() < 0.4 else []
    return dict(nc=nc, pred_code=pred_code, diam=diam, edges=edges, nl=nl,
                trace=dict(code=code, pred=pred, td=td, fd=fd, cov=cov, chk=chk),
                ec=sub(range(nc)), et=sub(range(npred)), ef=sub(range(npred)))


def build_real(case):
    import networkx as nx
    from pynguin.instrumentation.tracer import ExecutionTrace, PredicateMetaData, SubjectProperties
    from pynguin.utils.orderedset import OrderedSet

    sp = SubjectProperties()
    graphs = {}
    for c in range(case["nc"]):
        g = nx.DiGraph()
        for p, pc in case["pred_code"].items():
            if pc == c:
                g.add_node(1000 + p)
        g.add_edges_from((1000 + a, 1000 + b) for a, b in case["edges"][c])
        graphs[c] = g
        sp.existing_code_objects[c] = SimpleNamespace(cfg=SimpleNamespace(diameter=case["diam"][c]),
                                                      cdg=SimpleNamespace(graph=g))
    for p, pc in case["pred_code"].items():
        sp.existing_predicates[p] = PredicateMetaData(line_no=1, code_object_id=pc, node=1000 + p)
    for l in range(case["nl"]):
        sp.existing_lines[l] = SimpleNamespace(file_name="x.py", line_number=l + 1)
    t = case["trace"]
    tr = ExecutionTrace()
    tr.executed_code_objects = OrderedSet(t["code"])
    tr.executed_predicates = dict(t["pred"])
    tr.true_distances = dict(t["td"])
    tr.false_distances = dict(t["fd"])
    tr.covered_line_ids = OrderedSet(t["cov"])
    tr.checked_lines = OrderedSet(t["chk"])
    return sp, tr, graphs


def observe(sp, tr, ec, et, ef, goal_specs, graphs):
    """Run the real metric functions; returns the case dict (implementation's answers)."""
    import networkx as nx
    import pynguin.ga.fitness_metrics as fm
    import pynguin.ga.coveragegoals as bg
    from pynguin.ga.computations import LineTestSuiteFitnessFunction  # noqa: F401  (import check)

    res = SimpleNamespace(execution_trace=tr)
    reg = dict(branchless=list(sp.branch_less_code_objects), predicates=list(sp.existing_predicates),
               lines=list(sp.existing_lines))
    trace = dict(code=list(tr.executed_code_objects), pred=list(tr.executed_predicates.items()),
                 td=list(tr.true_distances.items()), fd=list(tr.false_distances.items()),
                 cov=list(tr.covered_line_ids), chk=list(tr.checked_lines))
    out = dict(trace=trace, reg=reg, ec=list(ec), et=list(et), ef=list(ef), valid=True)
    try:
        out["fitness"] = fm.compute_branch_distance_fitness(tr, sp, set(ec) or None, set(et) or None, set(ef) or None)
    except Exception as e:  # noqa: BLE001 - the property demands a finite value; raising is a violation
        out["fitness"] = math.nan
        out["fitness_error"] = f"{type(e).__name__}: {e}"
    out["covered"] = fm.compute_branch_distance_fitness_is_covered(tr, sp, set(ec) or None, set(et) or None, set(ef) or None)
    out["bcov"] = fm.compute_branch_coverage(tr, sp)
    out["lcov"] = fm.compute_line_coverage(tr, sp)
    out["lcovd"] = fm.compute_line_coverage_fitness_is_covered(tr, sp)
    out["ccovd"] = fm.compute_checked_coverage_statement_fitness_is_covered(tr, sp)
    # the fitness / coverage function CLASSES of computations.py, driven with a stub suite that holds this trace
    import pynguin.ga.computations as comp

    class _StubTC:
        changed = False
        test_case = None

        def get_last_execution_result(self):
            return res

    stub_tc = _StubTC()
    suite = SimpleNamespace(test_case_chromosomes=[stub_tc])
    executor = SimpleNamespace(subject_properties=sp, execute_multiple=lambda tcs: [], execute=lambda tc: res)
    out["lfit"] = comp.LineTestSuiteFitnessFunction(executor).compute_fitness(suite)
    out["cfit"] = comp.StatementCheckedTestSuiteFitnessFunction(executor).compute_fitness(suite)
    out["ccov"] = comp.TestSuiteStatementCheckedCoverageFunction(executor).compute_coverage(suite)
    api = {
        "suite_branch_fitness": comp.BranchDistanceTestSuiteFitnessFunction(executor).compute_fitness(suite),
        "suite_branch_covered": comp.BranchDistanceTestSuiteFitnessFunction(executor).compute_is_covered(suite),
        "suite_branch_cov": comp.TestSuiteBranchCoverageFunction(executor).compute_coverage(suite),
        "suite_line_cov": comp.TestSuiteLineCoverageFunction(executor).compute_coverage(suite),
        "suite_line_covered": comp.LineTestSuiteFitnessFunction(executor).compute_is_covered(suite),
        "suite_checked_covered": comp.StatementCheckedTestSuiteFitnessFunction(executor).compute_is_covered(suite),
        "tc_branch_fitness": comp.BranchDistanceTestCaseFitnessFunction(executor, 0).compute_fitness(stub_tc),
        "tc_branch_covered": comp.BranchDistanceTestCaseFitnessFunction(executor, 0).compute_is_covered(stub_tc),
        "tc_branch_cov": comp.TestCaseBranchCoverageFunction(executor).compute_coverage(stub_tc),
        "tc_line_cov": comp.TestCaseLineCoverageFunction(executor).compute_coverage(stub_tc),
        "tc_checked_cov": comp.TestCaseStatementCheckedCoverageFunction(executor).compute_coverage(stub_tc),
    }
    # restrict(): exclusions accumulate on the restricted instance and on no other instance
    f_before = comp.BranchDistanceTestSuiteFitnessFunction(executor)
    f_restricted = comp.BranchDistanceTestSuiteFitnessFunction(executor)
    all_code, all_pred = list(sp.branch_less_code_objects), list(sp.existing_predicates)
    f_restricted.restrict(set(all_code[::2]), set(all_pred[::2]), set(all_pred[1::2]))
    half = dict(ec=set(all_code[::2]), et=set(all_pred[::2]), ef=set(all_pred[1::2]))
    api["restricted_half_fitness"] = f_restricted.compute_fitness(suite)
    api["restricted_half_expected"] = fm.compute_branch_distance_fitness(tr, sp, half["ec"], half["et"], half["ef"])
    f_restricted.restrict(set(all_code), set(all_pred), set(all_pred))
    api["restricted_all_fitness"] = f_restricted.compute_fitness(suite)
    api["restricted_all_covered"] = f_restricted.compute_is_covered(suite)
    f_after = comp.BranchDistanceTestSuiteFitnessFunction(executor)
    api["unrestricted_expected"] = fm.compute_branch_distance_fitness(tr, sp, None, None, None)
    api["unrestricted_before"] = f_before.compute_fitness(suite)
    api["unrestricted_after"] = f_after.compute_fitness(suite)
    api["unrestricted_after_covered"] = f_after.compute_is_covered(suite)
    api["unrestricted_expected_covered"] = fm.compute_branch_distance_fitness_is_covered(tr, sp, None, None, None)
    # chromosome level: what a suite reports must not change when a clone of it is changed and evaluated
    import pynguin.ga.testsuitechromosome as tsc
    from pynguin.instrumentation.tracer import ExecutionTrace
    from pynguin.utils.orderedset import OrderedSet

    full = ExecutionTrace()
    full.executed_code_objects = OrderedSet(sp.existing_code_objects)
    full.executed_predicates = dict.fromkeys(sp.existing_predicates, 2)
    full.true_distances = dict.fromkeys(sp.existing_predicates, 0.0)
    full.false_distances = dict.fromkeys(sp.existing_predicates, 0.0)
    full.covered_line_ids = OrderedSet(sp.existing_lines)
    res_full = SimpleNamespace(execution_trace=full)

    class _StubTCC:
        changed = False
        test_case = None

        def __init__(self, result):
            self._result = result

        def get_last_execution_result(self):
            return self._result

        def clone(self):
            return _StubTCC(self._result)

    def values(chrom):
        return [chrom.get_fitness(), chrom.get_coverage(), chrom.get_is_covered(chrom.get_fitness_functions()[0]),
                chrom.get_coverage_for(chrom.get_coverage_functions()[0]), chrom.get_coverage_for(chrom.get_coverage_functions()[1])]

    parent = tsc.TestSuiteChromosome()
    parent.add_fitness_function(comp.BranchDistanceTestSuiteFitnessFunction(executor))
    parent.add_coverage_function(comp.TestSuiteBranchCoverageFunction(executor))
    parent.add_coverage_function(comp.TestSuiteLineCoverageFunction(executor))
    parent.add_test_case_chromosome(_StubTCC(res))
    try:
        before = values(parent)
        child = parent.clone()
        child.add_test_case_chromosome(_StubTCC(res_full))
        child_vals = values(child)
        after = values(parent)
        grand = child.clone()
        grand_vals = values(grand)
        api["chrom"] = dict(before=before, after=after, child=child_vals, grand=grand_vals,
                            expected=[api["unrestricted_expected"], (out["bcov"] + out["lcov"]) / 2,
                                      bool(api["unrestricted_expected_covered"]), out["bcov"], out["lcov"]])
    except Exception as e:  # noqa: BLE001
        api["chrom"] = dict(error=f"{type(e).__name__}: {e}")
    out["class_api"] = api
    ds = sorted({d for _, d in trace["td"] + trace["fd"]})[:6]
    out["norm"] = [(d, fm.normalise(d)) for d in ds]
    goals = []
    for p, value in goal_specs:
        meta = sp.existing_predicates[p]
        goal = bg.BranchGoal(meta.code_object_id, p, value=value)
        dist = goal.get_distance(res, sp)
        g = graphs[meta.code_object_id]
        paths = []
        for e in tr.executed_predicates:
            me = sp.existing_predicates[e]
            if me.code_object_id != meta.code_object_id:
                continue
            try:
                paths.append((e, int(nx.shortest_path_length(g, me.node, meta.node))))
            except (nx.NetworkXNoPath, nx.NodeNotFound):
                pass
        goals.append(dict(p=p, value=value, code=meta.code_object_id,
                          diameter=sp.existing_code_objects[meta.code_object_id].cfg.diameter, paths=paths,
                          fitness=dist.get_resulting_branch_fitness(), covered=goal.is_covered(res)))
    out["goals"] = goals
    out["line_goals"] = [(l, bg.LineCoverageGoal(0, l).is_covered(res)) for l in list(sp.existing_lines)[:4]]
    cg = []
    for cid in list(sp.branch_less_code_objects)[:3]:
        goal = bg.BranchlessCodeObjectGoal(cid)
        cg.append((cid, goal.is_covered(res), goal.get_distance(res, sp).get_resulting_branch_fitness()))
    out["code_goals"] = cg
    return out


def oracle(c):
    """The property's clauses on the implementation's answers for a valid trace. Returns [(sig, msg)]."""
    bad = []
    f = c["fitness"]
    if not (isinstance(f, (int, float)) and math.isfinite(f) and f >= 0):
        bad.append(("range:suite-fitness", f"suite branch fitness {f!r} is not finite and non-negative "
                    f"({c.get('fitness_error', 'returned')})"))
        return bad
    for name in ("bcov", "lcov"):
        v = c[name]
        if not (math.isfinite(v) and 0 <= v <= 1):
            bad.append((f"range:{name}", f"coverage {v!r} outside [0,1]"))
    if (f == 0) != bool(c["covered"]):
        bad.append(("suite:covered-vs-fitness", f"suite fitness {f!r} but covered verdict {c['covered']}"))
    if not c["ec"] and not c["et"] and not c["ef"] and (f == 0) != (c["bcov"] == 1):
        bad.append(("suite:fitness-vs-coverage", f"suite fitness {f!r} but branch coverage {c['bcov']!r}"))
    if (c["lfit"] == 0) != bool(c["lcovd"]) or bool(c["lcovd"]) != (c["lcov"] == 1) or c["lfit"] < 0:
        bad.append(("suite:line", f"line fitness {c['lfit']}, covered {c['lcovd']}, coverage {c['lcov']!r}"))
    a = c.get("class_api")
    if a:
        unex = not c["ec"] and not c["et"] and not c["ef"]
        pairs = [("suite_line_cov", c["lcov"]), ("suite_line_covered", c["lcovd"]), ("suite_checked_covered", c["ccovd"]),
                 ("suite_branch_cov", c["bcov"]), ("tc_branch_cov", c["bcov"]), ("tc_line_cov", c["lcov"]), ("tc_checked_cov", c["ccov"])]
        if unex:
            pairs += [("suite_branch_fitness", c["fitness"]), ("suite_branch_covered", c["covered"]),
                      ("tc_branch_fitness", c["fitness"]), ("tc_branch_covered", c["covered"])]
        for k, v in pairs:
            if a[k] != v:
                bad.append((f"class:{k}", f"computations.py {k} gives {a[k]!r} but the metric function gives {v!r}"))
        if (c["cfit"] == 0) != bool(c["ccovd"]) or bool(c["ccovd"]) != (c["ccov"] == 1) or c["cfit"] < 0:
            bad.append(("suite:checked", f"checked fitness {c['cfit']}, covered {c['ccovd']}, coverage {c['ccov']!r}"))
        ch = a.get("chrom")
        if ch and "error" in ch:
            bad.append(("chrom:error", f"chromosome-level evaluation raised {ch['error']}"))
        elif ch:
            if ch["before"] != ch["expected"]:
                bad.append(("chrom:values", f"a suite chromosome reports [fitness, coverage, covered, branch cov, line cov] = "
                            f"{ch['before']}, the metric functions give {ch['expected']}"))
            if ch["after"] != ch["before"]:
                bad.append(("chrom:parent-changed-by-clone", f"an unchanged suite chromosome reported {ch['before']}; after a clone "
                            f"of it got another test and was evaluated it reports {ch['after']}"))
            if ch["child"][0] != 0 or not ch["child"][2] or ch["child"][3] != 1:
                bad.append(("chrom:child", f"clone + a test covering everything reports {ch['child']}"))
            if ch["grand"] != ch["child"]:
                bad.append(("chrom:clone-differs", f"a clone reports {ch['grand']}, its original {ch['child']}"))
        if "unrestricted_expected" in a:
            if a["restricted_half_fitness"] != a["restricted_half_expected"]:
                bad.append(("class:restrict:half", f"restricted instance gives {a['restricted_half_fitness']!r}, the metric function with "
                            f"the same exclusions gives {a['restricted_half_expected']!r}"))
            if a["restricted_all_fitness"] != 0 or not a["restricted_all_covered"]:
                bad.append(("class:restrict:all", f"every goal excluded but fitness {a['restricted_all_fitness']!r}, covered "
                            f"{a['restricted_all_covered']}"))
            for k in ("unrestricted_before", "unrestricted_after"):
                if a[k] != a["unrestricted_expected"]:
                    bad.append((f"class:restrict-leaks:{k}", f"an instance that was never restricted gives {a[k]!r} after another "
                                f"instance was restricted; unrestricted fitness is {a['unrestricted_expected']!r}"))
            if bool(a["unrestricted_after_covered"]) != bool(a["unrestricted_expected_covered"]):
                bad.append(("class:restrict-leaks:covered", f"never-restricted instance says covered={a['unrestricted_after_covered']}, "
                            f"expected {a['unrestricted_expected_covered']}"))
        if (a["suite_branch_fitness"] == 0) != bool(a["suite_branch_covered"]):
            bad.append(("suite:class:covered-vs-fitness", f"{a['suite_branch_fitness']!r} vs {a['suite_branch_covered']}"))
    for g in c["goals"]:
        gf = g["fitness"]
        if not (math.isfinite(gf) and gf >= 0):
            bad.append(("range:goal-fitness", f"goal fitness {gf!r}"))
        if (gf == 0) != bool(g["covered"]):
            bad.append(("goal:branch:covered-vs-fitness", f"branch goal p={g['p']} value={g['value']}: fitness {gf!r}, covered {g['covered']}"))
    for cid, cov, gf in c["code_goals"]:
        if (gf == 0) != bool(cov):
            bad.append(("goal:code:covered-vs-fitness", f"code object {cid}: fitness {gf!r}, covered {cov}"))
    return bad


# ---------------------------------------------------------------------------------------------
def extract_run(algorithm, suite, executor, cluster, job):
    """Child process, after a real search: project the real traces and values."""
    import networkx as nx
    import pynguin.ga.computations as ff
    import pynguin.ga.coveragegoals as bg
    from pynguin.ga.fitness_metrics import analyze_results

    sp = executor.subject_properties
    graphs = {cid: m.cdg.graph for cid, m in sp.existing_code_objects.items()}
    cases = []
    premises = []
    for cid, m in sp.existing_code_objects.items():
        premises.append(("diameter>=1", cid, m.cfg.diameter >= 1))
    nodes = [m.node for m in sp.existing_predicates.values()]
    premises.append(("distinct-predicate-nodes", -1, len(set(map(id, nodes))) == len(nodes)))
    results = []
    for tc in suite.test_case_chromosomes:
        r = tc.get_last_execution_result()
        if r is None:
            r = executor.execute(tc.test_case)
        results.append(r)
    pids = list(sp.existing_predicates)
    for r in results[:6]:
        specs = [(p, v) for p in pids[:8] for v in (True, False)]
        cases.append(observe(sp, r.execution_trace, [], [], [], specs, graphs))
    merged = analyze_results(results)
    suite_case = observe(sp, merged, [], [], [], [], graphs)
    # the values the chromosome API reports for the whole suite (through the cache)
    api = {}
    bff = ff.BranchDistanceTestSuiteFitnessFunction(executor)
    bcf = ff.TestSuiteBranchCoverageFunction(executor)
    suite.add_fitness_function(bff)
    suite.add_coverage_function(bcf)
    api["fitness"] = suite.get_fitness_for(bff)
    api["covered_after_fitness"] = suite.get_is_covered(bff)
    api["coverage"] = suite.get_coverage_for(bcf)
    fresh = suite.clone()
    fresh.invalidate_cache() if hasattr(fresh, "invalidate_cache") else None
    api["covered_direct"] = bff.compute_is_covered(suite)
    suite_case["api"] = api
    cases.append(suite_case)
    return {"cases": cases, "premises": premises, "tests": len(results), "job": {k: v for k, v in job.items() if k != "pre"}}


# ---------------------------------------------------------------------------------------------
def run(ctx: vlib.Ctx):
    vlib.setup_impl_path()
    ctx.digest_sources(SRC)
    ctx.coq_static(extra_roots=["Models/C10Corr.v"])
    if not ctx.quick:
        ctx.coqchk()

    # K1a: regenerate the model of fitness_metrics.py from the source and re-check the tie
    try:
        text, fns = py2v.translate_module(str(ctx.repo / "src/pynguin/ga/fitness_metrics.py"), SIGS, list(SIGS))
        gen = ctx.work / "C10_gen.v"
        gen.write_text("From Coq Require Import List ZArith QArith Bool.\nFrom Verif Require Import Models.C10.\n"
                       "Import ListNotations. Import C10.\nModule Gen.\n" + text + "\nEnd Gen.\n")
        shutil.copy(vlib.COQ / "dyn" / "C10_tie.v", ctx.work / "C10_tie.v")
        ok = ctx.coq_dyn([gen, ctx.work / "C10_tie.v"], "fitness_metrics.py translated by py2v")
        ctx.cov["translator"] = {"functions": [f.name for f in fns], "ok": ok,
                                 "preconditions": {f.name: f.preconditions for f in fns if f.preconditions},
                                 "asserts_in_source": {f.name: f.assertions for f in fns if f.assertions}}
    except py2v.Untranslatable as e:
        ctx.broken("translator:fitness_metrics.py", f"py2v cannot translate the current source: {e}", {})

    ctx.log('static+tie done')
    # K2 + S on random valid traces
    n = 500 if ctx.quick else 8000
    corpus = json.loads((vlib.VERIF / "corpus" / "C10.json").read_text())
    cases, canon = [], []
    specs_all = []
    for i in range(n + len(corpus)):
        case = corpus[i] if i < len(corpus) else gen_case(ctx.rng)
        case["pred_code"] = {int(k): v for k, v in case["pred_code"].items()}
        case["diam"] = {int(k): v for k, v in case["diam"].items()}
        case["edges"] = {int(k): [tuple(e) for e in v] for k, v in case["edges"].items()}
        for key in ("pred", "td", "fd"):
            case["trace"][key] = [(k, float(v) if key != "pred" else v) for k, v in case["trace"][key]]
        sp, tr, graphs = build_real(case)
        specs = [(p, v) for p in list(case["pred_code"])[:4] for v in (True, False)]
        obs = observe(sp, tr, case["ec"], case["et"], case["ef"], specs, graphs)
        cases.append(obs)
        canon.append(case)
        ctx.case_seen(json.dumps(case["trace"], default=str), nontrivial=bool(case["trace"]["pred"] or case["trace"]["code"]))
        ctx.count("covered" if obs["covered"] else "uncovered")
        ctx.count("goals", len(obs["goals"]))
        for _, d in obs["trace"]["td"] + obs["trace"]["fd"]:
            ctx.count("dist:" + ("0" if d == 0 else "inf" if math.isinf(d) else "tiny" if d < 1e-300 else "huge" if d > 1e300 else "pos"))
    ctx.sample({"trace": cases[len(corpus)]["trace"], "registry": cases[len(corpus)]["reg"],
                "fitness": cases[len(corpus)]["fitness"], "covered": cases[len(corpus)]["covered"],
                "branch_coverage": cases[len(corpus)]["bcov"]})

    ctx.log('random cases observed')
    # TR: real search runs
    suts = [vlib.VERIF / "corpus" / "sut" / n for n in ("bank.py", "strutil.py", "tri.py")]
    jobs = []
    algos = [("DYNAMOSA", ["BRANCH"]), ("MOSA", ["BRANCH", "LINE"]), ("WHOLE_SUITE", ["BRANCH", "LINE"]), ("MIO", ["BRANCH"])]
    for k in range(6 if ctx.quick else 48):
        a, m = algos[k % len(algos)]
        jobs.append(dict(sut=str(suts[k % len(suts)]), algorithm=a, metrics=m, iterations=ctx.rng.choice([2, 4, 8]),
                         seed=ctx.rng.randrange(10**6)))
    runs = pipeline.run_many(jobs, extract_run, workers=12, timeout=240)
    n_real = 0
    for job, r in zip(jobs, runs):
        if "error" in r:
            ctx.notes.append(f"real run {job['algorithm']} on {job['sut']} failed: {r['error']}")
            ctx.count("real-run-error")
            continue
        for prem, cid, ok in r["premises"]:
            if not ok:
                ctx.fail(f"premise:{prem}", f"structural premise {prem} fails for code object {cid} of {job['sut']}", {"job": r["job"]})
        for c in r["cases"]:
            cases.append(c)
            canon.append({"real_run": r["job"]})
            n_real += 1
            ctx.case_seen(json.dumps(c["trace"], default=str))
            api = c.get("api")
            if api:
                if not (api["fitness"] == c["fitness"] and api["coverage"] == c["bcov"]):
                    ctx.fail("api:value-mismatch", f"chromosome API reports fitness/coverage {api} but metric functions give {c['fitness']}, {c['bcov']}", {"job": r["job"]})
                if api["covered_after_fitness"] != api["covered_direct"] or api["covered_direct"] != c["covered"]:
                    ctx.fail("api:covered-verdicts-differ", f"covered verdict via cached fitness {api['covered_after_fitness']} vs direct {api['covered_direct']}", {"job": r["job"]})
    ctx.leg("TR", real_runs=len(jobs), real_cases=n_real)
    ctx.count("real-cases", n_real)

    ctx.log('real runs done')
    # S: direct oracle
    n_or = 0
    for c, src in zip(cases, canon):
        for sig, msg in oracle(c):
            n_or += 1
            ctx.fail(sig, msg, {"case": src, "observed": {k: c[k] for k in ("fitness", "covered", "bcov", "lcov", "lcovd", "lfit")},
                                "trace": c["trace"], "registry": c["reg"], "exclusions": [c["ec"], c["et"], c["ef"]]})
    ctx.leg("S", oracle_failures=n_or, cases=len(cases))

    # malformed stream (documentation only: what the implementation does outside validity)
    import pynguin.ga.fitness_metrics as fm
    for bad in (math.nan, -1.0):
        try:
            fm.normalise(bad)
            ctx.count(f"malformed:normalise({bad})->value")
        except Exception as e:  # noqa: BLE001
            ctx.count(f"malformed:normalise({bad})->{type(e).__name__}")

    bad = ctx.run_cases("C10_cases", "From Coq Require Import QArith.\nFrom Verif Require Import Models.C10 Models.C10Corr.", "C10Corr.suite_case",
                        "C10Corr.check_case", [c_case(c) for c in cases], shard=150)
    if bad:
        ctx.leg("K2", ok=False, mismatches=len(bad))
        if n_or == 0:
            c = cases[bad[0]]
            ctx.broken("correspondence:C10-metrics", "the metric model no longer reproduces the implementation",
                       {"first_mismatch": {"source": canon[bad[0]], "trace": c["trace"], "registry": c["reg"],
                                           "impl": {k: c[k] for k in ("fitness", "covered", "bcov", "lcov", "lcovd", "ccovd", "lfit", "goals")}},
                        "mismatching_cases": len(bad)})
    elif bad is not None:
        ctx.leg("K2", ok=True, cases=len(cases))
    ctx.cov["rule"] = ("random valid execution traces over random registries (code objects, predicates with CDG "
                       "edges, lines; distances from a boundary set incl. 0, 5e-324, 1e308, inf; exclusion sets) plus "
                       "per-test and merged traces of real search runs; non-trivial = some code object or predicate executed")
    ctx.assumptions += [
        "distances are modelled as exact rationals with an infinity; binary64 rounding is bounded by the 1e-9 relative closeness "
        "check of the correspondence and the exact zero/non-zero class check",
        "NaN-free, non-negative distances (conclusion of C04) and traces satisfying `valid` (checked on every real trace of this run)",
        "CFG diameter >= 1 and distinct predicate nodes (checked on every code object of the real runs)",
    ]
    ctx.cov["trusted_base"] += ["py2v translator (harness/py2v.py) for fitness_metrics.py; tie file coq/dyn/C10_tie.v",
                                "hand model of coveragegoals.py/controlflowdistance.py tied by correspondence only",
                                "networkx shortest_path_length supplies CDG path lengths to the model"]


def replay(ctx, path):
    vlib.setup_impl_path()
    d = json.loads(open(path).read())["replay"]
    print(json.dumps(d, indent=1, default=str)[:3000])
    return 0
