"""C08 — coverage exclusions remove exactly the excluded code from the goals.

T  static proofs (Properties/C08.v) about the model of ModuleAstInfo/AstInfo and of the way the
   instrumentation consults it.
K2 generated, randomly annotated modules: the real `ast` tree is abstracted into the model's tree
   and Coq compares, per scope and per line, should_be_covered / should_cover_line /
   should_cover_conditional_statement, the resolved no_cover/only_cover line sets, and the real
   instrumentation's registered code objects, line goals and predicates with the model's.
S  independent `ast` oracle for "excluded code" against the real registries.
"""
from __future__ import annotations

import ast
import copy
import json
import logging
import warnings

import vlib
from vlib import cbool, clist, cnat, copt, cZ

from props import _c08_gen as G
from props import _c08_lib as L

SRC = ["src/pynguin/instrumentation/transformer.py", "src/pynguin/instrumentation/machinery.py",
       "src/pynguin/analyses/ast_utils.py"]
IMPORTS = "From Verif Require Import Models.C08.\nImport C08. Open Scope Z_scope."


# ---------------------------------------------------------------------------------------------
def observe(case, scratch, k, via_hook=False):
    """Run the real code on one case.  Returns dict with everything K and S need, or
    {"skip": reason}.  `eff` is the case with the no_cover list the instrumentation really used
    (install_import_hook appends the ignore_methods of the module)."""
    mod = f"c08mod_{k}"
    path = scratch / f"{mod}.py"
    base = L.run_impl(case, path, baseline=True)
    if "error" in base:
        return {"skip": "baseline-" + base["error"]}
    real = None
    if via_hook:
        try:
            real = L.run_impl(case, path, via_hook=True, module_name=mod)
            real["route"] = "import-hook"
        except Exception:  # the generated module failed while being executed: use the direct route
            real = None
    if real is None:
        plain = dict(case, no=list(case["no"]) + [m.split(".", 1)[1] for m in case.get("ignore_methods", [])
                                                  if m.startswith(mod + ".")])
        real = L.run_impl(plain, path)
        real.setdefault("no_cover", plain["no"])
        real["route"] = "transformer"
    if "error" in real and real["error"] != "conflict":
        return {"skip": real["error"]}
    eff = dict(case, no=list(real.get("no_cover", case["no"])))
    ans = L.ast_answers(eff, path)
    return {"base": base, "ans": ans, "real": real, "eff": eff}


def marked_lines(case):
    out = []
    for i, ln in enumerate(case["src"].splitlines(), 1):
        if (case["pynguin"] and L.MARK_PYNGUIN.search(ln)) or (case["pragma"] and L.MARK_PRAGMA.search(ln)):
            out.append(i)
    return out


def c_case(case, obs):
    tree = ast.parse(case["src"])
    ab = L.Abstraction()
    t = L.simplify(ab.node(tree))
    nl = case["src"].count("\n") + 2
    base, ans, real = obs["base"], obs["ans"], obs["real"]
    conflict = "error" in real or "error" in ans
    keys = list(base["cos"])
    kidx = {k: i for i, k in enumerate(keys)}
    cos = []
    bpred = {(k, i) for k, i, _ in base["preds"]}
    for k in keys:
        c = base["cos"][k]
        blocks = []
        for b in base["blocks"][k]:
            lines = clist(copt(cZ(x)) if x is not None else "None" for x in b["lines"])
            last = "None" if not b["has_last"] else ("(Some None)" if b["last"] is None else f"(Some (Some {cZ(b['last'])}))")
            ilines = clist(copt(cZ(x)) if x is not None else "None" for x in b["ilines"])
            blocks.append(f"{{| C08.b_lines := {lines}; C08.b_ilines := {ilines}; C08.b_last := {last}; C08.b_pred := {cbool((k, b['index']) in bpred)} |}}")
        line = 0 if c["parent"] is None else c["first"]
        par = "None" if c["parent"] is None else f"(Some {cnat(kidx[c['parent']])})"
        cos.append(f"{{| C08.co_line := {cZ(line)}; C08.co_parent := {par}; C08.co_blocks := {clist(blocks)} |}}")
    if conflict:
        scopes, reg, lines, preds, nol, onl = [], [], [], [], [], []
    else:
        scopes = []
        for s in ans["scopes"]:
            if not s["found"]:
                scopes.append(f"{{| C08.so_first := {cZ(s['first'])}; C08.so_found := false; C08.so_start := 0; "
                              "C08.so_covered := false; C08.so_line := []; C08.so_cond := [] |}")
            else:
                scopes.append(f"{{| C08.so_first := {cZ(s['first'])}; C08.so_found := true; C08.so_start := {cZ(s['start'])}; "
                              f"C08.so_covered := {cbool(s['covered'])}; C08.so_line := {clist(map(cbool, s['line'][:nl]))}; "
                              f"C08.so_cond := {clist(map(cbool, s['cond'][:nl]))} |}}")
        reg = [cbool(k in real["cos"] and real["cos"][k]["registered"]) for k in keys]
        lines = [cZ(x) for x in real["lines"]]
        rp = {(k, i) for k, i, _ in real["preds"]}
        preds = []
        for k in keys:
            if k in real["cos"] and real["cos"][k]["registered"]:
                preds.append("(Some " + clist(cbool((k, b["index"]) in rp) for b in base["blocks"][k]) + ")")
            else:
                preds.append("None")
        nol, onl = [cZ(x) for x in ans["no_cover"]], [cZ(x) for x in ans["only_cover"]]
    return compact(
        "{| C08.c_tree := %s;\n     C08.c_marked := %s; C08.c_only := %s; C08.c_no := %s; C08.c_nlines := %s; C08.c_conflict := %s;\n"
        "     C08.c_no_lines := %s; C08.c_only_lines := %s;\n     C08.c_scopes := %s;\n     C08.c_cos := %s;\n"
        "     C08.c_registered := %s; C08.c_lines := %s; C08.c_preds := %s |}"
        % (L.c_node(t), clist(cZ(x) for x in marked_lines(case)),
           clist(clist(cZ(c) for c in ab.qual(q)) for q in case["only"]),
           clist(clist(cZ(c) for c in ab.qual(q)) for q in obs["eff"]["no"]),
           cnat(nl), cbool(conflict), clist(nol), clist(onl), clist(scopes), clist(cos), clist(reg), clist(lines),
           clist(preds)))


def compact(term: str) -> str:
    """Shorter concrete syntax (C08 is imported and Z_scope open in the case files): parsing the
    case files is the larger part of the Coq time."""
    import re
    term = term.replace("C08.", "")
    term = re.sub(r"\((\d+)\)%Z", r"\1", term)
    return re.sub(r"\((-\d+)\)%Z", r"(\1)", term)


# ---------------------------------------------------------------------------------------------
def oracle_failures(case, obs):
    """Direct oracle: list of (signature, message)."""
    real, base, case = obs["real"], obs["base"], obs["eff"]
    o = L.oracle(case)
    if "error" in real:
        # the implementation refuses the configuration: legitimate only for a real only/no overlap
        tree = ast.parse(case["src"])
        names = G.scope_names(tree)
        only_l = {names[n].lineno for n in case["only"] if n in names}
        no_l = {names[n].lineno for n in case["no"] if n in names} | o["marked"] | o["exc"]
        if only_l & no_l:
            return []
        return [("conflict-without-overlap", f"only_cover {case['only']} / no_cover {case['no']} rejected without an overlap")]
    out = []
    tree = ast.parse(case["src"])
    starts = {n.lineno for n in ast.walk(tree) if isinstance(n, (ast.If, ast.For, ast.While))} | {
        n.pattern.lineno for n in ast.walk(tree) if isinstance(n, ast.match_case)}
    for l in real["lines"]:
        if l in o["exc"]:
            out.append(("line-goal-in-excluded", f"line {l} is a line goal but lies in excluded code"))
    for k, idx, l in real["preds"]:
        if l in o["exc"]:
            kind = "statement" if l in starts else "expression"
            out.append((f"branch-goal-in-excluded:{kind}", f"predicate of {k} at line {l} lies in excluded code"))
    for k, c in real["cos"].items():
        if c["registered"] and c["parent"] is not None and c["first"] in o["exc_scopes"]:
            out.append(("codeobject-goal-in-excluded", f"code object {k} is instrumented but its definition is excluded"))
    for l in base["lines"]:
        if l in o["must"] and l not in real["lines"]:
            out.append(("executable-line-missing", f"executable line {l} outside excluded code is not a line goal"))
    # a definition / lambda / comprehension that has to be covered must be instrumented
    for k, c in base["cos"].items():
        if c["parent"] is not None and c["first"] in o["must_scopes"] and not (k in real["cos"] and real["cos"][k]["registered"]):
            out.append(("codeobject-goal-missing", f"code object {k} outside excluded code is not instrumented"))
    if not real["cos"] or not next(iter(real["cos"].values()))["registered"]:
        if 0 not in o["exc"] and not (o["marked"] & {0}):
            out.append(("codeobject-goal-missing", "the module's code object is not instrumented"))
    return out


def shrink(case, sig, scratch):
    """Greedy: drop names, markers, then whole top-level statements while the signature persists."""
    def fails(c):
        try:
            ast.parse(c["src"])
            obs = observe(c, scratch, 9999)
            if "skip" in obs:
                return False
            return any(s == sig for s, _ in oracle_failures(c, obs))
        except Exception:
            return False

    cur = copy.deepcopy(case)
    for fld in ("only", "no"):
        for n in list(cur[fld]):
            cand = dict(cur, **{fld: [x for x in cur[fld] if x != n]})
            if fails(cand):
                cur = cand
    changed = True
    while changed:
        changed = False
        tree = ast.parse(cur["src"])
        lines = cur["src"].splitlines()
        cands = []
        for n in ast.walk(tree):
            for fld in ("body", "orelse", "finalbody"):
                stmts = getattr(n, fld, None)
                if isinstance(stmts, list) and len(stmts) > 1:
                    for st in stmts:
                        if isinstance(st, ast.stmt):
                            lo = min([st.lineno] + [d.lineno for d in getattr(st, "decorator_list", [])])
                            cands.append((lo, st.end_lineno))
        cands.sort(key=lambda r: r[0] - r[1])
        for lo, hi in cands:
            cand = dict(cur, src="\n".join(lines[:lo - 1] + lines[hi:]) + "\n")
            if fails(cand):
                cur, changed = cand, True
                break
    lines = cur["src"].splitlines()
    for i, ln in enumerate(lines):
        for m in G.MARKERS:
            if m in ln:
                cand_lines = list(lines)
                cand_lines[i] = ln.replace("  " + m, "")
                cand = dict(cur, src="\n".join(cand_lines) + "\n")
                if fails(cand):
                    cur, lines = cand, cand_lines
    return cur


# ---------------------------------------------------------------------------------------------
def hook_check(ctx, scratch):
    """install_import_hook: ignore_methods of the module under test become no_cover names."""
    import pynguin.configuration as config
    from pynguin.instrumentation.machinery import install_import_hook
    from pynguin.instrumentation.tracer import SubjectProperties

    rng = ctx.rng
    for _ in range(20 if ctx.quick else 200):
        mod = rng.choice(["pkg.mod", "mod", "a.b.c"])
        pool = [f"{mod}.f", f"{mod}.C.m", f"{mod}x.f", "other.g", f"{mod}", f"x.{mod}.f", f"{mod}.{mod}.h"]
        ign = rng.sample(pool, rng.choice([0, 1, 2, 4]))
        pre = rng.sample(["k", "C.z"], rng.choice([0, 1]))
        tc = config.ToCoverConfiguration(no_cover=list(pre))
        old = config.configuration.ignore_methods
        config.configuration.ignore_methods = list(ign)
        try:
            with install_import_hook(mod, SubjectProperties(), {config.CoverageMetric.LINE}, tc):
                pass
        finally:
            config.configuration.ignore_methods = old
        expect = pre + [m[len(mod) + 1:] for m in ign if m.startswith(mod + ".")]
        ctx.case_seen(("hook", mod, tuple(ign), tuple(pre)))
        ctx.count("kind:hook-ignore-methods")
        if list(tc.no_cover) != expect:
            ctx.fail("hook:ignore-methods-to-no-cover",
                     f"install_import_hook({mod!r}) with ignore_methods={ign} gives no_cover={tc.no_cover}, expected {expect}",
                     {"module": mod, "ignore_methods": ign, "no_cover_before": pre})


def load_corpus():
    p = vlib.VERIF / "corpus" / "C08.json"
    return json.loads(p.read_text()) if p.exists() else []


def run(ctx: vlib.Ctx):
    vlib.setup_impl_path()
    warnings.simplefilter("ignore")
    logging.getLogger("pynguin").setLevel(logging.ERROR)
    logging.disable(logging.WARNING)
    ctx.digest_sources(SRC)
    ctx.coq_static()
    if not ctx.quick:
        ctx.coqchk()
    ctx.log("static development built")
    scratch = ctx.mkscratch()
    corpus = load_corpus()
    n_gen = 80 if ctx.quick else 500
    cases = [dict(c["case"]) for c in corpus]
    for _ in range(n_gen):
        cases.append(G.gen_case(ctx.rng))
    coq_cases, recs = [], []
    n_fail = 0
    seen_sigs = set()
    known = vlib.load_findings("C08")
    for k, case in enumerate(cases):
        via_hook = k >= len(corpus) and k % 5 == 0
        if via_hook:
            extra = [n for n in sorted(G.scope_names(ast.parse(case["src"]))) if n not in case["no"] and n not in case["only"]]
            case["ignore_methods"] = [f"c08mod_{k}.{n}" for n in extra[:1]] + ["elsewhere.f", f"c08mod_{k}x.g"]
        try:
            obs = observe(case, scratch, k, via_hook=via_hook)
        except Exception as e:  # the instrumentation must not crash on a valid module
            ctx.fail(f"instrumentation-crash:{type(e).__name__}", f"{type(e).__name__}: {e}", {"case": case})
            continue
        if "skip" in obs:
            ctx.count("skipped:" + obs["skip"])
            continue
        tree = ast.parse(case["src"])
        kinds = {type(n).__name__ for n in ast.walk(tree) if isinstance(n, (ast.If, ast.For, ast.While, ast.Try, ast.Match, ast.With, ast.Lambda, ast.ClassDef, ast.FunctionDef, ast.AsyncFunctionDef, ast.GeneratorExp, ast.ListComp))}
        for kd in kinds:
            ctx.count("construct:" + kd)
        ctx.count("markers:%d" % min(len(marked_lines(case)), 4))
        ctx.count("only_cover:%d" % len(case["only"]))
        ctx.count("no_cover:%d" % len(case["no"]))
        ctx.count("route:" + obs["real"]["route"])
        if "error" in obs["real"]:
            ctx.count("config:conflict")
        if any(getattr(n, "decorator_list", None) for n in ast.walk(tree)):
            ctx.count("construct:decorated")
        nontrivial = bool(marked_lines(case) or case["only"] or case["no"])
        ctx.case_seen((case["src"], tuple(case["only"]), tuple(case["no"]), case["pynguin"], case["pragma"]), nontrivial=nontrivial)
        if len(ctx.cov["samples"]) < 2 and nontrivial and k >= len(corpus):
            ctx.sample({"src": case["src"], "only_cover": case["only"], "no_cover": case["no"],
                        "line_goals": obs["real"].get("lines"), "executable_lines": obs["base"]["lines"]})
        # S
        fl = oracle_failures(case, obs)
        for sig, msg in fl:
            n_fail += 1
            if sig in seen_sigs:
                continue
            seen_sigs.add(sig)
            small = case if vlib.match_finding(known, sig) else shrink(case, sig, scratch)
            ctx.fail(sig, msg, {"case": small, "unshrunk": case})
        coq_cases.append(c_case(case, obs))
        recs.append((case, obs))
    ctx.cov["rule"] = ("generated modules (functions, classes, methods, nested/decorated/async/one-line definitions, lambdas, "
                       "comprehensions, if/elif/else, else-with-single-if, for/while-else, try/except/else/finally, with, match, "
                       "__main__ and TYPE_CHECKING blocks) with 0-5 random '# pragma: no cover' / '# pynguin: no cover' markers, random "
                       "only_cover/no_cover name lists and marker switches, plus the minimised-failure corpus; non-trivial = at least "
                       "one marker or name; distinct = distinct (source, lists, switches)")
    ctx.log(f"{len(recs)} modules observed, {n_fail} oracle failures")
    hook_check(ctx, scratch)
    ctx.leg("S", oracle_failures=n_fail, modules=len(recs))
    bad = ctx.run_cases("C08_cases", IMPORTS, "C08.case", "C08.check_case", coq_cases, shard=12 if ctx.quick else 40)
    ctx.log("model evaluated in Coq")
    if bad is None:
        pass
    elif bad:
        ctx.leg("K2", ok=False, mismatches=len(bad))
        if n_fail == 0:
            case, obs = recs[bad[0]]
            ctx.broken("correspondence:C08-model-vs-transformer",
                       "the exclusion model (about which the theorems are proved) no longer reproduces AstInfo / the instrumentation registries",
                       {"case": case, "mismatching_cases": len(bad), "detail": explain(ctx, case, obs)})
    else:
        ctx.leg("K2", ok=True, modules=len(coq_cases))
    ctx.assumptions += [
        "Python's parser and its line attribution (lineno/end_lineno, co_firstlineno, instruction positions) are taken as given",
        "marker comments are recognised by the two regular expressions of transformer.py (compared through no_cover_lines)",
        "executable lines = lines the unchanged instrumentation registers when no exclusion applies (C02 ties those to the interpreter)",
        "Python 3.12 only (comprehensions are inlined; the 3.10/3.11/3.13/3.14 adapters repeat the same AstInfo consultation)",
    ]
    ctx.cov["trusted_base"] += [
        "hand-written model Models/C08.v tied per line/per scope and per registry to the real code (this run)",
        "harness/props/_c08_lib.py: abstraction of ast into the model's tree (ranges checked by C08.wfb inside Coq), independent oracle",
    ]


def explain(ctx, case, obs):
    """Which component of check_case disagrees (for the replay file)."""
    term = c_case(case, obs)
    parts = {
        "wf": "C08.wfb 0 (Z.of_nat (C08.c_nlines c)) (C08.c_tree c)",
        "conflict": "Bool.eqb (C08.conflict mi) (C08.c_conflict c)",
        "no_cover_lines": "C08.Zsorted_dedup_eq (C08.no_cover mi) (C08.c_no_lines c)",
        "only_cover_lines": "C08.Zsorted_dedup_eq (C08.only_cover mi) (C08.c_only_lines c)",
        "scopes": "map (C08.check_scope mi (C08.c_nlines c)) (C08.c_scopes c)",
        "registered": "(C08.registered mi (C08.c_cos c), C08.c_registered c)",
        "lines": "(C08.line_goals mi (C08.c_cos c), C08.c_lines c)",
        "preds": "C08.list_beq (C08.opt_beq (C08.list_beq C08.beqb)) (C08.pred_goals mi (C08.c_cos c)) (C08.c_preds c)",
    }
    out = {}
    for name, e in parts.items():
        out[name] = ctx.coq_eval(IMPORTS, f"let c := {term} in let mi := C08.from_path (C08.c_tree c) (C08.c_marked c) (C08.c_only c) (C08.c_no c) in {e}")[-600:]
    return out


def replay(ctx, path):
    vlib.setup_impl_path()
    warnings.simplefilter("ignore")
    logging.disable(logging.WARNING)
    d = json.loads(open(path).read())
    rp = d.get("replay") or d["no_longer_checks"][0]["detail"]
    case = rp["case"]
    scratch = ctx.mkscratch()
    obs = observe(case, scratch, 0)
    print(case["src"])
    print("only_cover", case["only"], "no_cover", case["no"], "pynguin", case["pynguin"], "pragma", case["pragma"])
    if "skip" in obs:
        print("skipped:", obs["skip"])
        return 0
    print("implementation: lines", obs["real"].get("lines"), "preds", obs["real"].get("preds"))
    print("                code objects", {k: v["registered"] for k, v in obs["real"].get("cos", {}).items()})
    print("executable lines (no exclusions):", obs["base"]["lines"])
    o = L.oracle(case)
    print("oracle: excluded", sorted(o["exc"]), "must", sorted(o["must"]), "excluded scopes", sorted(o["exc_scopes"]))
    print("oracle failures:", oracle_failures(case, obs))
    print("model:", explain(ctx, case, obs))
    return 0
