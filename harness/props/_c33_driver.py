"""C33 — one real master/worker run with injected worker deaths, executed in its own process (and its
own session, so the harness can kill the whole group when the watchdog fires).

usage: _c33_driver.py '<json scenario>'     prints   RESULT <json>

The master runs in THIS process (real PynguinClient / MasterProcess / RunningTask, real worker
processes, real pipes).  RunningTask's methods are wrapped (not replaced) to log
Start / Adjust(elapsed, new search time) / Restart(ok) and the WorkerResult; worker deaths come from
  * the env-guarded hook pynguin.generator._verif_phase (phase boundaries, os._exit or SIGKILL),
  * a module under test that calls os._exit at import or inside a function under test,
  * an external SIGKILL of the worker sent by a thread of this process some time after the worker
    logged a given phase (what an OOM killer does).
"""
from __future__ import annotations

import json
import os
import signal
import sys
import threading
import time
from fractions import Fraction
from pathlib import Path

SUT = {
    "ok": '''
def classify(x: int) -> str:
    if x < 0:
        return "neg"
    if x == 0:
        return "zero"
    if x > 100:
        return "big"
    return "pos"
''',
    # a branch no search will cover: the search-time budget is always used up
    "hard": '''
def classify(x: int, s: str) -> str:
    if x < 0:
        return "neg"
    if x == 918273645 and s == "q7#zPynguinNeverGuessesThis!":
        return "jackpot"
    if x > 100:
        return "big"
    return "pos"
''',
    # dies while being imported, as long as the counter file holds a positive number
    # (no try/except in these modules: see DESIGN.md sec. 10, instrumentation of try blocks)
    "die_import": '''
import os as _os
def _maybe_die():
    p = _os.environ.get("C33_SUT_COUNTER", "")
    if not _os.path.isfile(p):
        return
    f = open(p)
    n = int(f.read())
    f.close()
    if n > 0:
        g = open(p, "w")
        g.write(str(n - 1))
        g.close()
        _os._exit(3)
_maybe_die()
def ident(x: int) -> int:
    if x > 3:
        return x
    return -x
''',
    # dies inside a function under test (i.e. in the middle of the search), counter as above
    "die_exec": '''
import os as _os
_COUNTER = _os.environ.get("C33_SUT_COUNTER", "")
def boom(x: int) -> int:
    n = 0
    if _os.path.isfile(_COUNTER):
        f = open(_COUNTER)
        n = int(f.read())
        f.close()
    if n > 0:
        g = open(_COUNTER, "w")
        g.write(str(n - 1))
        g.close()
        _os._exit(9)
    if x > 7:
        return 1
    return 0
''',
}


def _suicide_watch(deadline: float) -> None:
    """Never outlive the harness: when the parent process is gone (the check was killed) or the deadline has
    passed, kill this process group (driver, workers, execution subprocesses)."""
    parent = os.getppid()

    def watch():
        t0 = time.monotonic()
        while True:
            time.sleep(1.0)
            if os.getppid() != parent or time.monotonic() - t0 > deadline:
                os.killpg(os.getpgid(0), signal.SIGKILL)

    threading.Thread(target=watch, daemon=True).start()


def main() -> None:
    sc = json.loads(sys.argv[1])
    _suicide_watch(float(sc.get("deadline", 3600)))
    base = Path(sc["dir"])
    proj, out, state = base / "proj", base / "out", base / "state"
    for d in (proj, out, state):
        d.mkdir(parents=True, exist_ok=True)
    mod = "c33sut_" + sc["sut"]
    (proj / f"{mod}.py").write_text(SUT[sc["sut"]])
    counter = state / "sut_counter"
    counter.write_text(str(sc.get("sut_crashes", 0)))
    os.environ["C33_SUT_COUNTER"] = str(counter)
    os.environ["SE2P_PYNGUIN_VERIF"] = "1"
    os.environ["SE2P_PYNGUIN_VERIF_STATE"] = str(state)
    os.environ["SE2P_PYNGUIN_VERIF_CRASH"] = sc.get("crash", "")
    os.environ["PYNGUIN_DANGER_AWARE"] = "1"

    import logging

    logging.basicConfig(filename=str(base / "log.txt"), level=logging.INFO)

    import pynguin.configuration as config
    from pynguin.master_worker import master as M
    from pynguin.master_worker.client import run_pynguin_with_master_worker

    cfg = config.Configuration(
        project_path=str(proj), module_name=mod,
        test_case_output=config.TestCaseOutputConfiguration(
            output_path=str(out),
            assertion_generation=config.AssertionGenerator[sc.get("assertions", "SIMPLE")]),
        algorithm=config.Algorithm[sc.get("algorithm", "DYNAMOSA")],
        stopping=config.StoppingConfiguration(maximum_iterations=sc["iterations"],
                                              maximum_search_time=sc["search_time"]),
        seeding=config.SeedingConfiguration(seed=sc.get("seed", 1)),
        search_algorithm=config.SearchAlgorithmConfiguration(
            population=sc.get("population", 4), chromosome_length=10),
        statistics_output=config.StatisticsOutputConfiguration(
            report_dir=str(out), statistics_backend=config.StatisticsBackend.NONE),
    )
    cfg.use_master_worker = True
    cfg.subprocess = bool(sc.get("subprocess", False))
    if cfg.subprocess:
        cfg.subprocess_if_recommended = False
    config.configuration = cfg
    if sc.get("foreign_global"):
        # library use: the process-wide configuration of the master is a different object than the task's
        import copy

        glob = copy.deepcopy(cfg)
        glob.stopping.maximum_search_time = 987654
        config.configuration = glob

    log: dict = {"starts": [], "adjusts": [], "restart_returns": [], "result": None, "pids": []}
    current = {"proc": None}
    RT = M.RunningTask
    o_start, o_adjust, o_restart = RT._start_worker, RT._adjust_search_time_after_crash, RT._restart

    def w_start(self, task):
        st = task.configuration.stopping.maximum_search_time
        log["starts"].append([st, bool(task.configuration.subprocess), self._restart_count])
        r = o_start(self, task)
        current["proc"] = self._worker_process
        log["pids"].append(self._worker_process.pid)
        return r

    def w_adjust(self, elapsed_time):
        r = o_adjust(self, elapsed_time)
        n, d = Fraction(elapsed_time).as_integer_ratio()
        log["adjusts"].append([str(n), str(d), self._task.configuration.stopping.maximum_search_time])
        return r

    def w_restart(self):
        r = o_restart(self)
        log["restart_returns"].append(bool(r))
        return r

    RT._start_worker, RT._adjust_search_time_after_crash, RT._restart = w_start, w_adjust, w_restart
    o_get = M.MasterProcess.get_result

    def w_get(self, task_id):
        r = o_get(self, task_id)
        log["result"] = [int(r.worker_return_code) == 0,
                         None if r.return_code is None else int(r.return_code), r.restart_count]
        return r

    M.MasterProcess.get_result = w_get

    # external kills: [phase, delay_seconds] applied to successive workers
    kills = list(sc.get("ext_kill", []))
    stop_killer = threading.Event()

    def killer():
        done_pids = set()
        while kills and not stop_killer.is_set():
            proc = current["proc"]
            if proc is None or proc.pid in done_pids:
                time.sleep(0.01)
                continue
            phase, delay = kills[0]
            try:
                lines = (state / "events").read_text().split("\n")
            except OSError:
                lines = []
            if f"{proc.pid} {phase}" in lines:
                time.sleep(delay)
                done_pids.add(proc.pid)
                kills.pop(0)
                try:
                    os.kill(proc.pid, signal.SIGKILL)
                    log.setdefault("ext_killed", []).append(proc.pid)
                except ProcessLookupError:
                    pass
            else:
                time.sleep(0.01)

    th = threading.Thread(target=killer, daemon=True)
    th.start()
    t0 = time.monotonic()
    rc = run_pynguin_with_master_worker(cfg)
    log["wall"] = round(time.monotonic() - t0, 3)
    stop_killer.set()
    log["client_rc"] = int(rc)
    try:
        log["phases"] = [ln.split() for ln in (state / "events").read_text().split("\n") if ln]
    except OSError:
        log["phases"] = []
    log["outputs"] = sorted(p.name for p in out.glob("test_*.py"))
    print("RESULT " + json.dumps(log), flush=True)


if __name__ == "__main__":
    main()
