"""C06/C07 helpers: run Pynguin's real CFG/CDG construction on a code object and serialise the
result (K1b fact extraction), an independent post-dominator oracle (S), Coq printers."""
from __future__ import annotations

import sysconfig
import types
from pathlib import Path

from vlib import cN, cbool, clist, copt, cpair

AUG, ENTRY, EXIT = 0, 1, 2


def ident(n):
    from pynguin.instrumentation import controlflow as cf

    if isinstance(n, cf.ArtificialNode):
        return {"AUGMENTED_ENTRY": AUG, "ENTRY": ENTRY, "EXIT": EXIT}[n.value]
    return n.index + 3


def code_objects(code):
    out = [code]
    for c in code.co_consts:
        if isinstance(c, types.CodeType):
            out += code_objects(c)
    return out


def edge_labels(data):
    """Labels stored on a program-graph edge (a list: the repaired CDG keeps every outcome)."""
    if "branch_values" in data:
        return sorted(data["branch_values"], key=str)
    return [data.get("branch_value")]


def graph_triples(graph):
    return sorted({(ident(a), lab, ident(b)) for a, b, d in graph.edges(data=True) for lab in edge_labels(d)}, key=_k)


def _k(t):
    return (t[0], t[2], str(t[1]))


def real_cfg(code):
    from bytecode import Bytecode
    from pynguin.instrumentation import controlflow as cf, version

    return cf.CFG.from_bytecode(version.add_for_loop_no_yield_nodes(Bytecode.from_code(code)))


def observe(cfg, cdg=None):
    """Case = what Pynguin built: CFG nodes/edges, CDG triples, per-node query answers."""
    from pynguin.instrumentation import controlflow as cf

    case = {
        "nodes": sorted(ident(n) for n in cfg.graph.nodes),
        "edges": graph_triples(cfg.graph),
    }
    try:
        if cdg is None:
            cdg = cf.ControlDependenceGraph.compute(cfg)
    except Exception as e:  # noqa: BLE001
        case["error"] = f"cdg:{type(e).__name__}"
        case["cdg"], case["obs"] = [], []
        return case
    case["cdg"] = graph_triples(cdg.graph)
    case["cdg_nodes"] = sorted(ident(n) for n in cdg.graph.nodes)
    obs, err = query_all(cdg, query_orders(cdg, len(case["nodes"]) * 7919 + len(case["edges"])))
    if err:
        case["error"] = err
    case["obs"] = obs
    return case


def query_orders(cdg, seed):
    """Several orders in which every node of one CDG object is asked: state carried from one query
    to the next (caches, shared visited sets) must not change any answer."""
    import random

    nodes = list(cdg.graph.nodes)
    shuffled = nodes[:]
    random.Random(seed).shuffle(shuffled)
    by_id = sorted(nodes, key=ident)
    return [nodes, nodes[::-1], shuffled, by_id, by_id[::-1]]


def query_all(cdg, orders):
    """Ask get_control_dependencies / is_control_dependent_on_root for every node in every given
    order on the SAME object; returns the sorted set of distinct (node, deps, root) answers."""
    obs, err = set(), None
    for order in orders:
        for n in order:
            try:
                deps = tuple(sorted({(ident(d.node), bool(d.branch_value)) for d in cdg.get_control_dependencies(n)}))
                root = bool(cdg.is_control_dependent_on_root(n))
            except Exception as e:  # noqa: BLE001
                err = f"query:{type(e).__name__}"
                continue
            obs.add((ident(n), deps, root))
    return sorted((n, list(d), r) for n, d, r in obs), err


def extract(code):
    try:
        cfg = real_cfg(code)
    except Exception as e:  # noqa: BLE001
        return {"nodes": [], "edges": [], "cdg": [], "obs": [], "error": f"cfg:{type(e).__name__}"}
    return observe(cfg)


# ------------------------------------------------------------------------------------------------
# synthetic CFGs fed to ControlDependenceGraph.compute directly
def synth_graph(rng, n):
    """Random CFG with the label discipline of real ones: a block has no successor (-> EXIT), one or
    two unlabelled successors, or a True and a False successor; any block may also yield (extra edge
    to EXIT).  Unreachable blocks are dropped, blocks that cannot reach EXIT get an exit edge (what
    _insert_dummy_nodes does for infinite loops)."""
    edges = set()
    for i in range(n):
        node = i + 3
        kind = rng.random()
        tgt = lambda: rng.randrange(n) + 3  # noqa: E731
        fwd = lambda: min(n - 1, i + rng.choice([1, 1, 1, 2, 3])) + 3  # noqa: E731
        pick = lambda: fwd() if rng.random() < 0.7 else tgt()  # noqa: E731
        if kind < 0.12 or i == n - 1 and kind < 0.6:
            edges.add((node, None, EXIT))
        elif kind < 0.45:
            edges.add((node, None, pick()))
        elif kind < 0.55:
            edges.add((node, None, pick()))
            edges.add((node, None, pick()))
        else:
            t, f = pick(), pick()
            if t == f:
                edges.add((node, False, f))
            else:
                edges.add((node, True, t))
                edges.add((node, False, f))
        if rng.random() < 0.08:
            edges.add((node, None, EXIT))
    edges.add((ENTRY, None, 3))
    # drop a second label on the same node pair (a DiGraph CFG cannot hold it)
    seen, es = set(), []
    for a, l, b in sorted(edges, key=_k):
        if (a, b) not in seen:
            seen.add((a, b))
            es.append((a, l, b))
    # reachable from ENTRY
    succ = {}
    for a, l, b in es:
        succ.setdefault(a, []).append(b)
    reach, todo = {ENTRY}, [ENTRY]
    while todo:
        x = todo.pop()
        for y in succ.get(x, []):
            if y not in reach:
                reach.add(y)
                todo.append(y)
    es = [(a, l, b) for a, l, b in es if a in reach]
    reach.add(EXIT)
    # every node reaches EXIT
    while True:
        pred = {}
        for a, l, b in es:
            pred.setdefault(b, []).append(a)
        back, todo = {EXIT}, [EXIT]
        while todo:
            x = todo.pop()
            for y in pred.get(x, []):
                if y not in back:
                    back.add(y)
                    todo.append(y)
        stuck = sorted(reach - back - {ENTRY})
        if not stuck:
            break
        es.append((rng.choice(stuck), None, EXIT))
    return sorted(reach), sorted(es, key=_k)


def real_from_graph(nodes, edges):
    """Build a pynguin CFG object holding exactly this graph (no bytecode behind it)."""
    from pynguin.instrumentation import controlflow as cf

    cfg = cf.CFG(None)
    objs = {ENTRY: cf.ArtificialNode.ENTRY, EXIT: cf.ArtificialNode.EXIT}
    for n in nodes:
        if n not in objs:
            objs[n] = cf.BasicBlockNode(index=n - 3, basic_block=None)
    for n in nodes:
        cfg.add_node(objs[n])
    for a, l, b in edges:
        if l is None:
            cfg.add_edge(objs[a], objs[b])
        else:
            cfg.add_edge(objs[a], objs[b], **{cf.EDGE_DATA_BRANCH_VALUE: l, "label": l})
    return cfg


# ------------------------------------------------------------------------------------------------
# S: independent oracle (iterative post-dominator sets; no networkx, no Coq)
def wellformed(nodes, edges):
    """None, or the name of the violated part of 'single artificial entry and exit, every block
    reachable from the entry'."""
    ns = set(nodes)
    if ENTRY not in ns or EXIT not in ns or AUG in ns:
        return "artificial-nodes"
    if any(a not in ns or b not in ns for a, _, b in edges):
        return "dangling-edge"
    if any(b == ENTRY for _, _, b in edges):
        return "entry-has-predecessor"
    if any(a == EXIT for a, _, _ in edges):
        return "exit-has-successor"
    if sum(1 for a, _, _ in edges if a == ENTRY) != 1:
        return "entry-successors"
    succ, pred = {}, {}
    for a, _, b in edges:
        succ.setdefault(a, set()).add(b)
        pred.setdefault(b, set()).add(a)
    for start, rel, name in ((ENTRY, succ, "unreachable-from-entry"), (EXIT, pred, "cannot-reach-exit")):
        seen, todo = {start}, [start]
        while todo:
            x = todo.pop()
            for y in rel.get(x, ()):
                if y not in seen:
                    seen.add(y)
                    todo.append(y)
        if seen != ns:
            return name
    if any(n != ENTRY and not pred.get(n) for n in ns):
        return "second-entry"
    if any(n != EXIT and not succ.get(n) for n in ns):
        return "second-exit"
    return None


def ferrante(nodes, edges):
    """Control dependence by the definition, from post-dominator sets obtained by the classic
    data-flow iteration, on the graph augmented with AUG -> ENTRY, AUG -> EXIT."""
    ns = [AUG] + list(nodes)
    es = [(AUG, None, ENTRY), (AUG, None, EXIT)] + list(edges)
    succ = {n: set() for n in ns}
    for a, _, b in es:
        succ[a].add(b)
    full = set(ns)
    pdom = {n: set(full) for n in ns}
    pdom[EXIT] = {EXIT}
    changed = True
    while changed:
        changed = False
        for n in ns:
            if n == EXIT:
                continue
            ss = [pdom[s] for s in succ[n]]
            new = {n} | (set.intersection(*ss) if ss else set())
            if new != pdom[n]:
                pdom[n] = new
                changed = True
    out = set()
    for a, v, s in es:
        for b in pdom[s]:
            if not (b != a and b in pdom[a]):
                if a not in (ENTRY, EXIT) and b not in (ENTRY, EXIT):
                    out.add((a, v, b))
    return sorted(out, key=_k)


def queries(cdg, n):
    """deps / root by the closure reading: walk back over unlabelled edges."""
    pred = {}
    for a, v, b in cdg:
        pred.setdefault(b, []).append((a, v))
    closure, todo = {n}, [n]
    while todo:
        x = todo.pop()
        for a, v in pred.get(x, []):
            if (v is None or a == AUG) and a not in closure:
                closure.add(a)
                todo.append(a)
    deps = sorted({(a, v) for x in closure for a, v in pred.get(x, []) if v is not None and a != AUG})
    root = any(a == AUG for x in closure for a, v in pred.get(x, []))
    return deps, root


def oracle(case):
    """List of (signature, message).  Asserts what the property states."""
    err = case.get("error")
    if err and err.startswith("cfg:"):
        return [("exception:" + err, f"CFG.from_bytecode raised {err[4:]} for a valid code object")]
    res = []
    w = wellformed(case["nodes"], case["edges"])
    if w:
        res.append(("cfg:not-wellformed:" + w, f"control-flow graph violates: {w}"))
    if err:
        what = "ControlDependenceGraph.compute" if err.startswith("cdg:") else "a CDG query"
        res.append(("exception:" + err, f"{what} raised {err.split(':', 1)[1]} for a valid code object"))
    if w or err:
        return res
    exp = ferrante(case["nodes"], case["edges"])
    got = set(case["cdg"])
    pairs = {(a, b) for a, _, b in got}
    for t in exp:
        if t not in got:
            kind = "label-overwritten" if (t[0], t[2]) in pairs else "plain"
            res.append((f"cdg:missing-edge:{kind}", f"edge {t} required by the post-dominance definition is not in the CDG"))
            break
    for t in sorted(got, key=_k):
        if t not in set(exp):
            res.append(("cdg:extra-edge", f"CDG edge {t} is not a control dependence by the definition"))
            break
    for n, deps, root in case["obs"]:
        d2, r2 = queries(case["cdg"], n)
        if not deps and not root and n != AUG:
            res.append(("cdg:root:node-without-dependency-not-root", f"node {n} depends on no branch but is not root dependent"))
            break
        if sorted(deps) != d2:
            res.append(("cdg:query:dependencies", f"get_control_dependencies({n}) = {deps}, the CDG edges give {d2}"))
            break
        if root != r2:
            res.append(("cdg:query:root", f"is_control_dependent_on_root({n}) = {root}, the CDG edges give {r2}"))
            break
    return res


# ------------------------------------------------------------------------------------------------
def c_lab(v):
    return copt(None if v is None else cbool(v))


def c_ledge(t):
    return f"({cN(t[0])}, {c_lab(t[1])}, {cN(t[2])})"


def c_cfg(case):
    return "{| C06.nodes := %s; C06.edges := %s |}" % (clist(cN(n) for n in case["nodes"]), clist(c_ledge(e) for e in case["edges"]))


def c_case(case):
    obs = clist(f"({cN(n)}, {clist(cpair(cN(a), cbool(v)) for a, v in deps)}, {cbool(root)})" for n, deps, root in case["obs"])
    return f"({c_cfg(case)}, {clist(c_ledge(e) for e in case['cdg'])}, {obs})"


# ------------------------------------------------------------------------------------------------
STDLIB_SKIP = {"antigravity", "this", "__phello__", "__hello__"}


def stdlib_files():
    """Pure-Python stdlib sources (compiled only, never imported)."""
    root = Path(sysconfig.get_paths()["stdlib"])
    files = sorted(p for p in root.glob("*.py") if p.stem not in STDLIB_SKIP)
    for pkg in ("json", "email", "importlib", "collections", "concurrent/futures", "html", "http", "logging",
                "urllib", "xml/etree", "xml/dom", "unittest", "asyncio", "re", "tomllib", "zoneinfo", "sqlite3", "wsgiref"):
        files += sorted((root / pkg).glob("*.py"))
    return files
