"""C11 — adding tests never lowers coverage / raises fitness; trace merging is order independent.

T  static proofs (Properties/C11.v).
K2 random families of REAL ExecutionTrace objects merged in random orders and groupings by the real
   ExecutionTrace.merge / analyze_results; the projection of the result, the validity verdicts and
   (valid families) the values of the real compute_* functions are compared with the model inside
   Coq (distances as exact rationals).  Families: tracer-shaped valid ones, malformed ones
   (negative distances, differing key sets, unregistered ids), and traces of real pynguin runs.
S  direct oracle on the implementation, independent of the model: permutation / grouping
   independence of analyze_results and of every suite-level metric, monotonicity of every suite
   coverage / fitness / is_covered function of pynguin.ga.computations when a test is added, and
   "merge leaves its argument untouched".  A separate NaN stream only documents that `min` is
   order dependent on NaN (excluded by C04)."""
from __future__ import annotations

import json
import math

import vlib
from vlib import cZ, cbool, clist

from props import _c11_lib as L

SRC = ["src/pynguin/instrumentation/tracer.py", "src/pynguin/ga/fitness_metrics.py",
       "src/pynguin/ga/computations.py"]
IMPORTS = "From Coq Require Import QArith.\nFrom Verif Require Import Models.C10 Models.C11.\nOpen Scope Z_scope."
TOL = 1e-9
FIELDS = [("code", "executed_code_objects"), ("pred", "executed_predicates"), ("td", "true_distances"),
          ("fd", "false_distances"), ("cov", "covered_line_ids"), ("chk", "checked_lines")]


# ------------------------------------------------------------------------------------------------
# merge scripts:  ["L", i] | ["N", l, r] (l.merge(r)) | ["A", [children]] (analyze_results)
def gen_tree(rng, idxs):
    idxs = list(idxs)
    rng.shuffle(idxs)

    def go(xs):
        if len(xs) == 1:
            return ["A", [["L", xs[0]]]] if rng.random() < 0.15 else ["L", xs[0]]
        if rng.random() < 0.4:
            k = rng.randrange(1, len(xs) + 1)
            # analyze_results over k groups
            cuts = sorted(rng.sample(range(1, len(xs)), min(k - 1, len(xs) - 1))) if len(xs) > 1 else []
            parts = [xs[a:b] for a, b in zip([0] + cuts, cuts + [len(xs)])]
            if len(parts) == 1:
                return ["A", [["L", i] for i in xs]]
            return ["A", [go(p) for p in parts]]
        k = rng.randrange(1, len(xs))
        return ["N", go(xs[:k]), go(xs[k:])]
    return go(idxs) if idxs else ["A", []]


def tree_leaves(t):
    if t[0] == "L":
        return [t[1]]
    if t[0] == "N":
        return tree_leaves(t[1]) + tree_leaves(t[2])
    return [i for c in t[1] for i in tree_leaves(c)]


class _Res:
    def __init__(self, trace):
        self.execution_trace = trace


def eval_impl(tree, specs, mutated):
    """Run the merge script on fresh real objects.  `mutated` collects (component) names when a
    merge call changed its argument."""
    from pynguin.ga.fitness_metrics import analyze_results

    kind = tree[0]
    if kind == "L":
        return L.build_trace(specs[tree[1]])
    if kind == "N":
        left, right = eval_impl(tree[1], specs, mutated), eval_impl(tree[2], specs, mutated)
        before = repr(L.project(right))
        left.merge(right)
        if repr(L.project(right)) != before:
            mutated.append("merge")
        return left
    children = [eval_impl(c, specs, mutated) for c in tree[1]]
    before = [repr(L.project(c)) for c in children]
    res = analyze_results([_Res(c) for c in children])
    if [repr(L.project(c)) for c in children] != before:
        mutated.append("analyze_results")
    return res


def ctree(tree, specs):
    kind = tree[0]
    if kind == "L":
        return f"(C11.Leaf {L.ctrace(specs[tree[1]])})"
    if kind == "N":
        return f"(C11.Node {ctree(tree[1], specs)} {ctree(tree[2], specs)})"
    acc = "(C11.Leaf C10.empty_trace)"
    for c in tree[1]:
        acc = f"(C11.Node {acc} {ctree(c, specs)})"
    return acc


def citree(tree, specs):
    kind = tree[0]
    if kind == "L":
        return f"(C11.ILeaf {L.citrace(specs[tree[1]])})"
    if kind == "N":
        return f"(C11.INode {citree(tree[1], specs)} {citree(tree[2], specs)})"
    acc = "(C11.ILeaf C11.iempty)"
    for c in tree[1]:
        acc = f"(C11.INode {acc} {citree(c, specs)})"
    return acc


# ------------------------------------------------------------------------------------------------
# the real metric functions
def metric_values(trace, sp, ex):
    """Pure functions of fitness_metrics on a merged trace (for the K2 comparison)."""
    import pynguin.ga.fitness_metrics as fm

    n = len(sp.existing_lines)
    return {
        "bf": fm.compute_branch_distance_fitness(trace, sp, set(ex[0]), set(ex[1]), set(ex[2])),
        "bc": fm.compute_branch_distance_fitness_is_covered(trace, sp, set(ex[0]), set(ex[1]), set(ex[2])),
        "bcov": fm.compute_branch_coverage(trace, sp),
        "lf": n - len(trace.covered_line_ids),
        "lc": fm.compute_line_coverage_fitness_is_covered(trace, sp),
        "lcov": fm.compute_line_coverage(trace, sp),
        "cf": n - len(trace.checked_lines),
        "cc": fm.compute_checked_coverage_statement_fitness_is_covered(trace, sp),
        "ccov": 1.0 if n == 0 else len(trace.checked_lines) / n,
    }


def cmetrics(m):
    return "(Some (C11.Build_metrics %s %s %s %s %s %s %s %s %s))" % (
        L.cQ(m["bf"]), cbool(m["bc"]), L.cQ(m["bcov"]), L.zlit(m["lf"]), cbool(m["lc"]), L.cQ(m["lcov"]),
        L.zlit(m["cf"]), cbool(m["cc"]), L.cQ(m["ccov"]))


class _Chrom:
    changed = False

    def __init__(self, spec):
        self._r = _Res(L.build_trace(spec))

    def get_last_execution_result(self):
        return self._r


class _Suite:
    def __init__(self, specs):
        self.test_case_chromosomes = [_Chrom(s) for s in specs]


class _Executor:
    def __init__(self, sp):
        self.subject_properties = sp

    def execute_multiple(self, test_cases):
        return [None for _ in test_cases]


def suite_functions(sp, ex):
    """Every suite-level function of pynguin.ga.computations that is a function of the merged trace:
    name -> (callable(suite), kind) with kind in {"cov", "fit", "covered"}."""
    import pynguin.ga.computations as ff

    e = _Executor(sp)
    bf = ff.BranchDistanceTestSuiteFitnessFunction(e)
    bfx = ff.BranchDistanceTestSuiteFitnessFunction(e)
    bfx.restrict(set(ex[0]), set(ex[1]), set(ex[2]))
    lf, cf = ff.LineTestSuiteFitnessFunction(e), ff.StatementCheckedTestSuiteFitnessFunction(e)
    return {
        "branch_coverage": (ff.TestSuiteBranchCoverageFunction(e).compute_coverage, "cov"),
        "line_coverage": (ff.TestSuiteLineCoverageFunction(e).compute_coverage, "cov"),
        "checked_coverage": (ff.TestSuiteStatementCheckedCoverageFunction(e).compute_coverage, "cov"),
        "branch_fitness": (bf.compute_fitness, "fit"),
        "branch_fitness_restricted": (bfx.compute_fitness, "fit"),
        "line_fitness": (lf.compute_fitness, "fit"),
        "checked_fitness": (cf.compute_fitness, "fit"),
        "branch_is_covered": (bf.compute_is_covered, "covered"),
        "branch_is_covered_restricted": (bfx.compute_is_covered, "covered"),
        "line_is_covered": (lf.compute_is_covered, "covered"),
        "checked_is_covered": (cf.compute_is_covered, "covered"),
    }


# ------------------------------------------------------------------------------------------------
# S: direct oracle
def oracle_order(specs, tree1, tree2):
    """Two scripts over the same traces must give the same sets / maps.  Returns a component or None."""
    a = L.canon(L.project(eval_impl(tree1, specs, [])))
    b = L.canon(L.project(eval_impl(tree2, specs, [])))
    for f, name in FIELDS:
        if a[f] != b[f]:
            return name, a[f], b[f]
    return None


def oracle_shared(specs):
    """The per-test traces are cached and merged again and again: the same objects evaluated by
    analyze_results in different groupings (same order) and repeatedly must give the same instruction
    list and assertion positions, and must stay untouched themselves.  Returns (signature, message)|None."""
    from pynguin.ga.fitness_metrics import analyze_results

    leaves = [L.build_trace(s) for s in specs]
    before = [repr(L.project(t)) for t in leaves]

    def A(ts):
        return analyze_results([_Res(t) for t in ts])

    def part(t):
        p = L.project(t)
        return p["instr"], p["asserts"]
    n = len(leaves)
    results = [("flat", part(A(leaves)))]
    if n >= 2:
        k = 1 + (n - 1) // 2
        results.append(("left-grouped", part(A([A(leaves[:k])] + leaves[k:]))))
        results.append(("right-grouped", part(A(leaves[:k - 1 or 1] + [A(leaves[k - 1 or 1:])]))))
    results.append(("flat-again", part(A(leaves))))
    if [repr(L.project(t)) for t in leaves] != before:
        return ("merge:mutates-argument:cached-trace",
                "analyze_results over cached traces changed one of them (e.g. executed assertion positions)")
    for name, r in results[1:]:
        if r != results[0][1]:
            what = "executed_instructions" if r[0] != results[0][1][0] else "executed_assertions"
            return (f"grouping:{what}", f"{name} merge of the same traces in the same order gives {what} "
                    f"{r[1] if what == 'executed_assertions' else '...'} instead of {results[0][1][1] if what == 'executed_assertions' else '...'}")
    return None


def oracle_additive(specs):
    """Execution counts add up: for the list as it is and for every trace followed directly by an equal copy
    (where an accumulator equal to the merged-in trace occurs).  Returns (signature, message)|None."""
    from pynguin.ga.fitness_metrics import analyze_results

    def counts(idx):
        merged = analyze_results([_Res(L.build_trace(specs[i])) for i in idx])
        exp = {}
        for i in idx:
            for k, c in specs[i]["pred"]:
                exp[k] = exp.get(k, 0) + c
        return dict(merged.executed_predicates), exp
    n = len(specs)
    orders = [list(range(n))] + [[i, i] + [j for j in range(n) if j != i] for i in range(min(n, 3))]
    for idx in orders:
        got, exp = counts(idx)
        if got != exp:
            dup = len(set(idx)) < len(idx)
            return ("additive:executed_predicates" + (":equal-traces" if dup else ""),
                    f"analyze_results over traces {idx}: execution counts {sorted(got.items())}, the sum is {sorted(exp.items())}")
        first = L.build_trace(specs[idx[0]])
        if n and len(idx) >= 2 and idx[0] == idx[1]:
            twin = L.build_trace(specs[idx[0]])
            before = L.project(first)
            first.merge(twin)
            after = L.project(first)
            if before["instr"] and len(after["instr"]) != 2 * len(before["instr"]):
                return ("additive:executed_instructions:equal-traces",
                        "merging an equal trace did not append its instructions")
    return None


def oracle_monotone(specs, base_idx, add_idx, pos, sp, ex):
    """Suite `base` vs `base` with test `add` inserted at `pos`: every coverage must not drop, every
    fitness must not rise, covered verdicts must stay.  Returns (function name, before, after)|None."""
    base = [specs[i] for i in base_idx]
    ext = base[:pos] + [specs[add_idx]] + base[pos:]
    for name, (fn, kind) in suite_functions(sp, ex).items():
        before, after = fn(_Suite(base)), fn(_Suite(ext))
        if kind == "cov" and not after >= before - TOL:
            return name, before, after
        if kind == "fit" and not after <= before + TOL:
            return name, before, after
        if kind == "covered" and before and not after:
            return name, before, after
    return None


def oracle_metrics_order(specs, order1, order2, sp, ex):
    for name, (fn, kind) in suite_functions(sp, ex).items():
        v1, v2 = fn(_Suite([specs[i] for i in order1])), fn(_Suite([specs[i] for i in order2]))
        if (kind == "covered" and v1 != v2) or (kind != "covered" and not math.isclose(v1, v2, rel_tol=0, abs_tol=TOL)):
            return name, v1, v2
    return None


def shrink_family(idx, still_fails):
    idx = list(idx)
    changed = True
    while changed and len(idx) > 1:
        changed = False
        for i in range(len(idx)):
            cand = idx[:i] + idx[i + 1:]
            if still_fails(cand):
                idx, changed = cand, True
                break
    return idx


# ------------------------------------------------------------------------------------------------
def gen_family(rng, kind):
    reg = L.gen_registry(rng)
    sp = L.make_subject_properties(reg)
    ids = L.registry_of(sp)
    n = rng.choice([1, 2, 2, 3, 4, 6])
    if kind == "valid":
        specs = [L.gen_valid_trace(rng, ids) for _ in range(n)]
    else:
        specs = [L.gen_malformed_trace(rng, ids) if rng.random() < 0.7 else L.gen_valid_trace(rng, ids) for _ in range(n)]
    # test cases that do the same thing have EQUAL traces (a test and its clone): put copies next to and
    # away from their original
    if rng.random() < 0.4:
        for _ in range(rng.choice([1, 1, 2])):
            i = rng.randrange(len(specs))
            dup = json.loads(json.dumps(L.spec_to_json(specs[i])))
            specs.insert(rng.choice([i + 1, rng.randrange(len(specs) + 1)]), L.spec_from_json(dup))
    return {"kind": kind, "reg": reg, "specs": specs}


def gen_exclusions(rng, ids):
    def sub(xs):
        return sorted(x for x in xs if rng.random() < 0.25)
    return [sub(ids["codes"]), sub(ids["predicates"]), sub(ids["predicates"])]


def family_to_json(fam):
    return {"kind": fam["kind"], "reg": {"codes": fam["reg"]["codes"], "preds": [list(p) for p in fam["reg"]["preds"]],
                                         "lines": [list(l) for l in fam["reg"]["lines"]]},
            "specs": [L.spec_to_json(s) for s in fam["specs"]], **{k: fam[k] for k in ("tree", "ex") if k in fam}}


def family_from_json(j):
    reg = {"codes": list(j["reg"]["codes"]), "preds": [tuple(p) for p in j["reg"]["preds"]],
           "lines": [tuple(l) for l in j["reg"]["lines"]], "firstlines": {}}
    fam = {"kind": j.get("kind", "valid"), "reg": reg, "specs": [L.spec_from_json(s) for s in j["specs"]]}
    for k in ("tree", "ex"):
        if k in j:
            fam[k] = j[k]
    return fam


def real_run_families(ctx, n_runs):
    """Traces of the test cases of suites generated by real short pynguin runs."""
    import pipeline

    suts = sorted((vlib.VERIF / "corpus" / "C35_sut").glob("*.py"))
    algos = ["MOSA", "WHOLE_SUITE", "RANDOM", "DYNAMOSA"]
    jobs = []
    for k in range(n_runs):
        a = algos[k % len(algos)]
        jobs.append(dict(sut=str(suts[k % len(suts)]), algorithm=a, iterations=ctx.rng.choice([3, 6]),
                         seed=ctx.rng.randrange(10**6), metrics=["BRANCH"] if a == "DYNAMOSA" else ["BRANCH", "LINE"]))
    res = pipeline.run_many(jobs, _extract_traces, workers=min(8, max(1, n_runs)), timeout=180)
    fams = []
    for job, r in zip(jobs, res):
        if "error" in r:
            ctx.count("real-run:error")
            ctx.notes.append(f"real run {job['algorithm']} on {job['sut']}: {r['error']}")
            continue
        ctx.count("real-run:" + job["algorithm"])
        specs = r["specs"][:10]
        if specs:
            fams.append({"kind": "real", "reg": r["reg"], "specs": specs})
    return fams


def assertion_run_families(ctx, n_runs):
    """Real traces with executed assertions (see _assert_child); the in-process oracle on the real
    TestSuiteAssertionCheckedCoverageFunction reports its failures here."""
    from concurrent.futures import ThreadPoolExecutor

    jobs = [{"seed": ctx.rng.randrange(10**6), "n_tests": ctx.rng.choice([3, 4, 6]), "witness": k == 0} for k in range(n_runs)]
    with ThreadPoolExecutor(max_workers=min(8, max(1, n_runs))) as ex:
        res = list(ex.map(lambda j: L.run_forked(_assert_child, j, 240), jobs))
    fams = []
    for job, r in zip(jobs, res):
        if "error" in r:
            ctx.count("assert-run:error")
            ctx.notes.append(f"assertion run {job}: {r['error']}")
            continue
        if r.get("flaky"):
            ctx.count("assert-run:flaky-execution(timeout)")
            ctx.notes.append(f"assertion run {job}: a test execution timed out / was not repeatable; run ignored "
                             f"(would-be signals: {r['dropped_failures']})")
            continue
        ctx.count("assert-run:ok")
        ctx.count("assert-run:executed-assertions", r["n_assertions"])
        ctx.count("assert-run:coverage-evaluations", 2 * len(r["covs"]) + 3)
        for sig, msg in r["failures"]:
            ctx.fail("assert-run:" + sig, msg, {"job": job, "coverages": r["covs"],
                                                "specs": [L.spec_to_json(s) for s in r["specs"]]})
        if r["specs"]:
            fams.append({"kind": "real-assert", "reg": r["reg"], "specs": r["specs"][:6]})
    return fams, sum(len(r.get("failures", [])) for r in res)


def _extract_traces(algorithm, suite, executor, cluster, job):
    import pynguin.ga.computations as ff

    sp = executor.subject_properties
    ff.TestSuiteBranchCoverageFunction(executor).compute_coverage(suite)  # makes sure every test has a result
    specs = []
    for tc in suite.test_case_chromosomes:
        r = tc.get_last_execution_result()
        if r is not None and r.execution_trace is not None:
            specs.append(L.project(r.execution_trace))
    reg = {"codes": list(sp.existing_code_objects),
           "preds": [(k, v.line_no, v.code_object_id) for k, v in sp.existing_predicates.items()],
           "lines": [(k, v.line_number) for k, v in sp.existing_lines.items()], "firstlines": {}}
    return {"specs": specs, "reg": reg}


# ------------------------------------------------------------------------------------------------
# real traces WITH executed assertions: a module instrumented for checked coverage, hand-built test cases with
# assertions executed by the real executor (test instrumentation + RemoteAssertionExecutionObserver)
ASSERT_CALLS = [  # (call template, expected-value function, argument generator)
    ("alpha({0})", lambda x: x + 1, lambda r: (r.randrange(-5, 50),)),
    ("beta({0})", lambda y: "negative" if y < 0 else "non-negative", lambda r: (r.randrange(-5, 6),)),
    ("delta({0}, {1})", lambda a, b: a - b if a > b else (0 if a == b else b - a),
     lambda r: (r.randrange(0, 6), r.randrange(0, 6))),
    ("gamma([{0}, {1}])", lambda a, b: [a * 2, b * 2], lambda r: (r.randrange(0, 9), r.randrange(0, 9))),
    ("epsilon('{0}')", lambda s: s.count("a"), lambda r: ("".join(r.choice("abc") for _ in range(r.randrange(0, 5))),)),
]


def _assert_child(job):
    """Forked child.  Returns per-test trace projections (with instruction tags and assertion positions),
    the registry and the failures of the in-process oracle on TestSuiteAssertionCheckedCoverageFunction."""
    import importlib
    import logging
    import random
    import shutil
    import sys
    import tempfile
    from pathlib import Path

    vlib.setup_impl_path()
    logging.disable(logging.CRITICAL)
    import libcst as cst

    import pynguin.assertion.assertion as ass
    import pynguin.configuration as config
    import pynguin.ga.testcasechromosome as tcc
    import pynguin.ga.testsuitechromosome as tsc
    import pynguin.testcase.testcase as tc
    from pynguin.ga.computations import TestSuiteAssertionCheckedCoverageFunction
    from pynguin.instrumentation.machinery import install_import_hook
    from pynguin.instrumentation.tracer import SubjectProperties
    from pynguin.testcase.execution import RemoteAssertionExecutionObserver, TestCaseExecutor
    from pynguin.utils.naming import get_module_alias

    rng = random.Random(job["seed"])
    mod = "c11a_shapes"
    tmp = Path(tempfile.mkdtemp(prefix="verif-c11a-", dir="/var/tmp"))
    try:
        shutil.copy(vlib.VERIF / "corpus" / "C35_sut" / "shapes.py", tmp / f"{mod}.py")
        sys.path.insert(0, str(tmp))
        config.configuration = config.Configuration(
            algorithm=config.Algorithm.RANDOM, project_path=str(tmp),
            test_case_output=config.TestCaseOutputConfiguration(output_path=""), module_name=mod)
        config.configuration.statistics_output.coverage_metrics = [config.CoverageMetric.CHECKED]
        alias = get_module_alias(mod)

        def stmt(code, var):
            return tc.Statement(node=cst.parse_module(code + "\n").body[0], bound_variable=var, bound_type=None)

        def make_test():
            t = tc.TestCase()
            for k in range(rng.choice([1, 1, 2])):
                tmpl, fn, gen = rng.choice(ASSERT_CALLS)
                args = gen(rng)
                t.add_statement(stmt(f"var_{k} = {alias}." + tmpl.format(*args), f"var_{k}"))
                if rng.random() < 0.85:
                    t.get_statement(-1).assertions.append(ass.ObjectAssertion(f"var_{k}", fn(*args)))
            return t

        sp = SubjectProperties()
        failures = []
        with install_import_hook(mod, sp):
            with sp.instrumentation_tracer:
                importlib.reload(importlib.import_module(mod))
            executor = TestCaseExecutor(sp)
            executor.set_instrument(True)
            executor.add_remote_observer(RemoteAssertionExecutionObserver())
            cov_fn = TestSuiteAssertionCheckedCoverageFunction(executor)
            chroms = [tcc.TestCaseChromosome(make_test()) for _ in range(job["n_tests"])]
            tags, aids = {}, {}

            def proj(trace):
                return L.project(trace,
                                 lambda i: tags.setdefault((i.code_object_id, i.node_id, i.opcode, i.lineno, i.instr_original_index, repr(i.argument)), len(tags)),
                                 lambda a: aids.setdefault(id(a), len(aids)))

            def digests(cs):
                return [None if c.get_last_execution_result() is None else repr(proj(c.get_last_execution_result().execution_trace)) for c in cs]

            def suite_of(cs):
                s = tsc.TestSuiteChromosome()
                for c in cs:
                    s.add_test_case_chromosome(c)
                return s

            covs, fresh = [], []
            try:
                prev = None
                for k in range(1, len(chroms) + 1):
                    suite = suite_of(chroms[:k])          # the chromosomes keep their cached results
                    cov = cov_fn.compute_coverage(suite)
                    d = digests(chroms[:k])
                    again = cov_fn.compute_coverage(suite)
                    if digests(chroms[:k]) != d:
                        failures.append(("merge:mutates-argument:cached-trace",
                                         f"evaluating the suite of {k} tests changed a cached per-test trace (assertion positions)"))
                    if again != cov:
                        failures.append(("reevaluation:assertion_checked_coverage",
                                         f"coverage of the unchanged suite of {k} tests changed {cov} -> {again}"))
                    if prev is not None and cov < prev - 1e-12:
                        failures.append(("monotone:assertion_checked_coverage",
                                         f"adding test {k - 1} lowered assertion-checked coverage {prev} -> {cov}"))
                    prev = cov
                    covs.append(cov)
                order = list(range(len(chroms)))
                rng.shuffle(order)
                shuffled = cov_fn.compute_coverage(suite_of([chroms[i] for i in order]))
                if covs and shuffled != covs[-1]:
                    failures.append(("order:metric:assertion_checked_coverage",
                                     f"assertion-checked coverage depends on the order of the tests: {covs[-1]} vs {shuffled} ({order})"))
                # fresh executions of the same test cases give the ground truth for the whole suite
                fresh = [tcc.TestCaseChromosome(c.test_case.clone()) for c in chroms]
                fresh_cov = cov_fn.compute_coverage(suite_of(fresh))
                final = cov_fn.compute_coverage(suite_of(chroms))
                if covs and fresh_cov != final:
                    failures.append(("stale:assertion_checked_coverage",
                                     f"suite with cached results has coverage {final}, the same tests executed freshly {fresh_cov}"))
            except Exception as e:  # noqa: BLE001 - e.g. IndexError of the slicer on a corrupted position
                failures.append((f"assertion_checked_coverage:raises:{type(e).__name__}", f"{type(e).__name__}: {e}"))
            if job.get("witness"):
                # corpus witness of the recorded finding: the backward slice of an assertion runs on into the
                # test case merged before it, so the suite's coverage depends on the order of its tests
                def fixed(code, expected=None):
                    t = tc.TestCase()
                    t.add_statement(stmt(f"var_0 = {alias}.{code}", "var_0"))
                    if expected is not None:
                        t.get_statement(-1).assertions.append(ass.ObjectAssertion("var_0", expected))
                    return tcc.TestCaseChromosome(t)
                try:
                    c1 = cov_fn.compute_coverage(suite_of([fixed("alpha(3)"), fixed("delta(4, 2)", 2)]))
                    c2 = cov_fn.compute_coverage(suite_of([fixed("delta(4, 2)", 2), fixed("alpha(3)")]))
                    if c1 != c2:
                        failures.append(("order:metric:assertion_checked_coverage",
                                         f"suite [alpha(3); delta(4,2) with assertion] has assertion-checked coverage {c1}, "
                                         f"the same tests in the other order {c2} (slice crosses the test boundary)"))
                except Exception as e:  # noqa: BLE001
                    failures.append((f"assertion_checked_coverage:raises:{type(e).__name__}", f"{type(e).__name__}: {e}"))
            # a test execution that timed out (machine under load) gives an empty trace: such a run is no
            # ground truth; likewise when two fresh evaluations of the same tests disagree
            timed_out = any(getattr(c.get_last_execution_result(), "timeout", False)
                            for c in chroms + fresh if c.get_last_execution_result() is not None)
            if failures and not timed_out:
                try:
                    f1 = cov_fn.compute_coverage(suite_of([tcc.TestCaseChromosome(c.test_case.clone()) for c in chroms]))
                    f2 = cov_fn.compute_coverage(suite_of([tcc.TestCaseChromosome(c.test_case.clone()) for c in chroms]))
                    timed_out = f1 != f2
                except Exception:  # noqa: BLE001
                    pass
            if timed_out:
                return {"flaky": True, "dropped_failures": [f[0] for f in failures]}
            # projections of freshly executed tests for the model comparison in the parent
            specs = []
            for c in chroms:
                r = executor.execute(c.test_case.clone())
                specs.append(proj(r.execution_trace))
            reg = {"codes": list(sp.existing_code_objects),
                   "preds": [(k, v.line_no, v.code_object_id) for k, v in sp.existing_predicates.items()],
                   "lines": [(k, v.line_number) for k, v in sp.existing_lines.items()], "firstlines": {}}
        return {"specs": specs, "reg": reg, "failures": failures, "covs": covs,
                "n_assertions": sum(len(s["asserts"]) for s in specs)}
    finally:
        shutil.rmtree(tmp, ignore_errors=True)


# ------------------------------------------------------------------------------------------------
def check_family(ctx, fam, cases, recs):
    """Runs K2 data collection and the S oracle for one family.  Returns number of oracle failures."""
    rng = ctx.rng
    specs = fam["specs"]
    sp = L.make_subject_properties(fam["reg"])
    ids = L.registry_of(sp)
    n = len(specs)
    tree = fam.get("tree") or gen_tree(rng, range(n))
    ex = fam.get("ex") or gen_exclusions(rng, ids)
    failures = 0
    # --- implementation run of the script
    mutated = []
    merged = eval_impl(tree, specs, mutated)
    obs = L.project(merged)
    leaves = [specs[i] for i in tree_leaves(tree)]
    all_valid = all(L.py_valid(s, ids) for s in leaves)
    ctx.count("family:" + fam["kind"])
    ctx.count("family-size:%d" % n)
    ctx.count("valid-leaves" if all_valid else "invalid-leaves")
    metrics = None
    if all_valid:
        metrics = metric_values(merged, sp, ex)
    case = "(C11.Build_case %s %s %s %s %s %s %s %s %s %s)" % (
        L.cregistry(ids), L.czlist(ex[0]), L.czlist(ex[1]), L.czlist(ex[2]), ctree(tree, specs),
        citree(tree, specs), L.citrace(obs),
        L.ctrace(obs), cbool(all_valid), cmetrics(metrics) if metrics else "None")
    cases.append(case)
    recs.append({"family": family_to_json({**fam, "tree": tree, "ex": ex}),
                 "observed": L.spec_to_json(obs), "metrics": repr(metrics)})
    ctx.case_seen((repr(specs), repr(tree), repr(ex)), nontrivial=n >= 2 and any(s["pred"] or s["cov"] for s in specs))
    replay = {"family": family_to_json({**fam, "tree": tree, "ex": ex})}
    if mutated:
        failures += 1
        ctx.fail("merge:mutates-argument:" + mutated[0], f"{mutated[0]} changed the trace that was merged in", replay)
    # --- S: cached traces merged repeatedly and in different groupings (instruction part)
    if any(s.get("asserts") for s in specs):
        ctx.count("families-with-executed-assertions")
    r = oracle_shared(specs)
    if r:
        failures += 1
        ctx.fail(r[0], r[1], replay)
    # --- S: execution counts are additive, equal traces included
    if len({repr(s) for s in specs}) < n:
        ctx.count("families-with-equal-traces")
    r = oracle_additive(specs)
    if r:
        failures += 1
        ctx.fail(r[0], r[1], replay)
    # --- S: order / grouping independence of the trace
    tree2 = gen_tree(rng, range(n))
    r = oracle_order(specs, tree, tree2)
    if r:
        failures += 1
        comp, a, b = r

        def still(idx, comp=comp):
            if len(idx) < 1:
                return False
            sub = [specs[i] for i in idx]
            rr = oracle_order(sub, ["A", [["L", i] for i in range(len(sub))]],
                              ["A", [["L", i] for i in reversed(range(len(sub)))]])
            return rr is not None and rr[0] == comp
        idx = list(range(n))
        if still(idx):
            idx = shrink_family(idx, still)
            replay = {"family": family_to_json({**fam, "specs": [specs[i] for i in idx]}), "orders": "forward vs reversed"}
        else:
            replay = {**replay, "tree2": tree2}
        ctx.fail("order:" + comp + ("" if all_valid else ":malformed-input"), f"merging the same traces in two orders/groupings gives different {comp}: {a} vs {b}", replay)
    if all_valid:
        # --- S: metrics independent of the order of the test cases
        o1 = list(range(n))
        o2 = o1[:]
        rng.shuffle(o2)
        r = oracle_metrics_order(specs, o1, o2, sp, ex)
        if r:
            failures += 1
            ctx.fail("order:metric:" + r[0], f"{r[0]} depends on the order of the test cases: {r[1]} vs {r[2]} (order {o2})",
                     {**replay, "order2": o2})
        # --- S: adding a test
        for _ in range(min(3, n)):
            add = rng.randrange(n)
            base = [i for i in range(n) if i != add and rng.random() < 0.8]
            rng.shuffle(base)
            pos = rng.randrange(len(base) + 1)
            r = oracle_monotone(specs, base, add, pos, sp, ex)
            ctx.count("monotone-checks")
            if r:
                failures += 1
                name = r[0]

                def still(b, name=name, add=add):
                    rr = oracle_monotone(specs, b, add, min(pos, len(b)), sp, ex)
                    return rr is not None and rr[0] == name
                b2 = base
                changed = True
                while changed and b2:
                    changed = False
                    for i in range(len(b2)):
                        cand = b2[:i] + b2[i + 1:]
                        if still(cand):
                            b2, changed = cand, True
                            break
                rr = oracle_monotone(specs, b2, add, min(pos, len(b2)), sp, ex) or r
                ctx.fail("monotone:" + name,
                         f"adding a test case changed {name} from {rr[1]} to {rr[2]}",
                         {"family": family_to_json({**fam, "specs": [specs[i] for i in b2] + [specs[add]], "ex": ex}),
                          "suite": list(range(len(b2))), "added": len(b2), "position": min(pos, len(b2))})
                break
    return failures


def nan_stream(ctx, n):
    """Documentation only: with NaN distances `min` (hence merge) is order dependent."""
    nan = float("nan")
    dep = 0
    for _ in range(n):
        k = ctx.rng.randrange(3)
        a = {"code": [], "pred": [(k, 1)], "td": [(k, ctx.rng.choice([nan, 1.0]))], "fd": [(k, 0.0)], "cov": [], "chk": []}
        b = {"code": [], "pred": [(k, 1)], "td": [(k, ctx.rng.choice([nan, 2.0, 0.5]))], "fd": [(k, 0.0)], "cov": [], "chk": []}
        r = oracle_order([a, b], ["N", ["L", 0], ["L", 1]], ["N", ["L", 1], ["L", 0]])
        if r:
            dep += 1
    ctx.count("nan-stream:pairs", n)
    ctx.count("nan-stream:order-dependent", dep)
    return dep


def run(ctx: vlib.Ctx):
    vlib.setup_impl_path()
    ctx.digest_sources(SRC)
    ctx.coq_static()
    ctx.log("static development checked")
    if not ctx.quick:
        ctx.coqchk()
    n_valid, n_mal, n_runs, n_aruns = (160, 50, 2, 2) if ctx.quick else (3600, 1000, 16, 12)
    corpus = [family_from_json(j) for j in json.loads((vlib.VERIF / "corpus" / "C11.json").read_text())]
    fams = list(corpus)
    fams += [gen_family(ctx.rng, "valid") for _ in range(n_valid)]
    fams += [gen_family(ctx.rng, "malformed") for _ in range(n_mal)]
    try:
        fams += real_run_families(ctx, n_runs)
    except Exception as e:  # noqa: BLE001 - real runs are an extra source of traces, never a verdict
        ctx.notes.append(f"real runs unavailable: {type(e).__name__}: {e}")
    ctx.log(f"{len(fams)} families generated (incl. real runs)")
    cases, recs = [], []
    n_or = 0
    try:
        afams, n_fail = assertion_run_families(ctx, n_aruns)
        fams += afams
        n_or += n_fail
    except Exception as e:  # noqa: BLE001
        ctx.notes.append(f"assertion runs unavailable: {type(e).__name__}: {e}")
    for fam in fams:
        n_or += check_family(ctx, fam, cases, recs)
    ctx.log(f"implementation runs and direct oracle done ({n_or} oracle failures)")
    dep = nan_stream(ctx, 40)
    ctx.notes.append(f"NaN stream (documentation, excluded by C04): {dep}/40 pairs merge order-dependently")
    ctx.sample(recs[len(corpus)] if len(recs) > len(corpus) else recs[0])
    ctx.cov["rule"] = ("families of 1..6 real ExecutionTrace objects over random registries (tracer-shaped valid traces "
                       "built with update_predicate_distances incl. boundary floats; malformed traces; traces of real "
                       "pynguin suites), one random merge script (merge / analyze_results, random order and grouping) "
                       "per family; non-trivial = at least 2 traces and some predicate or line data; distinct = "
                       "distinct (traces, script, exclusions)")
    ctx.leg("S", oracle_failures=n_or, families=len(fams))
    bad = ctx.run_cases("C11_cases", IMPORTS, "C11.case", "C11.check_case", cases, shard=24 if ctx.quick else 100)
    if bad is None:
        pass
    elif bad:
        ctx.leg("K2", ok=False, mismatches=len(bad))
        if n_or == 0:
            ctx.broken("correspondence:C11-model-vs-merge",
                       "the model of ExecutionTrace.merge / analyze_results / the metric functions (about which the "
                       "theorems are proved) no longer reproduces the implementation",
                       {"first_mismatch": recs[bad[0]], "mismatching_cases": len(bad)})
    else:
        ctx.leg("K2", ok=True, cases=len(cases))
    ctx.assumptions += [
        "distances are NaN-free and >= 0 (conclusion of C04); with NaN, Python's min is order dependent (NaN stream)",
        "the binary64 metric values are compared with the model's exact rationals up to 1e-9; only order facts are transferred",
        "only the coverage projection of ExecutionTrace is modelled (executed_instructions, object_addresses and "
        "executed_assertions are concatenated by merge and not order independent by design)",
        "TestSuiteAssertionCheckedCoverageFunction (dynamic slicing of the merged instruction trace) is outside the model",
    ]
    ctx.cov["trusted_base"] += ["hand-written models Models/C10.v (merge, metrics, valid) and Models/C11.v tied by this run's "
                                "correspondence", "harness/props/C11.py, _c11_lib.py (generators, projection, oracle)"]


def replay(ctx, path):
    vlib.setup_impl_path()
    d = json.loads(open(path).read())
    rep = d.get("replay") or d["no_longer_checks"][0]["detail"]["first_mismatch"]
    if "family" not in rep:
        # failure of the in-process oracle on real traces with executed assertions: re-run that job
        r = L.run_forked(_assert_child, rep["job"], 240)
        print("assertion run", rep["job"], "->", {k: v for k, v in r.items() if k in ("failures", "covs", "error")})
        return 0
    fam = family_from_json(rep["family"])
    cases, recs = [], []
    n = check_family(ctx, fam, cases, recs)
    if "suite" in rep:
        sp = L.make_subject_properties(fam["reg"])
        print("monotone oracle:", oracle_monotone(fam["specs"], rep["suite"], rep["added"], rep["position"], sp,
                                                  fam.get("ex") or [[], [], []]))
    print("implementation:", recs[0]["observed"], recs[0]["metrics"])
    print("oracle failures:", [(f.signature, f.what) for f in ctx.failures])
    print("model agrees:", ctx.coq_eval(IMPORTS, "C11.check_case " + cases[0]))
    ctx.failures.clear()
    return 0
