"""C18 helpers: name analysis of Python source with `ast` (independent of libcst and of the writer),
abstraction of a written test file, the static closure oracle and the pytest runner."""
from __future__ import annotations

import ast
import builtins
import json
import os
import re
import subprocess
import sys
import xml.etree.ElementTree as ET

BUILTINS = frozenset(dir(builtins))
PY = sys.executable


# ------------------------------------------------------------------------------------------------
# free / bound names of a statement
def names_of(node: ast.AST) -> tuple[set[str], set[str]]:
    """(uses, binds) of a statement or expression.  Compound statements, comprehensions, lambdas
    and function definitions are treated as one unit: names they bind themselves are not uses."""
    uses: set[str] = set()
    binds: set[str] = set()

    def args_of(a: ast.arguments) -> set[str]:
        r = {x.arg for x in a.posonlyargs + a.args + a.kwonlyargs}
        if a.vararg:
            r.add(a.vararg.arg)
        if a.kwarg:
            r.add(a.kwarg.arg)
        return r

    def visit(n: ast.AST):
        if isinstance(n, ast.Name):
            (uses if isinstance(n.ctx, ast.Load) else binds).add(n.id)
            return
        if isinstance(n, (ast.ListComp, ast.SetComp, ast.GeneratorExp, ast.DictComp)):
            u, b = set(), set()
            for ch in ast.iter_child_nodes(n):
                cu, cb = names_of(ch)
                u |= cu
                b |= cb
            uses.update(u - b)
            return
        if isinstance(n, ast.Lambda):
            u, _ = names_of(n.body)
            for d in n.args.defaults + [k for k in n.args.kw_defaults if k is not None]:
                visit(d)
            uses.update(u - args_of(n.args))
            return
        if isinstance(n, (ast.FunctionDef, ast.AsyncFunctionDef)):
            binds.add(n.name)
            for d in n.decorator_list + n.args.defaults + [k for k in n.args.kw_defaults if k is not None]:
                visit(d)
            u, b = set(), set()
            for st in n.body:
                cu, cb = names_of(st)
                u |= cu
                b |= cb
            uses.update(u - b - args_of(n.args))
            return
        if isinstance(n, ast.ClassDef):
            binds.add(n.name)
            for d in n.decorator_list + n.bases:
                visit(d)
            u, b = set(), set()
            for st in n.body:
                cu, cb = names_of(st)
                u |= cu
                b |= cb
            uses.update(u - b)
            return
        if isinstance(n, (ast.Import, ast.ImportFrom)):
            for al in n.names:
                if al.name != "*":
                    binds.add(al.asname or al.name.split(".")[0])
            return
        if isinstance(n, ast.ExceptHandler) and n.name:
            binds.add(n.name)
        for ch in ast.iter_child_nodes(n):
            visit(ch)

    visit(node)
    if isinstance(node, (ast.If, ast.For, ast.While, ast.With, ast.Try, ast.Match)) or (
        hasattr(ast, "TryStar") and isinstance(node, ast.TryStar)
    ):
        uses -= binds
    return uses, binds


def stmt_names(code: str) -> tuple[set[str], set[str]]:
    mod = ast.parse(code)
    u, b = set(), set()
    for st in mod.body:
        cu, cb = names_of(st)
        u |= cu - b
        b |= cb
    return u, b


# ------------------------------------------------------------------------------------------------
def is_xfail_decorator(d: ast.AST) -> bool:
    return (isinstance(d, ast.Call) and ast.unparse(d.func) == "pytest.mark.xfail"
            and not d.args and len(d.keywords) == 1 and d.keywords[0].arg == "strict"
            and isinstance(d.keywords[0].value, ast.Constant) and d.keywords[0].value.value is True)


def raises_wrapper(n: ast.AST):
    """(exception name, inner statement) if n is `with pytest.raises(Name): <one stmt>`."""
    if not (isinstance(n, ast.With) and len(n.items) == 1 and n.items[0].optional_vars is None and len(n.body) == 1):
        return None
    c = n.items[0].context_expr
    if isinstance(c, ast.Call) and ast.unparse(c.func) == "pytest.raises" and len(c.args) == 1 and not c.keywords:
        e = c.args[0]
        while isinstance(e, ast.Attribute):      # Owner.Error: the root name is what must be bound
            e = e.value
        if isinstance(e, ast.Name):
            return e.id, n.body[0]
    return None


def test_functions(mod: ast.Module):
    return [n for n in mod.body if isinstance(n, ast.FunctionDef) and n.name.startswith("test_")]


def static_unbound(src: str) -> list[tuple[str, str, str]]:
    """Direct oracle: names used by the file that nothing binds.  Returns (where, name, kind)."""
    mod = ast.parse(src)
    out = []
    bound: set[str] = set()
    funcs = []
    for n in mod.body:
        if isinstance(n, ast.FunctionDef) and n.name.startswith("test_"):
            funcs.append(n)
            for d in n.decorator_list:
                u, _ = names_of(d)
                for x in sorted(u - bound - BUILTINS):
                    out.append((n.name + ":decorator", x, "decorator"))
            bound.add(n.name)
            continue
        u, b = names_of(n)
        if isinstance(n, ast.FunctionDef):
            # body names of helper functions (the seed fixture) are resolved at call time
            du = set()
            for d in n.decorator_list:
                du |= names_of(d)[0]
            for x in sorted(du - bound - BUILTINS):
                out.append(("module:" + n.name, x, "header"))
        else:
            for x in sorted(u - bound - BUILTINS):
                out.append(("module", x, "header"))
        bound |= b
    glob = set(bound)
    for n in mod.body:
        if isinstance(n, ast.FunctionDef) and not n.name.startswith("test_"):
            u, _ = names_of(n)
            for x in sorted(u - glob - BUILTINS):
                out.append(("module:" + n.name, x, "header"))
    for f in funcs:
        loc: set[str] = set()
        for st in f.body:
            u, b = names_of(st)
            for x in sorted(u - loc - glob - BUILTINS):
                kind = "pytest" if x == "pytest" else ("assert" if isinstance(st, ast.Assert) else "statement")
                out.append((f.name, x, kind))
            loc |= b
    return out


# ------------------------------------------------------------------------------------------------
def run_pytest(files: list[str], cwd: str, pythonpath: list[str], timeout: int = 600) -> dict:
    """Run pytest in a fresh interpreter; returns {"rc", "tests": {(file, func): (outcome, detail)},
    "collect_errors": [...]}.  outcome in passed|failed|xfailed|xpassed|error|skipped."""
    xml = os.path.join(cwd, f"junit-{os.getpid()}-{abs(hash(tuple(files))) % 10**8}.xml")
    env = {k: v for k, v in os.environ.items() if not k.startswith("PYTEST")}
    env["PYTHONPATH"] = os.pathsep.join(pythonpath)
    env["PYTHONHASHSEED"] = "0"
    env["PYTHONDONTWRITEBYTECODE"] = "1"
    r = subprocess.run(
        [PY, "-m", "pytest", "-q", "-p", "no:cacheprovider", "-p", "no:randomly", "-o", "junit_family=xunit1",
         "--import-mode=importlib", f"--junitxml={xml}", "-x" if False else "-q", *files],
        cwd=cwd, env=env, capture_output=True, text=True, timeout=timeout,
    )
    res = {"rc": r.returncode, "tests": {}, "collect_errors": [], "tail": (r.stdout + r.stderr)[-1500:]}
    if not os.path.exists(xml):
        res["collect_errors"].append(("?", "no junit xml: " + res["tail"][-400:]))
        return res
    root = ET.parse(xml).getroot()
    for tc in root.iter("testcase"):
        f = tc.get("file") or tc.get("classname", "")
        name = tc.get("name", "")
        outcome, detail = "passed", ""
        for ch in tc:
            msg = (ch.get("message") or "") + " " + (ch.text or "")[:6000]
            if ch.tag == "failure":
                outcome = "xpassed" if "XPASS(strict)" in msg else "failed"
                detail = msg
            elif ch.tag == "error":
                outcome, detail = "error", msg
            elif ch.tag == "skipped":
                outcome = "xfailed" if ch.get("type") == "pytest.xfail" else "skipped"
                detail = msg
        if outcome == "error" and (not name or "collect" in (tc.get("classname") or "") or name == f):
            res["collect_errors"].append((f or tc.get("classname", ""), detail))
        else:
            # key by the module pytest collected the item from (classname), not by the file that defines the
            # function: an object imported from the SUT is defined elsewhere but collected here
            cn = (tc.get("classname") or "").split(".")
            owner = next((c for c in cn if c.startswith("test_")), None)
            key_file = owner + ".py" if owner else (os.path.basename(f) if f else "")
            item = name if len(cn) <= 1 or cn[-1] == owner else f"{cn[-1]}::{name}"
            res["tests"][(key_file, item)] = (outcome, detail)
    os.unlink(xml)
    return res


EXC_RE = re.compile(r"\b([A-Z][A-Za-z]*(?:Error|Exception|Warning|Exit|Interrupt))\b")


def exc_class(detail: str) -> str:
    m = EXC_RE.search(detail or "")
    return m.group(1) if m else "Failure"


def assertion_class(detail: str, src: str) -> str:
    """Class of a failing rendered assertion: nan (approx of NaN), static-state (reference rooted at
    the module alias: module/class level state that depends on what ran before), value (else)."""
    m = re.search(r"^>\s+assert (.*)$", detail, re.M)
    line = m.group(1) if m else ""
    if "float('nan')" in line or "float(\"nan\")" in line or re.search(r"\bnan\b", detail.split("\n")[0].lower()):
        return "non-holding-nan"
    am = re.search(r"^(\w+) = sys\.modules\[", src, re.M)
    alias = am.group(1) if am else None
    try:
        test = ast.parse("assert " + line).body[0].test if line else None
    except SyntaxError:
        test = None
    if alias and test is not None:
        left = test.left if isinstance(test, ast.Compare) else test
        if isinstance(left, ast.Call) and left.args:
            left = left.args[0]
        while isinstance(left, ast.Attribute):
            left = left.value
        if isinstance(left, ast.Name) and left.id == alias:
            return "non-holding-static-state"
    return "value"


def judge_file(src: str, fname: str, result: dict) -> list[tuple[str, str]]:
    """The property, stated directly: the file imports; every test without the marker passes; every
    strict-xfail test fails.  Returns [(signature, message)]."""
    bad = []
    try:
        mod = ast.parse(src)
    except SyntaxError as e:
        return [("syntax-error", f"{fname}: {e}")]
    for f, d in result["collect_errors"]:
        if not f or os.path.basename(f) == fname or fname in f or f == "?":
            bad.append((f"import-error:{exc_class(d)}", f"{fname} does not import: {d[:300]}"))
    if bad:
        return bad
    names = [f.name for f in test_functions(mod)]
    for (_f, tname), (outcome, detail) in result["tests"].items():
        # pytest ran something the file does not define: an object of the SUT imported by name
        if not (_f == fname or fname[:-3] in _f):
            continue
        if tname.split("[")[0] not in names:
            bad.append((f"sut-name-collected-as-test:{outcome}", f"{fname}: pytest collected `{tname}`, which the file only imports "
                        f"from the module under test, and reports {outcome}: {detail[:200]}"))
    if len(set(names)) != len(names):
        bad.append(("duplicate-test-name", f"{fname}: {names}"))
    for f in test_functions(mod):
        marked = any(is_xfail_decorator(d) for d in f.decorator_list)
        key = (fname, f.name)
        hit = [v for k, v in result["tests"].items() if k[1] == f.name and (k[0] == fname or k[0].endswith(fname[:-3]) or fname[:-3] in k[0])]
        if not hit:
            bad.append(("test-not-run", f"{fname}::{f.name} has no pytest result ({result['tail'][-200:]})"))
            continue
        outcome, detail = hit[0]
        if marked and outcome != "xfailed":
            bad.append((f"xfail-test-{outcome}", f"{fname}::{f.name} is marked xfail(strict=True) but pytest reports {outcome}: {detail[:200]}"))
        elif not marked and outcome != "passed":
            ec = exc_class(detail)
            extra = ""
            if ec == "NameError":
                m = re.search(r"name '(\w+)' is not defined", detail)
                extra = ":" + ("pytest" if m and m.group(1) == "pytest" else "other")
            if ec == "AssertionError":
                extra = ":" + assertion_class(detail, src)
            bad.append((f"test-{outcome}:{ec}{extra}", f"{fname}::{f.name} reported {outcome}: {detail[:300]}"))
        _ = key
    return bad



# ------------------------------------------------------------------------------------------------
# cause analysis for a failing value assertion: made stale by statement minimisation?
def _item_key(n: ast.AST) -> str:
    """Statements are compared by their right-hand side: removing a later reader turns
    `var = f()` into the expression statement `f()` (remove_unused_variables)."""
    if isinstance(n, ast.Assign) and len(n.targets) == 1 and isinstance(n.targets[0], ast.Name):
        return "S:" + ast.dump(n.value)
    if isinstance(n, ast.Expr):
        return "S:" + ast.dump(n.value)
    return ("A:" if isinstance(n, ast.Assert) else "C:") + ast.dump(n)


def _align(pre_keys: list[str], post_keys: list[str]):
    """Greedy subsequence embedding of post in pre: list of pre indices, or None."""
    idx, j = [], 0
    for k in post_keys:
        while j < len(pre_keys) and pre_keys[j] != k:
            j += 1
        if j == len(pre_keys):
            return None
        idx.append(j)
        j += 1
    return idx


def _lookup(result: dict, fname: str, func: str):
    hit = [v for k, v in result["tests"].items() if k[1] == func and (k[0] == fname or fname[:-3] in k[0])]
    return hit[0] if hit else None


def stale_after_minimisation(src: str, result: dict, pre_src: str, pre_result: dict, fname: str) -> dict[str, str]:
    """Functions of the exported file whose failing value assertion is verifiably caused by statement
    minimisation: (1) the function's items embed, in order, into a function of the suite exported right
    before minimisation; (2) that function passes under pytest; (3) a statement that was removed and
    stood before the failing assertion reads the asserted variable or a variable its binding statement
    reads (a call on the same object).  Returns {function: explanation}."""
    out: dict[str, str] = {}
    try:
        post, pre = ast.parse(src), ast.parse(pre_src)
    except SyntaxError:
        return out
    pre_funcs = test_functions(pre)
    for f in test_functions(post):
        if any(is_xfail_decorator(d) for d in f.decorator_list):
            continue
        r = _lookup(result, fname, f.name)
        if not r or r[0] != "failed" or exc_class(r[1]) != "AssertionError" or assertion_class(r[1], src) != "value":
            continue
        m = re.search(r"^>\s+assert (.*)$", r[1], re.M)
        if not m:
            continue
        try:
            failing = ast.dump(ast.parse("assert " + m.group(1)).body[0])
        except SyntaxError:
            continue
        post_keys = [_item_key(n) for n in f.body]
        if "A:" + failing not in post_keys:
            continue
        fail_pos = post_keys.index("A:" + failing)
        test = ast.parse("assert " + m.group(1)).body[0].test
        left = test.left if isinstance(test, ast.Compare) else test
        if isinstance(left, ast.Call) and left.args:
            left = left.args[0]
        while isinstance(left, ast.Attribute):
            left = left.value
        if not (isinstance(left, ast.Name) and re.fullmatch(r"var_\d+", left.id)):
            continue
        objs = {left.id}          # backward dependencies of the asserted variable (transitive)
        grew = True
        while grew:
            grew = False
            for n in f.body[:fail_pos]:
                if isinstance(n, ast.Assign) and any(isinstance(t, ast.Name) and t.id in objs for t in n.targets):
                    more = {x for x in names_of(n)[0] if re.fullmatch(r"var_\d+", x)} - objs
                    if more:
                        objs |= more
                        grew = True
        for g in pre_funcs:
            pre_keys = [_item_key(n) for n in g.body]
            # only the part up to the failing assertion matters (the snapshot lacks the exception tail)
            emb = _align(pre_keys, post_keys[: fail_pos + 1])
            if emb is None:
                continue
            pr = _lookup(pre_result, fname, g.name)
            if not pr or pr[0] != "passed":
                continue
            kept = set(emb)
            culprits = [ast.unparse(g.body[i]) for i in range(emb[fail_pos]) if i not in kept
                        and not isinstance(g.body[i], ast.Assert) and names_of(g.body[i])[0] & objs]
            if culprits:
                out[f.name] = (f"before statement minimisation the test ({g.name} of the pre-minimisation export) passes; "
                               f"removed before the failing assertion: {culprits[:3]}")
                break
    return out
