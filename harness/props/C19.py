"""C19 — generated regression assertions are kept in the exported file.

T  static proofs (Properties/C19.v): remove_unused_variables keeps every statement's assertions
   position-wise, keeps asserted bindings, only unbinds; the exported body lists every statement
   followed by all its renderable assertions.
K2 random test cases with assertions on used / unused / earlier values go through the real
   TestCase.remove_unused_variables, UnusedStatementsTestCaseVisitor and TestSuiteWriter
   (write and _build_test_function); the Coq model must reproduce the resulting test case and the
   sequence of statements / asserts found in the written function.
S  independent oracle: assertions per statement before vs. after, asserts per statement in the
   written file (python's parser); end-to-end pipeline runs (assertion generation -> [assertion
   minimisation] -> post-processing -> export) compare a snapshot taken before post-processing
   with the exported file; suites through the real statement minimisers (CASE forward/backward,
   COMBINED, stub coverage making asserted statements redundant) + real export: no assertion-
   protected statement removed, surviving statements keep their assertions (post_oracle).
"""
from __future__ import annotations

import ast
import json
import multiprocessing as mp
import random
import textwrap
import traceback
from pathlib import Path

import vlib
from props import _c15_lib as L

SRC = ["src/pynguin/testcase/testcase.py", "src/pynguin/testcase/export.py", "src/pynguin/ga/postprocess.py"]
IMPORTS = "From Verif Require Import Base.TestCaseIR Models.C19.\nOpen Scope N_scope."
TYPES = [int, str, float, list, None]


# ------------------------------------------------------------------------------------------------
def build_tc(r, n, spec=None):
    """A well-formed test case with assertions: on the value a statement binds (used later or not),
    on attributes of it, on earlier (watched) values, on module-level names, exception assertions."""
    import libcst as cst
    import pynguin.assertion.assertion as ass
    from pynguin.testcase.testcase import Statement, TestCase

    tc = TestCase()
    bound = []
    for i in range(n):
        if spec is not None:
            code, bv, asserts_spec = spec[i]
        else:
            uses = r.sample(bound, min(len(bound), r.choice([0, 0, 1, 1, 2]))) if bound else []
            args = ", ".join(uses)
            form = r.choice(["assign"] * 6 + ["expr", "ann", "attr", "multi", "lit", "lit"])
            v = f"var_{len(bound)}"
            if form == "lit":   # primitive statement; unused ones are reduced to a bare literal expression
                uses = []
                code, bv = f"{v} = {r.choice(['5', '1.5', repr('unused'), repr(b'x'), '-3', 'True', '0'])}", v
            elif form == "expr":
                code, bv = f"mod_0.foo({args})", None
            elif form == "ann":
                code, bv = f"{v}: int = mod_0.foo({args})", v
                uses = uses + [v]
            elif form == "multi":
                code, bv = f"{v} = alias_name = mod_0.foo({args})", v
            elif form == "attr" and uses:
                code, bv = f"{v} = {uses[0]}.attr", v
            else:
                code, bv = f"{v} = mod_0.foo({args})", v
            asserts_spec = []
            for _ in range(r.choice([0, 0, 1, 1, 2, 3])):
                k = r.random()
                if k < (0.15 if form == "lit" else 0.5) and bv is not None:
                    src = bv
                elif k < 0.75 and (bound or bv):
                    src = r.choice(bound + ([bv] if bv else []))
                elif k < 0.85:
                    src = "mod_0.K.counter"
                else:
                    src = None
                if src is not None and r.random() < 0.3:
                    src += ".fld"
                asserts_spec.append((r.choice(["obj", "float", "len", "isinst", "tn"]) if src else "exc", src, r.randrange(5)))
        asserts = []
        for kind, src, val in asserts_spec:
            if kind == "obj":
                asserts.append(ass.ObjectAssertion(src, [val, "s", None, True][val % 4]))
            elif kind == "float":
                asserts.append(ass.FloatAssertion(src, val + 0.5))
            elif kind == "len":
                asserts.append(ass.CollectionLengthAssertion(src, val))
            elif kind == "isinst":
                asserts.append(ass.IsInstanceAssertion(src, "builtins", "int"))
            elif kind == "tn":
                asserts.append(ass.TypeNameAssertion(src, "builtins", "int"))
            else:
                asserts.append(ass.ExceptionAssertion("builtins", "ValueError"))
        if bv is not None:
            bound.append(bv)
        tc._statements.append(Statement(node=cst.parse_statement(code + "\n"), bound_variable=bv,
                                        bound_type=r.choice(TYPES) if bv is not None else None, assertions=asserts))
    tc._var_counter = len(bound)
    tc._rebuild_registry()
    return tc


def rendered_text(a):
    """Text of the assert statement the writer emits for an assertion (None: not rendered)."""
    import libcst as cst
    from pynguin.assertion.assertion_to_ast import assertion_to_cst

    node = assertion_to_cst(a)
    return None if node is None else cst.Module(body=[node]).code.strip()


def snapshot(tc):
    """[(normalised statement text, [rendered assertion text or None])] per statement."""
    return [(L.node_info(s.node)[1], [rendered_text(a) for a in s.assertions]) for s in tc._statements]


def norm_assert(txt):
    return ast.dump(ast.parse(textwrap.dedent(txt).strip()))


def parse_function(fn: ast.FunctionDef, src: str):
    """Items of a written test function: ("stmt", normalised text) / ("assert", source text)."""
    items = []
    for st in fn.body:
        inner = st
        if isinstance(st, ast.With) and len(st.body) == 1:   # pytest.raises wrapper
            inner = st.body[0]
        if isinstance(inner, ast.Assert):
            items.append(("assert", ast.get_source_segment(src, inner)))
            continue
        if isinstance(inner, ast.Pass):
            continue
        if isinstance(inner, ast.Assign) and len(inner.targets) == 1 and isinstance(inner.targets[0], ast.Name):
            txt = ast.get_source_segment(src, inner.value)
        elif isinstance(inner, ast.Expr):
            txt = ast.get_source_segment(src, inner.value)
        else:
            txt = textwrap.dedent(ast.get_source_segment(src, inner))
        items.append(("stmt", L.VAR_SUB.sub("V", txt).strip()))
    return items


def compare_export(snap, items, where):
    """S: every statement of the snapshot is followed by exactly its rendered assertions."""
    groups, cur = [], None
    for kind, txt in items:
        if kind == "stmt":
            cur = [txt, []]
            groups.append(cur)
        elif cur is None:
            return ("export:assert-before-statement", f"{where}: assert `{txt}` precedes every statement")
        else:
            cur[1].append(txt)
    if len(groups) != len(snap):
        return ("export:statement-count", f"{where}: {len(snap)} statements before export, {len(groups)} in the written function")
    for i, ((stxt, asserts), (gtxt, gasserts)) in enumerate(zip(snap, groups)):
        exp = [a for a in asserts if a is not None]
        if [norm_assert(a) for a in exp] != [norm_assert(a) for a in gasserts]:
            missing = [a for a in exp if norm_assert(a) not in {norm_assert(g) for g in gasserts}]
            sig = "export:assertion-dropped" if missing else "export:assertion-changed"
            return (sig, f"{where}: statement {i} `{stxt}` had assertions {exp}, the written function has {gasserts}")
    return None


# ------------------------------------------------------------------------------------------------
def ruv_oracle(before_stmts, before_snap, before_bound, tc):
    """S on remove_unused_variables itself."""
    after = tc._statements
    if len(after) != len(before_stmts):
        return ("ruv:statement-count", f"{len(before_stmts)} statements before, {len(after)} after")
    in_scope = set()
    was_scope = set()
    for i, (b, a) in enumerate(zip(before_stmts, after)):
        if [id(x) for x in b[1]] != [id(x) for x in a.assertions] and list(b[1]) != list(a.assertions):
            return ("ruv:assertion-dropped", f"statement {i} `{before_snap[i][0]}` had {len(b[1])} assertion(s) "
                    f"{[repr(x) for x in b[1]]}, after remove_unused_variables it has {[repr(x) for x in a.assertions]}")
        if L.node_info(a.node)[1] != before_snap[i][0]:
            return ("ruv:statement-changed", f"statement {i} `{before_snap[i][0]}` became `{L.node_info(a.node)[1]}`")
        if before_bound[i] is not None:
            was_scope.add(before_bound[i])
        if a.bound_variable is not None:
            in_scope.add(a.bound_variable)
        for x in a.assertions:
            src = getattr(x, "source", None)
            if isinstance(src, str):
                root = src.split(".", 1)[0]
                if root in was_scope and root not in in_scope:
                    return ("ruv:asserted-binding-removed", f"statement {i}: assertion on {src} kept but {root} is no longer bound")
    return None


def direct(r, n_cases, scratch: Path):
    """Random test cases through the real remove_unused_variables / visitor / writer."""
    import pynguin.ga.postprocess as pp
    import pynguin.ga.testcasechromosome as tcc
    import pynguin.ga.testsuitechromosome as tsc
    from pynguin.testcase import export

    rcases, ecases, fails, stats = [], [], [], {}
    corpus = json.loads((vlib.VERIF / "corpus" / "C19.json").read_text())
    specs = [c["statements"] for c in corpus if "statements" in c]
    batch = []
    for k in range(n_cases + len(specs)):
        spec = specs[k] if k < len(specs) else None
        tc = build_tc(r, len(spec) if spec else r.choice([1, 2, 3, 4, 6, 9]), spec)
        pre_abs = L.abs_tc(tc)
        for i_, s_ in enumerate(tc._statements):
            pre_abs["stmts"][i_]["rtext"] = [rendered_text(a) for a in s_.assertions]
        before = [(s, list(s.assertions)) for s in tc._statements]
        snap = snapshot(tc)
        bb = [s.bound_variable for s in tc._statements]
        route = r.choice(["ruv", "visitor", "write", "write", "build"])
        stats["route:" + route] = stats.get("route:" + route, 0) + 1
        n_as = sum(len(a) for _, a in before)
        stats["assertions"] = stats.get("assertions", 0) + n_as
        for i, (s, al) in enumerate(before):
            later = set().union(*[set(t.used_variables()) for t in tc._statements[i + 1:]]) if i + 1 < len(before) else set()
            for a in al:
                src = getattr(a, "source", None)
                if src is None:
                    stats["assert:exception"] = stats.get("assert:exception", 0) + 1
                else:
                    root = src.split(".", 1)[0]
                    key = ("assert:on-own-" if root == s.bound_variable else "assert:on-earlier-" if L.VAR_RE.match(root) else "assert:on-module-")
                    key += ("" if not L.VAR_RE.match(root) else ("used-later" if root in later else "unused"))
                    stats[key] = stats.get(key, 0) + 1
        if route in ("ruv", "visitor"):
            if route == "ruv":
                tc.remove_unused_variables()
            else:
                pp.UnusedStatementsTestCaseVisitor().visit_default_test_case(tc)
            rcases.append((pre_abs, L.abs_tc(tc)))
            f = ruv_oracle(before, snap, bb, tc)
            if f:
                fails.append({"signature": f[0], "message": f[1], "replay": {"statements": spec_of(before, snap, tc, bb)}})
        elif route == "build":
            tc.remove_unused_variables()
            f = ruv_oracle(before, snap, bb, tc)
            if f:
                fails.append({"signature": f[0], "message": f[1], "replay": {"statements": spec_of(before, snap, tc, bb)}})
            excs = [r.choice([None, None, None, ValueError, TypeError]) for _ in tc._statements]
            w = export.TestSuiteWriter(no_xfail=r.random() < 0.5)
            import libcst as cst
            fn, _ = w._build_test_function(0, tc, excs)
            src = cst.Module(body=[fn]).code
            items = parse_function(ast.parse(src).body[0], src)
            ecases.append((pre_abs, items))
            g = compare_export(snap, items, "_build_test_function")
            if g:
                fails.append({"signature": g[0], "message": g[1], "replay": {"statements": spec_of(before, snap, tc, bb)}})
        else:
            batch.append((tc, pre_abs, snap, before, bb))
    # the writer on whole suites (module not importable: no per-statement exceptions)
    for j in range(0, len(batch), 8):
        grp = batch[j:j + 8]
        suite = tsc.TestSuiteChromosome()
        for tc, *_ in grp:
            suite.add_test_case_chromosome(tcc.TestCaseChromosome(test_case=tc))
        out = scratch / f"w{j}"
        black = r.random() < 0.3
        path = export.TestSuiteWriter().write(suite, "c19_module_that_does_not_exist", out, format_with_black=black,
                                              seed=r.choice([None, 7]))
        src = path.read_text()
        fns = [n for n in ast.parse(src).body if isinstance(n, ast.FunctionDef) and n.name.startswith("test_")]
        stats["written-files"] = stats.get("written-files", 0) + 1
        if len(fns) != len(grp):
            fails.append({"signature": "export:function-count", "message": f"{len(grp)} test cases, {len(fns)} functions", "replay": {}})
            continue
        for (tc, pre_abs, snap, before, bb), fn in zip(grp, fns):
            items = parse_function(fn, src)
            if not black:
                ecases.append((pre_abs, items))
            g = compare_export(snap, items, f"TestSuiteWriter.write (black={black})")
            if g:
                fails.append({"signature": g[0], "message": g[1], "replay": {"statements": spec_of(before, snap, tc, bb)}})
    return rcases, ecases, fails, stats


# ------------------------------------------------------------------------------------------------
# post-processing path: real statement minimisation (assertion-protected variables) + real export
GRE = __import__("re").compile(r"mod_0\.g(\d+)\(")


class StubCoverage:
    """Duck-typed TestSuiteCoverageFunction: fraction of the needed calls still present."""

    def __init__(self, needed):
        self.needed = set(needed)

    def compute_coverage(self, suite) -> float:
        if not self.needed:
            return 1.0
        present = set()
        for c in suite.test_case_chromosomes:
            present |= {int(m) for m in GRE.findall(c.test_case.to_code())}
        return len(self.needed & present) / len(self.needed)


def src_class(src):
    root, *rest = src.split(".")
    if not L.VAR_RE.match(root):
        return "module"
    return "bare" if not rest else ("dotted1" if len(rest) == 1 else "dottedN")


def build_post_test(r):
    """(TestCase, spec) where spec[i] = dict(code, bv, uses, srcs); calls are mod_0.g<k>(...) with repeating k
    so that statements are redundant for the stub coverage."""
    import libcst as cst
    import pynguin.assertion.assertion as ass
    from pynguin.testcase.testcase import Statement, TestCase

    tc = TestCase()
    n = r.choice([2, 3, 4, 5, 7])
    nf = max(2, n - r.choice([0, 1, 2]))
    bound, spec = [], []
    style = r.choice(["bare", "dotted1", "dottedN", "mixed", "mixed", "module"])
    for _ in range(n):
        uses = r.sample(bound, min(len(bound), r.choice([0, 0, 1, 1, 2]))) if bound else []
        call = f"mod_0.g{r.randrange(nf)}({', '.join(uses)})"
        if r.random() < 0.15:   # primitive statement (reduced to a bare literal when unused)
            uses = []
            call = r.choice(["5", "1.5", repr("unused"), repr(b"x"), "0"])
        bv = None if (r.random() < 0.12 and "mod_0" in call) else f"var_{len(bound)}"
        code = call if bv is None else f"{bv} = {call}"
        srcs = []
        for _ in range(r.choice([0, 0, 1, 1, 2])):
            k = r.random()
            target = bv if (bv is not None and k < 0.7) else (r.choice(bound) if bound and k < 0.9 else None)
            st = style if style != "mixed" else r.choice(["bare", "dotted1", "dottedN", "module"])
            if target is None or st == "module":
                srcs.append(r.choice(["mod_0.K.counter", "mod_0.K.inner.counter", "mod_0.flag"]))
            elif st == "bare":
                srcs.append(target)
            elif st == "dotted1":
                srcs.append(target + ".fld")
            else:
                srcs.append(target + r.choice([".inner.value", ".inner.tag", ".a.b.c"]))
        if srcs and bv is not None and not any(x.split(".", 1)[0] == bv for x in srcs) and r.random() < 0.75:
            srcs.insert(0, bv if style in ("bare", "module", "mixed") else bv + (".fld" if style == "dotted1" else ".inner.value"))
        asserts = [r.choice([lambda s_: ass.ObjectAssertion(s_, 3), lambda s_: ass.FloatAssertion(s_, 1.5),
                             lambda s_: ass.CollectionLengthAssertion(s_, 2)])(s_) for s_ in srcs]
        if r.random() < 0.08:
            asserts.append(ass.ExceptionAssertion("builtins", "ValueError"))
        if bv is not None:
            bound.append(bv)
        tc._statements.append(Statement(node=cst.parse_statement(code + "\n"), bound_variable=bv,
                                        bound_type=r.choice(TYPES) if bv else None, assertions=asserts))
        spec.append({"code": code, "call": call, "bv": bv, "uses": uses, "srcs": srcs, "n_exc": len(asserts) - len(srcs),
                     "rendered": [rendered_text(a) for a in asserts if rendered_text(a) is not None]})
    tc._var_counter = len(bound)
    tc._rebuild_registry()
    return tc, spec


def post_oracle(spec, items_raw, strategy):
    """Independent of postprocess.py.  Every assertion present before post-processing must follow its
    statement in the written function.  A carrier statement that was removed is a violation when its own
    variable is asserted on somewhere in the test, or is read (transitively) by the binding statement of an
    asserted variable -- such statements are assertion-protected; a removed carrier whose own value nobody
    asserts on is reported under its own signature (recorded finding).  Every variable a written assert
    mentions must be bound by an earlier written statement.
    items_raw: [("stmt", code) | ("assert", text)] of the written function (None: function missing)."""
    import re

    binder = {s["bv"]: i for i, s in enumerate(spec) if s["bv"] is not None}
    why = {}
    for s in spec:
        for src in s["srcs"]:
            root = src.split(".", 1)[0]
            if root in binder:
                why.setdefault(binder[root], src_class(src))
    todo = list(why)
    while todo:
        i = todo.pop()
        for u in spec[i]["uses"]:
            if u in binder and binder[u] not in why:
                why[binder[u]] = "dependency"
                todo.append(binder[u])
    groups = []
    for kind, txt in (items_raw or []):
        if kind == "stmt":
            groups.append([txt, []])
        elif groups:
            groups[-1][1].append(txt)
    bound_at = {}
    for j, (code, _) in enumerate(groups):
        m = re.match(r"(var_\d+) = ", code)
        if m:
            bound_at[m.group(1)] = j
    out = []
    defined = set()
    for code, asserts in groups:
        m = re.match(r"(var_\d+) = ", code)
        if m:
            defined.add(m.group(1))
        for a in asserts:
            for v in re.findall(r"\bvar_\d+\b", a):
                if v not in defined:
                    out.append((f"post:assert-on-unbound:{strategy}", f"written assert `{a}` mentions {v}, which no "
                                f"earlier written statement binds"))
    n_orig_call, n_written_call = {}, {}
    for s in spec:
        n_orig_call[s["call"]] = n_orig_call.get(s["call"], 0) + 1
    for code, _ in groups:
        if not re.match(r"var_\d+ = ", code):
            n_written_call[code] = n_written_call.get(code, 0) + 1
    for i, s in enumerate(spec):
        exp = [norm_assert(a) for a in s["rendered"]]
        if s["bv"] is not None and s["bv"] in bound_at:
            got = groups[bound_at[s["bv"]]][1]
            if exp != [norm_assert(a) for a in got]:
                out.append((f"post:assertion-dropped:{strategy}", f"statement {i} `{s['code']}` had {s['rendered']}, the "
                            f"written function has {got}"))
            continue
        cands = [g for g in groups if g[0] == s["call"]]
        if i in why and not cands:
            out.append((f"post:asserted-statement-removed:{strategy}:{why[i]}",
                        f"statement {i} `{s['code']}` is assertion-protected ({why[i]} source refers to its variable) "
                        f"and was removed by statement minimisation ({strategy})"))
            continue
        if not exp or any(exp == [norm_assert(a) for a in g[1]] for g in cands):
            continue
        if i in why:
            out.append((f"post:asserted-statement-removed:{strategy}:{why[i]}",
                        f"statement {i} `{s['code']}` with assertions {s['rendered']} is assertion-protected ({why[i]}) "
                        f"and is missing from the written function"))
        elif n_written_call.get(s["call"], 0) < n_orig_call[s["call"]] or not cands:
            out.append((f"post:carrier-removed:{strategy}",
                        f"statement {i} `{s['code']}` carried {s['rendered']} (its own value is not asserted on) and "
                        f"was removed together with these assertions"))
        else:
            out.append((f"post:assertion-dropped:{strategy}", f"statement {i} `{s['code']}` had {s['rendered']}; no "
                        f"written `{s['call']}` statement is followed by them"))
    return out


def raw_items(fn, src):
    out = []
    for st in fn.body:
        if isinstance(st, ast.Pass):
            continue
        seg = textwrap.dedent(ast.get_source_segment(src, st))
        out.append(("assert" if isinstance(st, ast.Assert) else "stmt", seg.strip()))
    return out


def post_cases(r, n_cases, scratch: Path, only_seeds=None):
    """Suites through the real post-processing visitors (CASE forward/backward, COMBINED) and the writer."""
    import pynguin.ga.postprocess as pp
    import pynguin.ga.testcasechromosome as tcc
    import pynguin.ga.testsuitechromosome as tsc
    from pynguin.testcase import export
    from pynguin.utils.orderedset import OrderedSet

    fails, stats = [], {}
    corpus = [c for c in json.loads((vlib.VERIF / "corpus" / "C19.json").read_text()) if "post_seed" in c]
    seeds = only_seeds if only_seeds is not None else (
        [c["post_seed"] for c in corpus] + [r.randrange(10**9) for _ in range(n_cases)])
    for k, seed in enumerate(seeds):
        rr = random.Random(seed)
        strategy = rr.choice(["CASE-F", "CASE-B", "COMBINED"])
        suite = tsc.TestSuiteChromosome()
        specs = {}
        fids = set()
        for _ in range(rr.choice([1, 1, 2, 3])):
            tc, spec = build_post_test(rr)
            specs[id(tc)] = (tc, spec)
            suite.add_test_case_chromosome(tcc.TestCaseChromosome(test_case=tc))
            fids |= {int(m) for s_ in spec for m in GRE.findall(s_["code"])}
        covs = OrderedSet([StubCoverage([f for f in sorted(fids) if rr.random() < 0.5])])
        if rr.random() < 0.25:
            covs.add(StubCoverage([f for f in sorted(fids) if rr.random() < 0.3]))
        for _, spec in specs.values():
            for s_ in spec:
                for src in s_["srcs"]:
                    stats["post:source:" + src_class(src)] = stats.get("post:source:" + src_class(src), 0) + 1
        before = sum(len(sp) for _, sp in specs.values())
        if strategy == "COMBINED":
            suite.accept(pp.CombinedMinimizationVisitor(covs))
        else:
            vis = pp.ForwardIterativeMinimizationVisitor(covs) if strategy == "CASE-F" else pp.BackwardIterativeMinimizationVisitor(covs)
            # generator._minimize applies [unused-variable visitor, minimiser] per test case; the visitors work on one test
            # case at a time, so two passes give the same result and let the first stage be judged on its own: it may only
            # strip bindings, never remove a statement or an assertion
            suite.accept(pp.TestCasePostProcessor([pp.UnusedStatementsTestCaseVisitor()]))
            for c_ in suite.test_case_chromosomes:
                tc_, spec_ = specs[id(c_.test_case)]
                if tc_.size() != len(spec_):
                    gone = [sp["code"] for sp in spec_ if not any(L.node_info(st.node)[2].strip() in (sp["code"], sp["call"])
                                                                  for st in tc_._statements)]
                    fails.append({"signature": f"post:visitor-removed-statement:{strategy}",
                                  "message": f"UnusedStatementsTestCaseVisitor removed statement(s) {gone} (test case had "
                                             f"{len(spec_)} statements, now {tc_.size()}) [post_seed {seed}]",
                                  "replay": {"post_seed": seed}})
                elif [len(st.assertions) for st in tc_._statements] != [len(sp["srcs"]) + sp.get("n_exc", 0) for sp in spec_]:
                    fails.append({"signature": f"post:visitor-dropped-assertion:{strategy}",
                                  "message": f"UnusedStatementsTestCaseVisitor changed the assertions of a statement [post_seed {seed}]",
                                  "replay": {"post_seed": seed}})
            suite.accept(pp.TestCasePostProcessor([vis]))
        suite.accept(pp.EmptyTestCaseRemover())
        after = sum(c.test_case.size() for c in suite.test_case_chromosomes)
        stats["post:" + strategy] = stats.get("post:" + strategy, 0) + 1
        stats["post:statements-removed"] = stats.get("post:statements-removed", 0) + before - after
        survivors = [id(c.test_case) for c in suite.test_case_chromosomes]
        path = export.TestSuiteWriter().write(suite, "c19_module_that_does_not_exist", scratch / f"p{k}",
                                              format_with_black=False)
        text = path.read_text()
        fns = [n for n in ast.parse(text).body if isinstance(n, ast.FunctionDef) and n.name.startswith("test_")
               and n.name != "test_empty"]
        found = None
        if len(fns) != len(survivors):
            found = ("post:function-count", f"{len(survivors)} test cases after post-processing, {len(fns)} functions written")
        else:
            written = {tid: raw_items(fn, text) for tid, fn in zip(survivors, fns)}
            found = []
            for tid, (tc, spec) in specs.items():
                found += post_oracle(spec, written.get(tid), strategy)
        if isinstance(found, tuple):
            found = [found]
        seen_here = set()
        for sig, msg in found or []:
            if sig not in seen_here:
                seen_here.add(sig)
                fails.append({"signature": sig, "message": msg + f" [post_seed {seed}]", "replay": {"post_seed": seed}})
    return fails, stats



# ------------------------------------------------------------------------------------------------
# exporter re-execution: a statement in the MIDDLE of a test raises only at export time
STATE_SUT = """
import os

QUOTA = 3
_calls = 0


class QuotaError(Exception):
    pass


def take(n=1):
    global QUOTA
    if QUOTA < n:
        raise QuotaError("quota exhausted")
    QUOTA -= n
    return QUOTA


def env_value():
    return os.environ["C19_EXPORT_ENV"]          # KeyError when the variable is not set


def ident(x=0):
    return x


def pair(a=1, b=2):
    return [a, b]


class Acc:
    def __init__(self, start=0):
        self.value = start

    def add(self, n=1):
        self.value += n
        return self.value
"""


def build_reexec_test(r, alias):
    """A test case whose middle statement (binding a variable) raises when the exporter re-executes it
    (quota used up / environment variable gone), followed by statements carrying assertions."""
    import libcst as cst
    import pynguin.assertion.assertion as ass
    from unittest.mock import MagicMock
    from pynguin.testcase.testcase import Statement, TestCase
    from pynguin.utils.generic.genericaccessibleobject import GenericFunction

    tc = TestCase()
    rows = []
    nv = 0

    def add(code_rhs, bound=True, asserts=(), expected=None):
        nonlocal nv
        bv = f"var_{nv}" if bound else None
        nv += 1 if bound else 0
        code = f"{bv} = {code_rhs}" if bound else code_rhs
        st = Statement(node=cst.parse_statement(code + "\n"), bound_variable=bv, bound_type=None,
                       assertions=[f(bv) for f in asserts])
        if expected is not None:
            acc = MagicMock(spec=GenericFunction)
            acc.expected_exceptions = set(expected)
            st.accessible = acc
        tc._statements.append(st)
        return bv

    own_int = lambda k: (lambda v: ass.ObjectAssertion(v, k))  # noqa: E731
    for _ in range(r.choice([0, 1, 2])):                      # prefix
        k = r.randrange(9)
        v = add(f"{alias}.ident({k})", asserts=[own_int(k)] if r.random() < 0.7 else [])
    acc = add(f"{alias}.Acc(2)", asserts=[lambda v: ass.ObjectAssertion(v + ".value", 2)]) if r.random() < 0.6 else None
    kind = r.choice(["quota", "env", "quota"])
    expected = r.choice([None, None, ["QuotaError", "KeyError"]])
    raising = add(f"{alias}.take()" if kind == "quota" else f"{alias}.env_value()", bound=r.random() < 0.85,
                  asserts=[], expected=expected)
    n_after = r.choice([1, 2, 3])
    for j in range(n_after):                                  # statements after the raising one, with assertions
        c = r.random()
        if acc is not None and c < 0.4:
            add(f"{acc}.add(1)", asserts=[lambda v: ass.ObjectAssertion(v, 3 + 0), lambda v: ass.ObjectAssertion(acc + ".value", 3)])
        elif raising is not None and c < 0.55:
            add(f"{alias}.ident({raising})", asserts=[own_int(1)])        # reads the variable that is not bound at export
        else:
            k = r.randrange(9)
            add(f"{alias}.pair({k}, 1)", asserts=[lambda v: ass.CollectionLengthAssertion(v, 2), lambda v, k=k: ass.ObjectAssertion(v, [k, 1])])
    tc._var_counter = nv
    tc._rebuild_registry()
    return tc, kind


def reexec_cases(r, n_cases, scratch: Path):
    import importlib
    import os
    import sys

    import pynguin.ga.testcasechromosome as tcc
    import pynguin.ga.testsuitechromosome as tsc
    from pynguin.testcase import export
    from pynguin.utils.naming import get_module_alias

    name = "c19_state_sut"
    (scratch / f"{name}.py").write_text(STATE_SUT)
    if str(scratch) not in sys.path:
        sys.path.insert(0, str(scratch))
    importlib.invalidate_caches()
    mod = importlib.import_module(name)
    alias = get_module_alias(name)
    lens = []
    orig = export.TestSuiteWriter._per_statement_exceptions

    def spy(self, tc_, *a, **k):
        res = orig(self, tc_, *a, **k)
        lens.append((tc_.size(), len(res), sum(1 for e in res if e is not None)))
        return res

    export.TestSuiteWriter._per_statement_exceptions = spy
    fails, xcases, stats = [], [], {}
    try:
        for k in range(n_cases):
            seed = r.randrange(10**9)
            rr = random.Random(seed)
            no_xfail = rr.random() < 0.5
            tcs = [build_reexec_test(rr, alias) for _ in range(rr.choice([1, 2]))]
            suite = tsc.TestSuiteChromosome()
            pres, snaps = [], []
            for tc, _kind in tcs:
                pa = L.abs_tc(tc)
                for i_, s_ in enumerate(tc._statements):
                    pa["stmts"][i_]["rtext"] = [rendered_text(a) for a in s_.assertions]
                pres.append(pa)
                snaps.append(snapshot(tc))
                suite.add_test_case_chromosome(tcc.TestCaseChromosome(test_case=tc))
            # export-time state: the quota is used up, the environment variable is gone
            mod.QUOTA = 0
            os.environ.pop("C19_EXPORT_ENV", None)
            del lens[:]
            path = export.TestSuiteWriter(no_xfail=no_xfail).write(suite, name, scratch / f"x{k}", project_path=str(scratch),
                                                                   format_with_black=False)
            text = path.read_text()
            fns = [n for n in ast.parse(text).body if isinstance(n, ast.FunctionDef) and n.name.startswith("test_")]
            mode = "no_xfail" if no_xfail else "xfail"
            stats["reexec:" + mode] = stats.get("reexec:" + mode, 0) + 1
            stats["reexec:raised-statements"] = stats.get("reexec:raised-statements", 0) + sum(x[2] for x in lens)
            found = []
            for (size, n_exc, _), snap in zip(lens, snaps):
                if n_exc != size:
                    found.append((f"export:exception-list-length:{mode}", f"_per_statement_exceptions returned {n_exc} entries for "
                                  f"{size} statements (zip in _build_test_function drops the rest)"))
            if len(fns) != len(tcs):
                found.append(("export:function-count", f"{len(tcs)} test cases, {len(fns)} functions"))
            else:
                for i, (fn, snap, pa) in enumerate(zip(fns, snaps, pres)):
                    items = parse_function(fn, text)
                    g = compare_export(snap, items, f"write with re-execution ({mode}), test_{i}")
                    if g:
                        sig = g[0].replace("export:", "export:reexec-") + ":" + mode
                        found.append((sig, g[1]))
                    if i < len(lens):
                        xcases.append((pa, lens[i][1], items))
            seen = set()
            for sig, msg in found:
                if sig not in seen:
                    seen.add(sig)
                    fails.append({"signature": sig, "message": msg + f" [reexec_seed {seed}, no_xfail={no_xfail}]",
                                  "replay": {"reexec_seed": seed}})
    finally:
        export.TestSuiteWriter._per_statement_exceptions = orig
    return fails, xcases, stats


def c_xcase_reexec(pre_abs, n_exc, items):
    body = c_ecase_with_render(pre_abs, items)          # "(tc, obs)"
    # split once at the top-level separator between the test case and the observation list
    cd_tc, obs = body[1:-1].rsplit(", [", 1)
    return "(%s, %d%%nat, [%s)" % (cd_tc, n_exc, obs)



def post_cases_single(seed, scratch):
    """Replay one post-processing suite."""
    return post_cases(None, 0, scratch, only_seeds=[seed])


def spec_of(before, snap, tc, bb):
    """Replayable description of a generated test case (statement code, bound variable, assertions)."""
    import pynguin.assertion.assertion as ass

    out = []
    for (s, al), bvar in zip(before, bb):
        code = L.node_info(s.node)[2].strip() if s.node is not None else ""
        kinds = []
        for a in al:
            k = {ass.ObjectAssertion: "obj", ass.FloatAssertion: "float", ass.CollectionLengthAssertion: "len",
                 ass.IsInstanceAssertion: "isinst", ass.TypeNameAssertion: "tn", ass.ExceptionAssertion: "exc"}[type(a)]
            kinds.append([k, getattr(a, "source", None), 1])
        out.append([code, bvar, kinds])
    return out


# ------------------------------------------------------------------------------------------------
def c_rcase(pre, post):
    cd = L.Coder()
    return "(%s, %s)" % (L.c_tc(pre, cd), L.c_tc(post, cd))


def norm_key(txt):
    return "A:" + L.VAR_SUB.sub("V", " ".join(textwrap.dedent(txt).split()))


# ------------------------------------------------------------------------------------------------
# end-to-end: the real pipeline
def e2e(task):
    try:
        import os

        devnull = os.open(os.devnull, os.O_WRONLY)   # the pipeline logs to stdout/stderr
        os.dup2(devnull, 1)
        os.dup2(devnull, 2)
        vlib.setup_impl_path()
        import pynguin.configuration as config
        import pynguin.generator as gen
        from pynguin.utils.statistics.runtimevariable import RuntimeVariable

        mod_seed, seed, algo, assertion_gen, strategy, scratch = task
        scratch = Path(scratch)
        name = f"c19sut_{mod_seed}"
        src = e2e_module(random.Random(mod_seed))
        (scratch / f"{name}.py").write_text(src)
        out = scratch / f"out_{mod_seed}_{seed}_{strategy}"
        cfg = config.Configuration(
            project_path=str(scratch), module_name=name,
            test_case_output=config.TestCaseOutputConfiguration(output_path=str(out)),
            algorithm=config.Algorithm[algo],
            stopping=config.StoppingConfiguration(maximum_iterations=6, maximum_search_time=-1),
            seeding=config.SeedingConfiguration(seed=seed),
            statistics_output=config.StatisticsOutputConfiguration(
                report_dir=str(out), statistics_backend=config.StatisticsBackend.NONE),
        )
        cfg.test_case_output.assertion_generation = config.AssertionGenerator[assertion_gen]
        cfg.test_case_output.minimization.test_case_minimization_strategy = config.MinimizationStrategy[strategy]
        if assertion_gen == "CHECKED_MINIMIZING":
            cfg.statistics_output.output_variables = list(cfg.statistics_output.output_variables) + [
                RuntimeVariable.AssertionCheckedCoverage]
        gen.set_configuration(cfg)
        snaps = {}
        orig_min = gen._minimize

        def spy(generation_result, algorithm=None):
            snaps["before"] = []
            for ch in generation_result.test_case_chromosomes:
                tc = ch.test_case
                keep = tc.size()
                if ch.is_failing():
                    pos = ch.get_last_mutatable_statement()
                    if pos is not None:
                        keep = min(keep, pos + 1)
                snaps["before"].append(snapshot(tc)[:keep])
            return orig_min(generation_result, algorithm)

        gen._minimize = spy
        try:
            rc = gen.run_pynguin()
        finally:
            gen._minimize = orig_min
        files = list(out.glob("test_*.py"))
        res = {"rc": str(rc), "fail": None, "asserts_before": 0, "asserts_written": 0, "tests": 0, "src": src,
               "task": [mod_seed, seed, algo, assertion_gen, strategy]}
        if "before" not in snaps or not files:
            res["skipped"] = "no snapshot or no file"
            return res
        text = files[0].read_text()
        fns = [n for n in ast.parse(text).body if isinstance(n, ast.FunctionDef) and n.name.startswith("test_")]
        expected = [s for s in snaps["before"] if s]
        res["tests"] = len(expected)
        res["asserts_before"] = sum(1 for s in expected for _, al in s for a in al if a is not None)
        parsed = [parse_function(fn, text) for fn in fns if fn.name != "test_empty"]
        res["asserts_written"] = sum(1 for p in parsed for k, _ in p if k == "assert")
        if strategy == "NONE":
            if len(parsed) != len(expected):
                res["fail"] = ("export:function-count", f"{len(expected)} non-empty tests before post-processing, {len(parsed)} written")
            else:
                for i, (s, p) in enumerate(zip(expected, parsed)):
                    g = compare_export(s, p, f"pipeline test_{i}")
                    if g:
                        res["fail"] = g
                        break
        return res
    except Exception as e:  # noqa: BLE001
        return {"crash": f"{type(e).__name__}: {e}", "trace": traceback.format_exc()[-2500:]}


def e2e_module(r) -> str:
    """A small deterministic module whose results are worth asserting on (numbers, floats, strings,
    objects with public fields), most of them not used by a later statement."""
    k = r.randrange(2, 9)
    return textwrap.dedent(f'''
        class Acc:
            total = 0

            def __init__(self, start: int = {k}):
                self.value = start
                self.name = "acc"

            def add(self, n: int) -> int:
                self.value += n
                return self.value

            def ratio(self, d: float) -> float:
                if d == 0:
                    return 0.0
                return self.value / d


        def scale(x: float, f: float = {k}.5) -> float:
            return x * f


        def label(n: int) -> str:
            if n < 0:
                return "neg"
            if n > {k}:
                return "big"
            return "small"


        def pair(a: int, b: int) -> list[int]:
            return [a, b, a + b]
        ''')


# ------------------------------------------------------------------------------------------------
def run(ctx: vlib.Ctx):
    vlib.setup_impl_path()
    ctx.digest_sources(SRC)
    ctx.coq_static()
    if not ctx.quick:
        ctx.coqchk()
    scratch = ctx.mkscratch()
    # end-to-end runs in worker processes while the direct cases run here
    n_e2e = 3 if ctx.quick else 16
    tasks = []
    for i in range(n_e2e):
        tasks.append((ctx.rng.randrange(10**6), ctx.rng.randrange(10**6), ctx.rng.choice(["DYNAMOSA", "MOSA", "WHOLE_SUITE"]),
                      ctx.rng.choice(["SIMPLE", "SIMPLE", "CHECKED_MINIMIZING", "MUTATION_ANALYSIS"]),
                      "NONE" if i % 3 != 2 else "CASE", str(scratch)))
    pool = mp.get_context("fork").Pool(min(8, len(tasks)), maxtasksperchild=1)   # one pipeline run per process
    async_res = pool.map_async(e2e, tasks, chunksize=1)
    r = random.Random(ctx.rng.randrange(10**9))
    rcases, ecases, fails, stats = direct(r, 500 if ctx.quick else 6000, scratch)
    pfails, pstats = post_cases(r, 300 if ctx.quick else 4000, scratch)
    for k_, v_ in pstats.items():
        stats[k_] = v_
    for i_ in range(pstats.get("post:CASE-F", 0) + pstats.get("post:CASE-B", 0) + pstats.get("post:COMBINED", 0)):
        ctx.case_seen(("post", i_, ctx.seed), nontrivial=True)
    fails += pfails
    xfails, xcases, xstats = reexec_cases(r, 60 if ctx.quick else 600, scratch)
    fails += xfails
    for k_, v_ in xstats.items():
        stats[k_] = v_
    for pa_, n_, it_ in xcases:
        ctx.case_seen(("reexec", repr(it_), n_), nontrivial=True)
    ctx.log(f"direct: {len(rcases)} remove_unused_variables cases, {len(ecases)} export cases, "
            f"{sum(v for k, v in pstats.items() if k in ('post:CASE-F', 'post:CASE-B', 'post:COMBINED'))} post-processing suites, "
            f"{len(fails)} oracle failures")
    for k, v in sorted(stats.items()):
        ctx.count(k, v)
    seen_sig = set()
    for f in fails:
        if f["signature"] not in seen_sig or len(seen_sig) < 3:
            ctx.fail(f["signature"], f["message"], f["replay"])
        seen_sig.add(f["signature"])
    rc_terms = []
    for pre, post in rcases:
        rc_terms.append(c_rcase(pre, post))
        ctx.case_seen(("ruv", rc_terms[-1]), nontrivial=any(s["asserts"] for s in pre["stmts"]))
    ec_coq = []
    for pre, items in ecases:
        ec_coq.append(c_ecase_with_render(pre, items))
        ctx.case_seen(("export", ec_coq[-1]), nontrivial=any(k == "assert" for k, _ in items))
    if rc_terms:
        ctx.sample({"ruv_case": rc_terms[0][:500]})
    if ec_coq:
        ctx.sample({"export_case": ec_coq[0][:500]})
    ctx.cov["rule"] = ("random well-formed test cases (1-9 statements; assignments, expression statements, annotated and "
                       "multi-target assignments, attribute reads) with 0-3 assertions per statement on the statement's own value "
                       "(used later or not), on earlier values, on module-level names, dotted sources, exception assertions; a case "
                       "is non-trivial when it carries at least one assertion; distinct = distinct (test case, observation)")
    e2e_res = async_res.get()
    pool.close()
    pool.join()
    n_e2e_fail = 0
    for t, res in zip(tasks, e2e_res):
        if "crash" in res:
            ctx.broken("harness-crash", f"end-to-end run crashed: {res['crash']}", {"trace": res["trace"], "task": list(map(str, t[:5]))})
            continue
        ctx.count(f"e2e:{t[3]}:{t[4]}")
        ctx.count("e2e:assertions-before", res.get("asserts_before", 0))
        ctx.count("e2e:asserts-written", res.get("asserts_written", 0))
        if res.get("skipped"):
            ctx.count("e2e:skipped")
            ctx.notes.append(f"end-to-end run {t[:5]} produced no snapshot/file (rc {res.get('rc')})")
        if t[4] == "CASE" and res.get("asserts_written", 0) < res.get("asserts_before", 0):
            ctx.notes.append(f"statement minimisation (strategy CASE, C22) removed statements carrying assertions: "
                             f"{res['asserts_before']} assertions before, {res['asserts_written']} written (task {t[:5]})")
        if res.get("fail"):
            n_e2e_fail += 1
            sig, msg = res["fail"]
            ctx.fail("e2e:" + sig.split(":", 1)[1] if sig.startswith("export:") else sig, msg,
                     {"task": res["task"], "module_source": res["src"]})
        ctx.case_seen(("e2e", tuple(map(str, t[:5]))), nontrivial=res.get("asserts_before", 0) > 0)
    ctx.leg("S", direct_cases=len(rcases) + len(ecases), oracle_failures=len(fails), e2e_runs=len(tasks), e2e_failures=n_e2e_fail)
    b1 = ctx.run_cases("C19_ruv", IMPORTS, "C19.rcase", "C19.check_ruv", rc_terms, shard=600)
    b2 = ctx.run_cases("C19_export", IMPORTS, "C19.ecase", "C19.check_export", ec_coq, shard=600)
    xc_coq = [c_xcase_reexec(pa_, n_, it_) for pa_, n_, it_ in xcases]
    b3 = ctx.run_cases("C19_reexec", IMPORTS, "C19.xcase", "C19.check_export_x", xc_coq, shard=600)
    for name, bad, pool_, what in (
        ("C19-reexec-model", b3, xc_coq, "the export model with per-statement re-execution (one exception entry per statement, complete body) no longer reproduces the written test function"),
        ("C19-ruv-model", b1, rc_terms, "the model of remove_unused_variables (about which assertion preservation is proved) no longer reproduces the implementation"),
        ("C19-export-model", b2, ec_coq, "the export model (statement followed by its renderable assertions) no longer reproduces the written test function"),
    ):
        if bad:
            ctx.leg("K2:" + name, ok=False, mismatches=len(bad), cases=len(pool_))
            if not fails and not n_e2e_fail:
                ctx.broken("correspondence:" + name, what, {"first_case": pool_[bad[0]][:3000], "mismatching": len(bad)})
        elif bad is not None:
            ctx.leg("K2:" + name, ok=True, cases=len(pool_))
    ctx.assumptions += [
        "assertion sources are abstracted to their root variable; rendering itself (assertion_to_cst) is C20's subject: an "
        "assertion is identified in the written file by the text assertion_to_cst produces for it",
        "ExceptionAssertion is rendered structurally (pytest.raises / xfail) and is outside `renderable`",
        "statement minimisation is not in C19's Coq model (its protection theorems are C22's); the real Forward/Backward/"
        "Combined visitors + real export are driven with stub coverage functions and checked by an independent oracle; "
        "whole-pipeline runs assert with strategy NONE and only measure with strategy CASE; SUITE is not driven",
    ]
    ctx.cov["trusted_base"] += ["hand-written model Base/TestCaseIR.v (remove_unused_variables) + Models/C19.v tied by correspondence (this run)",
                                "harness/props/C19.py, harness/props/_c15_lib.py (abstraction, parsers of the written file)"]


def c_ecase_with_render(pre_abs, items):
    cd = L.Coder()
    pre = {"stmts": [], "counter": pre_abs["counter"], "reg": pre_abs["reg"]}
    for s in pre_abs["stmts"]:
        s2 = dict(s)
        s2["asserts"] = [(root, rd, norm_key(s["rtext"][j]) if s["rtext"][j] is not None else "norender:" + rp)
                         for j, (root, rd, rp) in enumerate(s["asserts"])]
        pre["stmts"].append(s2)
    # Coder.aid normalises variable names itself
    obs = L.clist("(%s, %s)" % ("true" if k == "assert" else "false",
                                L.cN(cd.aid(norm_key(t)) if k == "assert" else cd.node(t))) for k, t in items)
    pre_c = L.c_tc(pre, cd)
    return "(%s, %s)" % (pre_c, obs)


def replay(ctx, path):
    vlib.setup_impl_path()
    d = json.loads(open(path).read())["replay"]
    if "reexec_seed" in d:
        class _R:
            def randrange(self, n):
                return d["reexec_seed"]
        fs, _x, _s = reexec_cases(_R(), 1, ctx.mkscratch())
        print(json.dumps(fs, indent=1))
        return 0
    if "post_seed" in d:
        import pynguin.ga.postprocess as pp

        rr = random.Random(d["post_seed"])
        print("strategy:", rr.choice(["CASE-F", "CASE-B", "COMBINED"]))
        fs, _ = post_cases_single(d["post_seed"], ctx.mkscratch())
        print(json.dumps(fs, indent=1))
        return 0
    if "statements" in d:
        r = random.Random(0)
        tc = build_tc(r, len(d["statements"]), d["statements"])
        print("before:\n" + tc.to_module().code)
        print("assertions:", [[repr(a) for a in s.assertions] for s in tc._statements])
        tc.remove_unused_variables()
        print("after remove_unused_variables:\n" + tc.to_module().code)
        print("assertions:", [[repr(a) for a in s.assertions] for s in tc._statements])
    else:
        t = d["task"]
        res = e2e((t[0], t[1], t[2], t[3], t[4], str(ctx.mkscratch())))
        print(json.dumps({k: v for k, v in res.items() if k != "src"}, indent=1, default=str))
    return 0
