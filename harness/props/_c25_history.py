"""Shared by C25 and C26: histories of cached TypeSystem queries interleaved with graph updates."""
from __future__ import annotations

from props import _c25_common as cm

CACHED = ["get_subclasses", "get_superclasses", "is_subclass", "is_subtype", "is_maybe_subtype", "subtype_distance"]
TOWER_EDGES = [("int", "bool"), ("float", "int"), ("complex", "float")]
QNAME = {"sub": "is_subtype", "maybe": "is_maybe_subtype", "dist": "subtype_distance", "subclass": "is_subclass"}


# ------------------------------------------------------------------------------------------------
def ask(cl, q):
    kind, a, b = q
    ts = cl.ts
    if kind == "subclass":
        return ts.is_subclass(cl.info[a], cl.info[b])
    ra, rb = cl.to_real(a), cl.to_real(b)
    if kind == "sub":
        return ts.is_subtype(ra, rb)
    if kind == "maybe":
        return ts.is_maybe_subtype(ra, rb)
    return ts.subtype_distance(ra, rb)


def clear_caches(ts):
    for m in CACHED:
        getattr(ts, m).cache_clear()


def q_str(q):
    if q[0] == "subclass":
        return f"{QNAME[q[0]]}({q[1]}, {q[2]})"
    return f"{QNAME[q[0]]}({cm.t_str(q[1])}, {cm.t_str(q[2])})"


def fresh_system(cl, queries):
    """A fresh TypeSystem that receives the current graph before it is asked anything."""
    names, edges, _ = cl.graph_for(history_classes(cl, queries))
    return cm.Cluster.bare_from(cl, names, edges)


def run_history(rng, cl, pool, n_ops, preset=None, check_each=True):
    """Interleave cached queries with graph updates on the real TypeSystem.  Every answer is compared
    with a fresh TypeSystem built on the graph of that moment; at the end every distinct query is asked
    again and compared with the answer after cache_clear() and with a fresh TypeSystem on the final graph."""
    classes = [n for n in cl.class_names if cl.raw[n].__class__.__name__ != "EnumType"]
    ops, answers = [], []
    queries = []
    if preset is not None:
        plan = preset
    else:
        plan = []
        for _ in range(n_ops):
            c = rng.random()
            if c < 0.22 and len(classes) >= 2:
                p, k = rng.sample(classes, 2)
                plan.append(("edge", p, k))
            elif c < 0.27:
                plan.append(("tower",))
            elif c < 0.40:
                plan.append(("q", ("subclass", rng.choice(cl.universe), rng.choice(cl.universe))))
                queries.append(plan[-1][1])
            else:
                a, b = rng.choice(pool), rng.choice(pool)
                if queries and rng.random() < 0.45:
                    plan.append(("q", rng.choice(queries)))
                else:
                    plan.append(("q", (rng.choice(["sub", "maybe", "dist", "dist"]), a, b)))
                    queries.append(plan[-1][1])
        plan = add_shortcuts(rng, cl, plan)
    fails = []

    def stale(q, got, want, where):
        if not any(f[2] == q for f in fails):
            fails.append((f"cache-stale:{QNAME[q[0]]}",
                          f"{q_str(q)} answers {got} from its cache after the inheritance graph changed; {where}: {want}", q))

    queries = []
    fresh, dirty = None, True
    for step in plan:
        if step[0] == "q":
            q = step[1]
            queries.append(q)
            ops.append(("Query", q))
            got = ask(cl, q)
            answers.append(("ans", q[0], got))
            if check_each:
                if dirty or fresh is None or not history_classes(cl, [q]) <= set(fresh.info):
                    fresh, dirty = fresh_system(cl, queries), False
                want = ask(fresh, q)
                if want != got:
                    stale(q, got, want, "a fresh TypeSystem with the graph of that moment")
        elif step[0] == "edge":
            cl.ts.add_subclass_edge(super_class=cl.info[step[1]], sub_class=cl.info[step[2]])
            ops.append(("AddEdge", step[1], step[2]))
            answers.append(None)
            dirty = True
        else:
            cl.ts.enable_numeric_tower()
            for p, k in TOWER_EDGES:
                ops.append(("AddEdge", p, k))
                answers.append(None)
            dirty = True
    distinct = list(dict.fromkeys(queries))
    cached = [ask(cl, q) for q in distinct]
    fresh = fresh_system(cl, distinct)
    for q, a in zip(distinct, cached):
        want = ask(fresh, q)
        if want != a:
            stale(q, a, want, "a fresh TypeSystem with the final graph")
    clear_caches(cl.ts)
    for q, a in zip(distinct, cached):
        want = ask(cl, q)
        if want != a:
            stale(q, a, want, "recomputed on the final graph after cache_clear()")
    return ops, answers, fails, plan


def history_classes(cl, queries):
    used = set(cl.universe)
    for q in queries:
        if q[0] == "subclass":
            used.update([q[1], q[2]])
        else:
            cm.t_classes(q[1], used)
            cm.t_classes(q[2], used)
    return used


def add_shortcuts(rng, cl, plan):
    """Insert redundant edges (a -> c where a longer path a ~> c exists already: a class listing a base and
    an ancestor of that base, diamond shortcuts) with distance queries on the end points before and after."""
    import networkx as nx

    g = cl.ts._graph  # noqa: SLF001
    names = [n for n in cl.universe if cl.hg_of(n) is None]
    cands = []
    for a in names:
        for c in cl.class_names:
            if a != c and cl.info[a] in g and cl.info[c] in g and not g.has_edge(cl.info[a], cl.info[c]):
                try:
                    if nx.shortest_path_length(g, cl.info[a], cl.info[c]) >= 2:
                        cands.append((a, c))
                except nx.NetworkXNoPath:
                    pass
    rng.shuffle(cands)
    plan = list(plan)
    for a, c in cands[:rng.choice([1, 2, 3])]:
        ta, tc, to = cm.t_inst(a), cm.t_inst(c), cm.t_inst("object")
        before = [("q", ("dist", ta, tc)), ("q", ("dist", to, tc)), ("q", ("dist", cm.t_union([ta, cm.NONE_T]), tc)),
                  ("q", ("sub", tc, ta)), ("q", ("subclass", c, a))]
        rng.shuffle(before)
        block = before[:rng.choice([2, 3, 5])] + [("edge", a, c)]
        block += [st for st in before if rng.random() < 0.7]
        pos = rng.randrange(len(plan) + 1)
        plan[pos:pos] = block
    return plan


def leaf_queries(rng, c, a):
    """Queries about a class c and its (future) base a."""
    tc, ta, to = cm.t_inst(c), cm.t_inst(a), cm.t_inst("object")
    qs = [("subclass", c, a), ("sub", tc, ta), ("maybe", tc, ta), ("dist", ta, tc), ("dist", to, tc),
          ("sub", cm.t_union([tc, ta]), ta), ("dist", cm.t_tuple([ta]), cm.t_tuple([tc])),
          ("maybe", cm.t_inst("list", [tc]), cm.t_inst("list", [tc])), ("subclass", c, "object")]
    rng.shuffle(qs)
    return [("q", q) for q in qs[:rng.choice([2, 3, 5, 9])]]


def rebuild_plan(rng, cl):
    """The hierarchy of the cluster fed edge by edge into a fresh TypeSystem in which every class is already
    registered (to_type_info): random / analysis / reversed / leaf-last insertion orders, extra redundant
    shortcut edges, queries between the graph updates - in particular about classes that are still isolated,
    repeated right after their first edge arrives."""
    import networkx as nx

    names, edges, _ = cl.graph_for(set(cl.universe))
    g = nx.DiGraph(edges)
    extra = []
    for a in names:
        for c in cl.class_names:
            if a in g and c in g and a != c and not g.has_edge(a, c) and nx.has_path(g, a, c):
                extra.append((a, c))
    rng.shuffle(extra)
    todo = list(edges) + extra[:rng.choice([0, 0, 1, 2, 4])]
    mode = rng.choice(["shuffle", "analysis", "reverse", "leaf-last", "leaf-last"])
    if mode == "shuffle":
        rng.shuffle(todo)
    elif mode == "reverse":
        todo.reverse()
    elif mode == "leaf-last":
        # classes with a single base and no subclass: their only edge comes last (after everything that flushes)
        leaves = [c for c in g.nodes if g.out_degree(c) == 0 and g.in_degree(c) == 1]
        rng.shuffle(leaves)
        late = set(leaves[:rng.choice([1, 1, 2, 3])])
        rng.shuffle(todo)
        todo = [e for e in todo if e[1] not in late] + [e for e in todo if e[1] in late]
    plain = [n for n in names if cl.hg_of(n) is None and not n.startswith("@")]
    asked, plan = [], []
    degree = {n: 0 for n in names}

    def usable(x):
        return cl.hg_of(x) is None and not x.startswith("@")

    for a, c in todo:
        post = []
        if degree.get(c, 0) == 0 and usable(a) and usable(c) and rng.random() < 0.75:
            pre = leaf_queries(rng, c, a)          # asked while c is still isolated ...
            plan += pre
            post = [st for st in pre if rng.random() < 0.8] or pre[:1]
            asked += [st[1] for st in pre]
        plan.append(("edge", a, c))
        degree[a] = degree.get(a, 0) + 1
        degree[c] = degree.get(c, 0) + 1
        plan += post                               # ... and again right after its first edge
        for _ in range(rng.choice([0, 0, 1, 2])):
            if asked and rng.random() < 0.5:
                plan.append(("q", rng.choice(asked)))
                continue
            x = rng.choice([a, c, "object", rng.choice(plain)])
            y = rng.choice([a, c, rng.choice(cl.class_names or plain), rng.choice(plain)])
            if not usable(x) or not usable(y):
                continue
            kind = rng.choice(["dist", "dist", "dist", "sub", "maybe", "subclass"])
            q = ("subclass", y, x) if kind == "subclass" else (kind, cm.t_inst(x), cm.t_inst(y))
            if kind == "dist" and rng.random() < 0.3:
                q = ("dist", cm.t_union([cm.t_inst(x), cm.NONE_T]), cm.t_tuple([cm.t_inst(y)])) if rng.random() < 0.3 else \
                    ("dist", cm.t_inst("list", [cm.t_inst(x)]), cm.t_inst("list", [cm.t_inst(y)]))
            asked.append(q)
            plan.append(("q", q))
    for q in list(dict.fromkeys(asked))[-14:]:
        plan.append(("q", q))
    return names, plan


def shrink_history(cl_factory, plan, sig):
    """Delta-debug a history plan; cl_factory() builds a fresh cluster (graph updates are destructive)."""
    changed = True
    budget = 8
    while changed and budget > 0:
        changed = False
        for i in range(len(plan)):
            cand = plan[:i] + plan[i + 1:]
            budget -= 1
            if budget <= 0:
                break
            cl = cl_factory()
            try:
                _, _, fails, _ = run_history(None, cl, None, 0, preset=cand)
            finally:
                cl.close()
            if any(f[0] == sig for f in fails):
                plan, changed = cand, True
                break
    return plan


def plan_to_json(plan):
    out = []
    for st in plan:
        if st[0] == "q":
            k, a, b = st[1]
            out.append(["q", k, a if k == "subclass" else cm.t_to_json(a), b if k == "subclass" else cm.t_to_json(b)])
        else:
            out.append(list(st))
    return out


def plan_from_json(js):
    out = []
    for st in js:
        if st[0] == "q":
            k = st[1]
            out.append(("q", (k, st[2] if k == "subclass" else cm.t_from_json(st[2]), st[3] if k == "subclass" else cm.t_from_json(st[3]))))
        else:
            out.append(tuple(st))
    return out




# ------------------------------------------------------------------------------------------------
# stateful sequences: the other public queries of the TypeSystem (which share memoised state with the
# subsumption queries) interleaved with subsumption queries on a complete, no longer changing graph
def names_in(cl, infos):
    """Universe names of the TypeInfos in a returned collection, in universe order (read only!)."""
    got = {ti for ti in infos}
    return [n for n in cl.universe if cl.info[n] in got]


def gen_stateful_plan(rng, cl, pool, n_ops):
    uni = list(cl.universe)
    user = [n for n in cl.class_names] or uni
    plan = []
    for _ in range(n_ops):
        c = rng.random()
        if c < 0.16:
            k = rng.choice([2, 2, 3, 1])
            ks = rng.sample(user if rng.random() < 0.7 and len(user) >= k else uni, min(k, len(uni)))
            plan.append(("outside", tuple(ks)))
            # the classes of the 2nd.. hierarchy vs the first one, right afterwards
            for other in ks[1:]:
                plan.append(("q", ("subclass", other, ks[0])))
                plan.append(("q", (rng.choice(["sub", "maybe"]), cm.t_inst(other) if cl.hg_of(other) is None else cm.t_inst("str"),
                                   cm.t_inst(ks[0]) if cl.hg_of(ks[0]) is None else cm.t_inst("object"))))
            plan.append(("subclasses", ks[0]))
        elif c < 0.26:
            plan.append(("subclasses", rng.choice(uni)))
        elif c < 0.34:
            plan.append(("superclasses", rng.choice(uni)))
        elif c < 0.44:
            plan.append((rng.choice(["find_attr", "to_info", "find_info", "all_types", "make_instance", "convert"]), rng.choice(uni)))
        elif c < 0.62:
            plan.append(("q", ("subclass", rng.choice(uni), rng.choice(uni))))
        else:
            a, b = rng.choice(pool), rng.choice(pool)
            plan.append(("q", (rng.choice(["sub", "maybe", "dist"]), a, b)))
    return plan


def run_stateful(cl, plan, expected):
    """Runs the plan on a fresh TypeSystem holding the complete graph of `cl`; a second fresh system that is
    asked the subsumption queries only is the reference.  expected[(a, b)] = issubclass (+ tower)."""
    from pynguin.utils.orderedset import OrderedSet

    used = set(cl.universe)
    for st in plan:
        if st[0] == "q" and st[1][0] != "subclass":
            cm.t_classes(st[1][1], used)
            cm.t_classes(st[1][2], used)
    names, edges, _ = cl.graph_for(used)
    sys_, ref = cm.Cluster.bare_from(cl, names, edges), cm.Cluster.bare_from(cl, names, edges)
    fails, sets = [], []
    asked = []

    def bad(sig, what):
        if not any(f[0] == sig for f in fails):
            fails.append((sig, what))

    def exp_sub(c):
        return [n for n in cl.universe if expected[(n, c)]]

    for st in plan:
        k = st[0]
        if k == "q":
            q = st[1]
            got, want = ask(sys_, q), ask(ref, q)
            asked.append(q)
            if got != want:
                bad(f"stateful:{QNAME[q[0]]}", f"{q_str(q)} = {got} after other TypeSystem queries were made; the same system asked only this: {want}")
            if q[0] == "subclass" and got != expected[(q[1], q[2])]:
                bad("stateful:subclass:" + ("missing" if expected[(q[1], q[2])] else "spurious"),
                    f"after other TypeSystem queries were made: {q_str(q)} = {got}, issubclass (+ numeric tower) says {expected[(q[1], q[2])]}")
        elif k == "outside":
            res = names_in(cl, sys_.ts.get_type_outside_of(OrderedSet(sys_.info[n] for n in st[1])))
            want = [n for n in cl.universe if not any(expected[(n, c)] for c in st[1])]
            sets.append(("outside", st[1], res))
            if res != want:
                bad("stateful:get_type_outside_of", f"get_type_outside_of({list(st[1])}) gives {res} of the universe, issubclass says {want}")
        elif k == "subclasses":
            res = names_in(cl, sys_.ts.get_subclasses(sys_.info[st[1]]))
            sets.append(("subclasses", st[1], res))
            if res != exp_sub(st[1]):
                bad("stateful:get_subclasses", f"get_subclasses({st[1]}) gives {res} of the universe after other queries, issubclass says {exp_sub(st[1])}")
        elif k == "superclasses":
            res = names_in(cl, sys_.ts.get_superclasses(sys_.info[st[1]]))
            want = [n for n in cl.universe if expected[(st[1], n)]]
            sets.append(("superclasses", st[1], res))
            if res != want:
                bad("stateful:get_superclasses", f"get_superclasses({st[1]}) gives {res} of the universe after other queries, issubclass says {want}")
        elif k == "find_attr":
            sys_.ts.find_by_attribute("x")
        elif k == "to_info":
            if sys_.ts.to_type_info(sys_.info[st[1]].raw_type) != sys_.info[st[1]]:
                bad("stateful:to_type_info", f"to_type_info({st[1]}) returns another TypeInfo")
        elif k == "find_info":
            sys_.ts.find_type_info(sys_.info[st[1]].full_name)
        elif k == "all_types":
            sys_.ts.get_all_types()
        elif k == "make_instance":
            sys_.ts.make_instance(sys_.info[st[1]])
        elif k == "convert":
            sys_.ts.convert_type_hint(sys_.info[st[1]].raw_type)
    # re-ask everything at the end
    for q in dict.fromkeys(asked):
        got, want = ask(sys_, q), ask(ref, q)
        if got != want:
            bad(f"stateful:{QNAME[q[0]]}", f"{q_str(q)} = {got} when re-asked after other TypeSystem queries; the same system asked only this: {want}")
    for a in cl.universe:
        for b in cl.universe:
            got = sys_.ts.is_subclass(sys_.info[a], sys_.info[b])
            if got != expected[(a, b)]:
                bad("stateful:subclass:" + ("missing" if expected[(a, b)] else "spurious"),
                    f"after other TypeSystem queries were made: is_subclass({a}, {b}) = {got}, issubclass (+ numeric tower) says {expected[(a, b)]}")
    return fails, sets


def splan_to_json(plan):
    out = []
    for st in plan:
        if st[0] == "q":
            out += plan_to_json([st])
        elif st[0] == "outside":
            out.append(["outside", list(st[1])])
        else:
            out.append(list(st))
    return out


def splan_from_json(js):
    out = []
    for st in js:
        if st[0] == "q":
            out += plan_from_json([st])
        elif st[0] == "outside":
            out.append(("outside", tuple(st[1])))
        else:
            out.append(tuple(st))
    return out


def shrink_splan(cl, plan, expected, sig):
    changed, budget = True, 60
    while changed and budget > 0:
        changed = False
        for i in range(len(plan)):
            budget -= 1
            cand = plan[:i] + plan[i + 1:]
            if any(f[0] == sig for f in run_stateful(cl, cand, expected)[0]):
                plan, changed = cand, True
                break
    return plan
