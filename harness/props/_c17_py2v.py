"""Fail-closed translator for the counting stopping conditions of pynguin.ga.stoppingcondition and
GenerationAlgorithm.resources_left (Python `ast` -> Gallina over Models/C17.v's `cond`).

Fragment (anything else raises Untranslatable):
  class K(StoppingCondition) with  current_value: `return self.A`   (A = the counter attribute)
                                    limit:         `return self.B`   (B = the limit attribute)
  method bodies: docstring | self.A = <int> | self.A += <expr> | self.reset() | return <bool expr>
  expressions:   self.A, self.B, int literals, <param>.num_executed_statements, + - , one comparison
                 (>= > <= < == !=), and / or / not
  methods the class does not define are inherited from StoppingCondition, whose bodies must be
  docstring-only (no-ops).
"""
from __future__ import annotations

import ast

CLASSES = ["MaxIterationsStoppingCondition", "MaxTestExecutionsStoppingCondition",
           "MaxStatementExecutionsStoppingCondition"]
HOOKS = [("before_search_start", False), ("after_search_iteration", False),
         ("before_remote_test_case_execution", False), ("after_remote_test_case_execution", True)]
CMP = {ast.GtE: ">=?", ast.Gt: ">?", ast.LtE: "<=?", ast.Lt: "<?", ast.Eq: "=?"}


class Untranslatable(Exception):
    pass


def _methods(cls: ast.ClassDef):
    return {n.name: n for n in cls.body if isinstance(n, ast.FunctionDef)}


def _body(fn: ast.FunctionDef):
    b = list(fn.body)
    if b and isinstance(b[0], ast.Expr) and isinstance(b[0].value, ast.Constant) and isinstance(b[0].value.value, str):
        b = b[1:]
    return [s for s in b if not isinstance(s, ast.Pass)]


def _self_attr(node):
    if isinstance(node, ast.Attribute) and isinstance(node.value, ast.Name) and node.value.id == "self":
        return node.attr
    return None


def _returned_attr(fn):
    b = _body(fn)
    if len(b) == 1 and isinstance(b[0], ast.Return) and _self_attr(b[0].value):
        return _self_attr(b[0].value)
    raise Untranslatable(f"{fn.name}: expected `return self.<attr>`")


class ClassTr:
    def __init__(self, cls: ast.ClassDef, base: ast.ClassDef):
        self.cls, self.base = cls, base
        self.m = _methods(cls)
        for need in ("current_value", "limit", "is_fulfilled"):
            if need not in self.m:
                raise Untranslatable(f"{cls.name}: no {need}")
        self.counter = _returned_attr(self.m["current_value"])
        self.limit = _returned_attr(self.m["limit"])

    def expr(self, e, params) -> str:
        a = _self_attr(e)
        if a == self.counter:
            return "(cnt c)"
        if a == self.limit:
            return "(lim c)"
        if isinstance(e, ast.Constant) and isinstance(e.value, int) and not isinstance(e.value, bool):
            return f"({e.value})"
        if (isinstance(e, ast.Attribute) and e.attr == "num_executed_statements" and isinstance(e.value, ast.Name)
                and e.value.id in params):
            return "k"
        if isinstance(e, ast.BinOp) and isinstance(e.op, (ast.Add, ast.Sub)):
            op = "+" if isinstance(e.op, ast.Add) else "-"
            return f"({self.expr(e.left, params)} {op} {self.expr(e.right, params)})"
        raise Untranslatable(f"{self.cls.name}: expression {ast.dump(e)[:80]}")

    def bexpr(self, e, params) -> str:
        if isinstance(e, ast.Compare) and len(e.ops) == 1:
            l, r = self.expr(e.left, params), self.expr(e.comparators[0], params)
            if type(e.ops[0]) in CMP:
                return f"({l} {CMP[type(e.ops[0])]} {r})"
            if isinstance(e.ops[0], ast.NotEq):
                return f"(negb ({l} =? {r}))"
        if isinstance(e, ast.BoolOp):
            op = "&&" if isinstance(e.op, ast.And) else "||"
            return "(" + f" {op} ".join(self.bexpr(v, params) for v in e.values) + ")"
        if isinstance(e, ast.UnaryOp) and isinstance(e.op, ast.Not):
            return f"(negb {self.bexpr(e.operand, params)})"
        if isinstance(e, ast.Constant) and isinstance(e.value, bool):
            return "true" if e.value else "false"
        raise Untranslatable(f"{self.cls.name}: condition {ast.dump(e)[:80]}")

    def update(self, name, depth=0) -> str:
        """Gallina term of type cond (free variables c, k) for the effect of method `name`."""
        if depth > 3:
            raise Untranslatable("recursion")
        fn = self.m.get(name)
        if fn is None:
            bfn = _methods(self.base).get(name)
            if bfn is None or _body(bfn):
                raise Untranslatable(f"{self.cls.name}.{name}: not defined and the base method is not a no-op")
            return "c"
        params = [a.arg for a in fn.args.args[1:]]
        term = "c"
        for s in _body(fn):
            if isinstance(s, ast.Assign) and len(s.targets) == 1 and _self_attr(s.targets[0]) == self.counter:
                step = f"set_cnt c {self.expr(s.value, params)}"
            elif isinstance(s, ast.AugAssign) and _self_attr(s.target) == self.counter and isinstance(s.op, (ast.Add, ast.Sub)):
                op = "+" if isinstance(s.op, ast.Add) else "-"
                step = f"set_cnt c ((cnt c) {op} {self.expr(s.value, params)})"
            elif (isinstance(s, ast.Expr) and isinstance(s.value, ast.Call) and _self_attr(s.value.func) == "reset"
                  and not s.value.args and not s.value.keywords):
                step = self.update("reset", depth + 1)
            else:
                raise Untranslatable(f"{self.cls.name}.{name}: statement {ast.dump(s)[:100]}")
            term = f"(let c := {term} in {step})"
        return term

    def fulfilled(self) -> str:
        b = _body(self.m["is_fulfilled"])
        if len(b) != 1 or not isinstance(b[0], ast.Return):
            raise Untranslatable(f"{self.cls.name}.is_fulfilled: expected a single return")
        return self.bexpr(b[0].value, [])


RES_LEFT = "return all(not sc.is_fulfilled() for sc in self._stopping_conditions)"


def _is_all_not_fulfilled(stmt) -> bool:
    """`return all(not v.is_fulfilled() for v in self._stopping_conditions)` for any variable v."""
    try:
        call = stmt.value
        gen = call.args[0]
        comp = gen.generators[0]
        v = comp.target.id
        elt = gen.elt
        return (isinstance(stmt, ast.Return) and isinstance(call, ast.Call) and isinstance(call.func, ast.Name)
                and call.func.id == "all" and len(call.args) == 1 and not call.keywords
                and isinstance(gen, ast.GeneratorExp) and len(gen.generators) == 1 and not comp.ifs and not comp.is_async
                and _self_attr(comp.iter) == "_stopping_conditions"
                and isinstance(elt, ast.UnaryOp) and isinstance(elt.op, ast.Not)
                and isinstance(elt.operand, ast.Call) and not elt.operand.args and not elt.operand.keywords
                and isinstance(elt.operand.func, ast.Attribute) and elt.operand.func.attr == "is_fulfilled"
                and isinstance(elt.operand.func.value, ast.Name) and elt.operand.func.value.id == v)
    except (AttributeError, IndexError):
        return False


def translate(stopping_src: str, algorithm_src: str) -> tuple[str, dict]:
    tree = ast.parse(stopping_src)
    classes = {n.name: n for n in tree.body if isinstance(n, ast.ClassDef)}
    base = classes.get("StoppingCondition")
    if base is None:
        raise Untranslatable("no class StoppingCondition")
    out = []
    info = {}
    for name in CLASSES:
        cls = classes.get(name)
        if cls is None:
            raise Untranslatable(f"no class {name}")
        if [ast.unparse(b) for b in cls.bases] != ["StoppingCondition"]:
            raise Untranslatable(f"{name}: unexpected bases")
        tr = ClassTr(cls, base)
        short = name.replace("StoppingCondition", "")
        info[short] = {"counter": tr.counter, "limit": tr.limit}
        out.append(f"Definition {short}_is_fulfilled (c : cond) : bool := {tr.fulfilled()}.")
        for hook, has_k in HOOKS:
            kk = "(k : Z) " if has_k else ""
            out.append(f"Definition {short}_{hook} {kk}(c : cond) : cond := {tr.update(hook)}.")
        # observes_execution flag passed to super().__init__
        init = tr.m.get("__init__")
        obs = False
        if init is not None:
            for n in ast.walk(init):
                if isinstance(n, ast.keyword) and n.arg == "observes_execution":
                    if not isinstance(n.value, ast.Constant):
                        raise Untranslatable(f"{name}: observes_execution not a constant")
                    obs = bool(n.value.value)
        out.append(f"Definition {short}_observes_execution : bool := {'true' if obs else 'false'}.")
    atree = ast.parse(algorithm_src)
    ga = next((n for n in atree.body if isinstance(n, ast.ClassDef) and n.name == "GenerationAlgorithm"), None)
    if ga is None or "resources_left" not in _methods(ga):
        raise Untranslatable("no GenerationAlgorithm.resources_left")
    b = _body(_methods(ga)["resources_left"])
    if len(b) != 1 or not _is_all_not_fulfilled(b[0]):
        raise Untranslatable("resources_left: body is not `" + RES_LEFT + "`")
    out.append("Definition resources_left (fulfilled : list bool) : bool := forallb (fun f => negb f) fulfilled.")
    text = ("From Coq Require Import List ZArith Bool.\nFrom Verif Require Import Models.C17.\n"
            "Import ListNotations. Import C17. Open Scope Z_scope.\nModule Gen.\n" + "\n".join(out) + "\nEnd Gen.\n")
    return text, info


TIE = """From Coq Require Import List ZArith Bool.
From Verif Require Import Models.C17.
From Run Require Import C17_gen.
Import ListNotations. Import C17. Open Scope Z_scope.

(* the definitions regenerated from stoppingcondition.py / generationalgorithm.py are the model's *)
Lemma tie_max_iterations : forall c k,
  Gen.MaxIterations_is_fulfilled c = cond_fulfilled c /\\
  Gen.MaxIterations_before_search_start c = cond_reset c /\\
  Gen.MaxIterations_after_search_iteration c = cond_incr c /\\
  Gen.MaxIterations_before_remote_test_case_execution c = c /\\
  Gen.MaxIterations_after_remote_test_case_execution k c = c.
Proof. intros c k. repeat split. Qed.

Lemma tie_max_test_executions : forall c k,
  Gen.MaxTestExecutions_is_fulfilled c = cond_fulfilled c /\\
  Gen.MaxTestExecutions_before_search_start c = cond_reset c /\\
  Gen.MaxTestExecutions_after_search_iteration c = c /\\
  Gen.MaxTestExecutions_before_remote_test_case_execution c = cond_incr c /\\
  Gen.MaxTestExecutions_after_remote_test_case_execution k c = c /\\
  Gen.MaxTestExecutions_observes_execution = true.
Proof. intros c k. repeat split. Qed.

Lemma tie_max_statement_executions : forall c k,
  Gen.MaxStatementExecutions_is_fulfilled c = cond_fulfilled c /\\
  Gen.MaxStatementExecutions_before_search_start c = cond_reset c /\\
  Gen.MaxStatementExecutions_after_search_iteration c = c /\\
  Gen.MaxStatementExecutions_before_remote_test_case_execution c = c /\\
  Gen.MaxStatementExecutions_after_remote_test_case_execution k c = cond_add k c /\\
  Gen.MaxStatementExecutions_observes_execution = true.
Proof. intros c k. repeat split. Qed.

Definition ofu (f : cond -> bool) (o : option cond) : bool := match o with Some c => f c | None => false end.

Lemma tie_resources_left : forall s,
  C17.resources_left s =
  Gen.resources_left [ofu Gen.MaxIterations_is_fulfilled (c_iter s);
                      ofu Gen.MaxTestExecutions_is_fulfilled (c_test s);
                      ofu Gen.MaxStatementExecutions_is_fulfilled (c_stmt s)].
Proof. intro s. reflexivity. Qed.
"""
