"""C09 — dynamic slices are sound and checked lines were executed.

T  static proofs (Properties/C09.v): slice ⊆ flow ∪ {criterion}; checked lines ⊆ lines of executed
   instructions; the backward pop/push bookkeeping pairs every consumer with its producer; dependence
   closure on the straight-line fragment.
K2 re-slicing of REAL traces: generated fragment programs are executed with
   CheckedCoverageInstrumentation through the real TestCaseExecutor and observers; the instruction
   states the ExecutionFlowBuilder hands to DynamicSlicer.slice are recorded and the Coq model of the
   slicer (vm_compute) must return the same instruction list, the same checked lines per statement,
   the same compute_statement_checked_lines result and the same assertion-checked line count.
S  direct oracle, independent of the model: (1) every checked line was executed (ground truth:
   sys.monitoring LINE events of the un-instrumented twin), (2) every module instruction of every
   slice was executed (INSTRUCTION events), (3) every line the shadow dynamic-dependence interpreter
   says the sliced value depends on is in the slice.
"""
from __future__ import annotations

import concurrent.futures as cf
import json
import multiprocessing as mp
import os
import random
import shutil
from pathlib import Path

import vlib


SRC = [
    "src/pynguin/slicer/dynamicslicer.py",
    "src/pynguin/slicer/executionflowbuilder.py",
    "src/pynguin/slicer/stack/stacksimulation.py",
    "src/pynguin/ga/checked_coverage.py",
    "src/pynguin/slicer/statementslicingobserver.py",
    "src/pynguin/instrumentation/version/python3_12.py",
]

IMPORTS = "From Verif Require Import Models.C09.\nImport C09.\nOpen Scope Z_scope."


# ------------------------------------------------------------------------------------------------
# Coq printers
def _b(x):
    return "true" if x else "false"


def _zl(xs):
    return "[" + ";".join(str(int(x)) for x in xs) + "]"


def _optl(xs):
    return "None" if xs is None else f"(Some {_zl(xs)})"


def c_instr(d):
    fl = 0
    for k, name in enumerate(["in_test", "is_def", "is_use", "is_cond", "ujump", "has_jump", "is_store",
                              "is_access", "call", "ret", "exc", "retnone"]):
        if d[name]:
            fl |= 1 << k
    m = d["mem"]
    if m[0] == "none":
        pm = "PN"
    elif m[0] == "var":
        _, g, name, scope, addr, mut, cre = m
        pm = f"(PV {name} {scope} {addr} {int(g) | (int(mut) << 1) | (int(cre) << 2)})"
    else:
        _, name, src, addr, mut, elem = m
        pm = f"(PA {name} {src} {addr} {int(mut) | (int(elem) << 1)})"
    return f"(I {d['uid']} {d['code']} {d['node']} {d['file']} {d['line']} {d['pops']} {d['pushes']} {fl} {pm})"


def c_case(rec):
    """Coq term of type C09.case for one real run (only in-fragment slices)."""
    cdg = []
    for key, v in sorted(rec["cdg"].items(), key=lambda kv: tuple(map(int, kv[0].split(",")))):
        c, n = key.split(",")
        cdg.append(f"(C {c} {n} {_zl(v['desc'])} {_b(v['ctrl'])} {_zl(v['loops'])} {_zl(v['succ'])})")
    files = rec["file_ids"]
    lines = []
    for lid, (fname, ln) in sorted(rec["lines_meta"].items()):
        lines.append(f"({lid},({files.get(fname, 0)},{ln}))")
    scs = []
    tab = {}

    def ix(d):
        t = c_instr(d)
        if t not in tab:
            tab[t] = len(tab)
        return tab[t]
    for s in rec["slices"]:
        kind = {"stmt": 0, "assert": 1, "store": 2}[s["kind"]]
        sl = None if s["error"] else [x["uid"] for x in s["slice"]]
        ln = s["lines"] if isinstance(s["lines"], list) else None
        scs.append("(mkSC %d %s (sel tb %s) %s %s)" % (
            kind, c_instr(s["crit"]), _zl([ix(d) for d in s["flow"]]), _optl(sl), _optl(ln)))
    sr = rec.get("stmt_result")
    ac = rec.get("assert_count")
    return "(let tb := [%s] in\n   mkCase [%s] [%s] [%s] %s %s)" % (
        ";".join(tab), ";".join(cdg), ";".join(lines), ";\n   ".join(scs), _optl(sr),
        "None" if ac is None else f"(Some {ac})")


# ------------------------------------------------------------------------------------------------
# one case in a worker process
def _worker_init(repo):
    os.environ["VERIF_REPO"] = repo
    vlib.REPO = Path(repo)
    vlib.setup_impl_path()


def classify(case, lm, k, missing, full):
    """Attribute each missing line to the dependence kind that explains it (which switch of the
    shadow interpreter makes the line disappear from the dependence set)."""
    from props import _c09_core as core

    # order matters when a line vanishes under several switches (e.g. `l.append(6); l[0] = len(l)`): the
    # recorded limitations first, so that `subscript-store` only names lines nothing else explains
    modes = [("container-method-mutation", {"noappend": True}), ("attribute-base", {"nobase": True}),
             ("subscript-store", {"nosetidx": True})]
    deps = {name: core.shadow_run(case, lm, **kw)["deps"][k] for name, kw in modes}
    kinds = {}
    for ln in sorted(missing):
        for name, _ in modes:
            if ln not in deps[name]:
                kinds.setdefault(name, []).append(ln)
                break
        else:
            kinds.setdefault("core", []).append(ln)
    return kinds


def evaluate(case, workdir, modname):
    """Run one generated case on the real code + twin + shadow; returns (coq_case|None, findings,
    stats).  findings: list of (signature, message, detail)."""
    from props import _c09_core as core

    src, lm = core.render(case)
    stats = {}
    findings = []
    try:
        sh = core.shadow_run(case, lm)
    except (RuntimeError, KeyError, IndexError, AttributeError, TypeError):
        return None, [], {"skipped:shadow": 1}, None
    try:
        rec = core.run_real(case, src, workdir, modname)
    except (NameError, IndexError, AttributeError, TypeError, KeyError) as e:  # twin crashed: invalid program
        return None, [], {"skipped:twin-" + type(e).__name__: 1}, None
    if rec.get("timeout"):
        return None, [], {"skipped:executor-timeout": 1}, None
    if rec["gt_values"] != sh["values"]:
        # the shadow interpreter disagrees with CPython about the VALUE: a harness bug, never silent
        findings.append(("harness:shadow-value-mismatch", f"shadow {sh['values']} vs CPython {rec['gt_values']}", {}))
    if rec.get("exceptions"):
        stats["test-exception"] = 1
    gt_lines = set(rec["gt_lines"])
    gt_instrs = {tuple(x) for x in rec["gt_instrs"]}
    meta = rec["lines_meta"]
    path = rec["path"]
    # (1) checked lines were executed
    bad = sorted(meta[i][1] for i in rec["checked_lines"] if meta[i][0] == path and meta[i][1] not in gt_lines)
    if bad:
        findings.append(("checked-line-not-executed",
                         f"lines {bad} are reported as checked but were never executed", {"lines": bad}))
    n_stmt = sum(1 for s in rec["slices"] if s["kind"] == "stmt")
    oof = 0
    for s in rec["slices"]:
        if "slice" not in s:
            continue
        stats["slices"] = stats.get("slices", 0) + 1
        stats["crit:" + s["kind"]] = stats.get("crit:" + s["kind"], 0) + 1
        if s["oof"]:
            oof += 1
            stats["out-of-fragment:" + s["oof"]] = stats.get("out-of-fragment:" + s["oof"], 0) + 1
        if s["error"]:
            findings.append(("slicer-raised:" + s["error"], f"DynamicSlicer.slice raised {s['error']}",
                             {"criterion": [s["kind"], s["idx"], s["pos"]]}))
            continue
        # (2) slice ⊆ executed instructions ∪ {criterion}
        crit_uid = s["crit"]["uid"]
        notex = []
        for x in s["slice"]:
            if x["file_is_test"] or x["uid"] == crit_uid or x["file"] != path:
                continue
            if (x["co"][0], x["co"][1], x["name"], x["line"]) not in gt_instrs:
                notex.append([x["co"][0], x["name"], x["line"]])
        if notex:
            findings.append(("slice-instruction-not-executed",
                             f"slice holds instructions that were never executed: {notex[:4]}",
                             {"criterion": [s["kind"], s["idx"], s["pos"]], "instructions": notex}))
        # lines of the slice must have been executed too (what map_instructions_to_lines reports)
        if isinstance(s["lines"], list):
            badl = sorted(meta[i][1] for i in s["lines"] if meta[i][0] == path and meta[i][1] not in gt_lines)
            if badl:
                findings.append(("checked-line-not-executed",
                                 f"lines {badl} of a slice were never executed", {"lines": badl}))
        # (3) dependence closure against the shadow interpreter
        k = None
        if s["kind"] == "stmt":
            k = rec["roles"].get(s["idx"])
        elif s["kind"] in ("assert", "store"):
            k = s["idx"]
        if k is not None and 0 <= k < 3 and "loops" not in case["features"]:
            # (programs with loops are outside the property's quantifier for dependence closure; they
            # still take part in K2 and in the executed-ness checks)
            want = sh["deps"][k]
            have = {x["line"] for x in s["slice"] if x["file"] == path}
            stats["dep-checks"] = stats.get("dep-checks", 0) + 1
            stats["dep-lines"] = stats.get("dep-lines", 0) + len(want)
            missing = want - have
            if missing:
                for kind, lns in classify(case, lm, k, missing, want).items():
                    findings.append((f"missing-dependence:{kind}",
                                     f"the value of {('f(...)', 'g(...)', 'box_0.get()')[k]} depends on lines {lns} "
                                     f"({kind}) which are not in the slice of criterion {s['kind']}#{s['idx']}",
                                     {"criterion": [s["kind"], s["idx"], s["pos"]], "missing": lns,
                                      "dependences": sorted(want), "slice_lines": sorted(have)}))
    # (4) compute_statement_checked_lines over the whole test: a line that a statement's value depends on and
    # that IS in that statement's slice must be among the checked lines of the test (a None-valued statement
    # depends on nothing, so its own return-None cleansing never removes a dependence)
    if "loops" not in case["features"]:
        checked = {meta[i][1] for i in rec["checked_lines"] if meta[i][0] == path}
        for s in rec["slices"]:
            if s["kind"] != "stmt" or "slice" not in s or s["error"]:
                continue
            k = rec["roles"].get(s["idx"])
            if k is None or (k == 1 and case.get("g_none")):
                continue
            have = {x["line"] for x in s["slice"] if x["file"] == path}
            lost = sorted((sh["deps"][k] & have) - checked)
            if lost:
                findings.append(("checked-lines-drop-dependence",
                                 f"lines {lost} are in the slice of statement #{s['idx']} and its value depends on "
                                 f"them, but they are missing from the checked lines of the test",
                                 {"lines": lost, "checked": sorted(checked)}))
    coq = None
    if oof == 0 and all("slice" in s for s in rec["slices"]):
        coq = c_case(rec)
    else:
        stats["k2-skipped"] = 1
    sample = {"source": src, "consts": case["consts"], "features": case["features"],
              "n_trace": rec["n_trace"], "checked_lines": sorted(meta[i][1] for i in rec["checked_lines"]),
              "executed_lines": rec["gt_lines"],
              "slice_sizes": [len(s.get("slice", [])) for s in rec["slices"]],
              "dependences": [sorted(d) for d in sh["deps"]]}
    return coq, findings, stats, sample


def _run_batch(args):
    batch, workdir = args
    os.makedirs(workdir, exist_ok=True)
    out = []
    for idx, case in batch:
        try:
            coq, findings, stats, sample = evaluate(case, workdir, f"c09m_{os.getpid()}_{idx}")
        except Exception as e:  # noqa: BLE001
            import traceback

            coq, findings, stats, sample = None, [("harness:crash:" + type(e).__name__, traceback.format_exc()[-1500:], {})], {}, None
        out.append((idx, coq, findings, stats, sample))
    return out


# ------------------------------------------------------------------------------------------------
def _blocks(case):
    """all statement lists of a case (for shrinking)"""
    res = []

    def walk(body):
        res.append(body)
        for s in body:
            if s[0] == "if":
                walk(s[2])
                walk(s[3])
            elif s[0] == "while":
                walk(s[3])
    for fn in case["funcs"]:
        walk(fn["body"])
    return res


def shrink(case, sig, workdir, budget=40):
    """delete statements while the same failure signature persists"""
    import copy

    def fails(c, n):
        try:
            _, findings, _, _ = evaluate(c, workdir, f"c09s_{os.getpid()}_{n}")
        except Exception:  # noqa: BLE001
            return False
        return any(f[0] == sig for f in findings)

    n = 0
    changed = True
    while changed and n < budget:
        changed = False
        nb = len(_blocks(case))
        for bi in range(nb):
            body = _blocks(case)[bi]
            for si in range(len(body) - 1, -1, -1):
                if body[si][0] == "return" and si == len(body) - 1 and bi in _top_indices(case):
                    continue
                cand = copy.deepcopy(case)
                del _blocks(cand)[bi][si]
                n += 1
                if n > budget:
                    return case
                if fails(cand, n):
                    case, changed = cand, True
                    break
            if changed:
                break
    return case


def _top_indices(case):
    idx, res = 0, set()

    def count(body):
        c = 1
        for s in body:
            if s[0] == "if":
                c += count(s[2]) + count(s[3])
            elif s[0] == "while":
                c += count(s[3])
        return c
    for fn in case["funcs"]:
        res.add(idx)
        idx += count(fn["body"])
    return res


def _tolist(x):
    if isinstance(x, (list, tuple)):
        return [_tolist(y) for y in x]
    if isinstance(x, dict):
        return {k: _tolist(v) for k, v in x.items()}
    return x


def run(ctx: vlib.Ctx):
    from props import _c09_core as core

    vlib.setup_impl_path()
    ctx.digest_sources(SRC)
    ctx.coq_static()
    if not ctx.quick:
        ctx.coqchk()
    n_cases = 110 if ctx.quick else 1200
    if os.environ.get("C09_CASES"):  # sensitivity self-test on a loaded machine only (see notes/C09.md)
        n_cases = int(os.environ["C09_CASES"])
    corpus = json.loads((vlib.VERIF / "corpus" / "C09.json").read_text())
    cases = [c["case"] for c in corpus]
    profiles = [None, None, None, {"branch"}, set(), {"globals"}, {"branch", "globals"},
                {"branch", "calls"}, {"attrs", "branch"}, {"lists", "branch"}, {"branch", "calls", "early", "andor"},
                {"branch", "loops"}, {"branch", "loops", "lists", "calls"},
                {"lists", "nested"}, {"lists", "nested", "calls"}, {"lists", "nested", "calls", "branch"},
                {"calls", "shadowing"}, {"calls", "shadowing", "branch"},
                {"condbound"}, {"condbound", "branch", "calls"}, {"condbound", "globals", "branch"},
                {"closures"}, {"closures", "branch", "calls"}]
    for _ in range(n_cases):
        cases.append(_tolist(core.gen_case(ctx.rng, ctx.rng.choice(profiles))))
    scratch = ctx.mkscratch()
    nproc = 8 if ctx.quick else 14
    batches = [[] for _ in range(nproc * 4)]
    for i, c in enumerate(cases):
        batches[i % len(batches)].append((i, c))
    results = {}
    mpctx = mp.get_context("spawn")
    with cf.ProcessPoolExecutor(max_workers=nproc, mp_context=mpctx, initializer=_worker_init,
                                initargs=(str(vlib.REPO),)) as ex:
        for out in ex.map(_run_batch, [(b, str(scratch / f"w{k}")) for k, b in enumerate(batches) if b]):
            for idx, coq, findings, stats, sample in out:
                results[idx] = (coq, findings, stats, sample)
    ctx.log(f"executed {len(results)} programs on the implementation")
    coq_cases, coq_idx = [], []
    seen_sig = {}
    n_fail = 0
    for idx in sorted(results):
        coq, findings, stats, sample = results[idx]
        case = cases[idx]
        for k, v in stats.items():
            ctx.count(k, v)
        for f in case["features"]:
            ctx.count("feature:" + f)
        ctx.case_seen(json.dumps(case, sort_keys=True), nontrivial=stats.get("slices", 0) > 0)
        if sample is not None and idx >= len(corpus):
            ctx.sample(sample, limit=3)
        if coq is not None:
            coq_cases.append(coq)
            coq_idx.append(idx)
        for sig, msg, detail in findings:
            n_fail += 1
            if sig not in seen_sig:
                seen_sig[sig] = (idx, msg, detail)
    # report each distinct failure once, shrunk
    for sig, (idx, msg, detail) in seen_sig.items():
        case = cases[idx]
        if not sig.startswith("harness:"):
            _worker_init(str(vlib.REPO))
            try:
                case = shrink(case, sig, str(scratch / "shrink"))
            except Exception:  # noqa: BLE001
                pass
        src, _ = core.render(case)
        try:  # message/detail of the shrunk program
            _, f2, _, _ = evaluate(case, str(scratch / "shrink"), "c09final")
            for s2, m2, d2 in f2:
                if s2 == sig:
                    msg, detail = m2, d2
                    break
        except Exception:  # noqa: BLE001
            pass
        ctx.fail(sig, msg, {"case": case, "source": src, "detail": detail,
                            "test": "int_0=c0; int_1=c1; [int_2=c2; box_0=Box(int_2)]; var_0=f(int_0,int_1[,box_0]); var_1=g(int_1,int_0[,box_0]); "
                                    "[int_2; box_0]; none_0=box_0.set(int_0); var_2=box_0.get(); none_1=box_0.set(int_1)"})
    ctx.log(f"oracle done, {n_fail} failures, signatures {sorted(seen_sig)}")
    ctx.leg("S", oracle_failures=n_fail, programs=len(results), distinct_signatures=sorted(seen_sig))
    ctx.cov["rule"] = ("generated modules (globals, class Box, helpers, entries f/g) over locals, globals, "
                       "attributes, lists, calls, branches, and/or, early returns, loops, plus the corpus; each "
                       "is executed through the real executor with both slicing observers; a case is non-trivial "
                       "when at least one criterion was sliced; distinct = distinct program+inputs")
    # K2
    bad = ctx.run_cases("C09_cases", IMPORTS, "case", "check_case", coq_cases, shard=max(1, len(coq_cases) // 16 + 1))
    if bad is None:
        pass
    elif bad:
        ctx.leg("K2", ok=False, mismatches=len(bad), cases=len(coq_cases))
        idx = coq_idx[bad[0]]
        src, _ = core.render(cases[idx])
        ctx.broken("correspondence:C09-model-vs-DynamicSlicer",
                   "the Coq model of DynamicSlicer.slice / checked-line mapping no longer reproduces the implementation",
                   {"source": src, "consts": cases[idx]["consts"], "case": cases[idx], "mismatching_cases": len(bad)})
    else:
        ctx.leg("K2", ok=True, cases=len(coq_cases))
    ctx.assumptions += [
        "the slicer model consumes the instruction states produced by the real ExecutionFlowBuilder (its "
        "reconstruction of untraced instructions is outside the model; it is checked per run against "
        "sys.monitoring INSTRUCTION events of the un-instrumented twin by the direct oracle)",
        "names, addresses and files are interned to integers; the hex-prefix test on attribute uses is modelled "
        "as equality of source addresses",
        "imports, closure variables and generators are outside the modelled fragment (such traces are counted "
        "and skipped by K2, the direct oracle still runs on them)",
        "dependence closure is proved for the straight-line fragment (slice_closed_partial); for branching, "
        "attributes, containers and calls it is sampled by the shadow dependence interpreter",
    ]
    ctx.cov["trusted_base"] += [
        "hand-written model Models/C09.v tied by re-slicing real traces inside Coq (this run)",
        "harness/props/_c09_core.py (generator, shadow dependence interpreter, abstraction of instruction states, "
        "CDG table extraction through the real CDG/CFG objects)",
        "CPython sys.monitoring as ground truth for executed lines/instructions",
    ]


def replay(ctx, path):
    from props import _c09_core as core

    vlib.setup_impl_path()
    d = json.loads(open(path).read())
    rp = d.get("replay") or d["no_longer_checks"][0]["detail"]
    case = rp["case"]
    src, lm = core.render(case)
    print(src)
    wd = ctx.mkscratch()
    coq, findings, stats, sample = evaluate(case, str(wd), "c09replay")
    print("shadow dependences:", sample and sample["dependences"])
    print("oracle findings:", [(f[0], f[1]) for f in findings])
    if coq is not None:
        print("model agrees:", ctx.coq_eval(IMPORTS, "check_case " + coq))
    shutil.rmtree(wd, ignore_errors=True)
    return 0
