"""Shared helpers for C11 and C35: registries (real SubjectProperties filled with stub metadata),
execution-trace specs <-> real ExecutionTrace objects, Coq printers for Models/C10.v terms, and a
Python replica of the model's `valid` (compared with the model on every case)."""
from __future__ import annotations

import math
from fractions import Fraction

from vlib import cZ, cbool, clist, cpair

INF = float("inf")
# distances: mostly "ordinary" floats; boundary floats (C10 "Floats": denormal min, tiny, huge, max) are
# drawn rarely because their exact rationals have 1000-bit denominators (slow inside Coq)
DIST_POOL = [0.25, 0.5, 1.0, 1.0000000000000002, 1.5, 2.0, 3.0, 7.0, 100.0, 2664.0, 1e15, 9007199254740993.0, INF]
DIST_EXTREME = [5e-324, 1e-300, 2.2250738585072014e-308, 1e-9, 1e308, 1.7976931348623157e308]


# ------------------------------------------------------------------------------------------------
# floats <-> JSON
def f2j(x):
    if isinstance(x, int) and not isinstance(x, bool):
        return {"int": x}
    if math.isnan(x):
        return "nan"
    if math.isinf(x):
        return "inf" if x > 0 else "-inf"
    return float(x).hex()


def j2f(j):
    if isinstance(j, dict):
        return int(j["int"])
    if j == "nan":
        return float("nan")
    if j == "inf":
        return INF
    if j == "-inf":
        return -INF
    return float.fromhex(j)


def spec_to_json(s):
    return {"code": s["code"], "pred": [list(p) for p in s["pred"]],
            "td": [[k, f2j(v)] for k, v in s["td"]], "fd": [[k, f2j(v)] for k, v in s["fd"]],
            "cov": s["cov"], "chk": s["chk"], "instr": list(s.get("instr", [])),
            "asserts": [list(a) for a in s.get("asserts", [])]}


def spec_from_json(j):
    return {"code": list(j["code"]), "pred": [tuple(p) for p in j["pred"]],
            "td": [(k, j2f(v)) for k, v in j["td"]], "fd": [(k, j2f(v)) for k, v in j["fd"]],
            "cov": list(j["cov"]), "chk": list(j["chk"]), "instr": list(j.get("instr", [])),
            "asserts": [tuple(a) for a in j.get("asserts", [])]}


# ------------------------------------------------------------------------------------------------
# registry: {"codes": [ids], "preds": [(pid, line_no, code_id)], "lines": [(lid, lineno)],
#            "firstlines": {code_id: lineno}}
class _Code:
    def __init__(self, firstlineno):
        self.co_firstlineno = firstlineno
        self.co_name = "f"


class _CodeMeta:
    """Stands in for CodeObjectMetaData: only `.code_object.co_firstlineno` is read by the report."""

    def __init__(self, firstlineno):
        self.code_object = _Code(firstlineno)


def make_subject_properties(reg, file_name="mod.py"):
    from pynguin.instrumentation.tracer import LineMetaData, PredicateMetaData, SubjectProperties

    sp = SubjectProperties()
    for c in reg["codes"]:
        sp.existing_code_objects[c] = _CodeMeta(reg.get("firstlines", {}).get(c, 1))
    for pid, line_no, code_id in reg["preds"]:
        sp.existing_predicates[pid] = PredicateMetaData(line_no=line_no, code_object_id=code_id, node=None)
    for lid, lineno in reg["lines"]:
        sp.existing_lines[lid] = LineMetaData(code_object_id=0, file_name=file_name, line_number=lineno)
    return sp


def registry_of(sp):
    """Model registry (lists in the implementation's iteration order)."""
    return {"codes": list(sp.existing_code_objects), "branchless": list(sp.branch_less_code_objects),
            "predicates": list(sp.existing_predicates), "lines": list(sp.existing_lines)}


def gen_registry(rng, small=False):
    n_code = rng.choice([0, 1, 2, 3, 5] if small else [1, 2, 3, 5, 8])
    n_pred = rng.choice([0, 1, 2, 3] if small else [0, 1, 2, 4, 6, 9])
    n_line = rng.choice([0, 1, 3, 5] if small else [0, 2, 5, 9, 14])
    codes = list(range(n_code))
    rng.shuffle(codes)
    owners = [c for c in codes if rng.random() < 0.6] or codes[:1]
    preds = []
    if owners:
        for p in range(n_pred):
            preds.append((p, rng.randrange(1, 30), rng.choice(owners)))
    lines = [(l, l + 1) for l in range(n_line)]
    return {"codes": codes, "preds": preds, "lines": lines, "firstlines": {c: rng.randrange(1, 30) for c in codes}}


# ------------------------------------------------------------------------------------------------
# traces
class StubAssertion:
    """Stands in for pynguin.assertion.assertion.Assertion inside an ExecutedAssertion."""

    def __init__(self, aid):
        self.aid = aid
        self.checked_instructions = []

    def __repr__(self):
        return f"StubAssertion({self.aid})"

    def __eq__(self, other):   # two builds of the same spec are equal traces (dataclass equality)
        return isinstance(other, StubAssertion) and other.aid == self.aid

    def __hash__(self):
        return hash(self.aid)


def build_trace(spec):
    """A fresh real ExecutionTrace holding exactly the spec (insertion orders preserved).
    Instruction tags become real ExecutedInstruction objects (tag stored in instr_original_index),
    (position, id) pairs become real ExecutedAssertion objects."""
    import pynguin.slicer.executedinstruction as ei
    from pynguin.instrumentation.tracer import ExecutedAssertion, ExecutionTrace

    t = ExecutionTrace()
    t.executed_code_objects.update(spec["code"])
    for k, c in spec["pred"]:
        t.executed_predicates[k] = c
    for k, v in spec["td"]:
        t.true_distances[k] = v
    for k, v in spec["fd"]:
        t.false_distances[k] = v
    t.covered_line_ids.update(spec["cov"])
    t.checked_lines.update(spec["chk"])
    for tag in spec.get("instr", []):
        t.executed_instructions.append(ei.ExecutedInstruction("stub.py", 0, 0, 9, None, 1, tag))
    for pos, aid in spec.get("asserts", []):
        t.executed_assertions.append(ExecutedAssertion(pos, StubAssertion(aid)))
    return t


def project(t, tagger=None, aider=None):
    """Plain data of a trace, INCLUDING the instruction tags and the assertion positions."""
    tagger = tagger or (lambda i: i.instr_original_index)
    aider = aider or (lambda a: getattr(a, "aid", 0))
    return {"code": list(t.executed_code_objects), "pred": list(t.executed_predicates.items()),
            "td": list(t.true_distances.items()), "fd": list(t.false_distances.items()),
            "cov": list(t.covered_line_ids), "chk": list(t.checked_lines),
            "instr": [tagger(i) for i in t.executed_instructions],
            "asserts": [(a.trace_position, aider(a.assertion)) for a in t.executed_assertions]}


def canon(spec):
    """Order-insensitive, NaN-safe canonical form of a projection (for the direct oracle)."""
    def fl(v):
        return "nan" if isinstance(v, float) and math.isnan(v) else (0.0 if v == 0 else v)
    return {"code": sorted(spec["code"]), "pred": sorted(spec["pred"]),
            "td": sorted((k, fl(v)) for k, v in spec["td"]), "fd": sorted((k, fl(v)) for k, v in spec["fd"]),
            "cov": sorted(spec["cov"]), "chk": sorted(spec["chk"])}


def gen_valid_trace(rng, reg_ids, extra_codes=()):
    """A trace as the tracer produces it: built through the real update_predicate_distances with one
    zero distance per execution (C04), registered ids only."""
    from pynguin.instrumentation.tracer import ExecutionTrace

    t = ExecutionTrace()
    codes = list(reg_ids["codes"]) + list(extra_codes)
    rng.shuffle(codes)
    t.executed_code_objects.update(c for c in codes if rng.random() < 0.5)
    preds = list(reg_ids["predicates"])
    rng.shuffle(preds)
    for p in preds:
        if rng.random() < 0.55:
            for _ in range(rng.choice([1, 1, 1, 2, 2, 3, 5])):
                c = rng.random()
                d = (rng.choice(DIST_POOL) if c < 0.6 else rng.choice(DIST_EXTREME) if c < 0.63
                     else rng.uniform(1e-3, 10.0) ** rng.choice([1, 3, -2]))
                if d == 0.0:
                    d = 1.0
                if rng.random() < 0.5:
                    t.update_predicate_distances(0.0, d, p)
                else:
                    t.update_predicate_distances(d, 0.0, p)
    lines = list(reg_ids["lines"])
    rng.shuffle(lines)
    t.covered_line_ids.update(l for l in lines if rng.random() < 0.45)
    t.checked_lines.update(l for l in lines if rng.random() < 0.25)
    spec = project(t)
    spec["instr"], spec["asserts"] = gen_instr_part(rng)
    return spec


def gen_instr_part(rng, malformed=False):
    """Instruction tags (unique) and executed assertions (position inside the list, unique id)."""
    n = rng.choice([0, 0, 1, 3, 6, 12])
    instr = [rng.randrange(10**6) for _ in range(n)]
    k = rng.choice([0, 1, 1, 2, 3]) if (n or malformed) else 0
    if malformed:
        pos = sorted(rng.randrange(-2, n + 3) for _ in range(k))
    else:
        pos = sorted(rng.randrange(n) for _ in range(k))
    return instr, [(p, rng.randrange(10**6)) for p in pos]


def gen_malformed_trace(rng, reg_ids):
    """Anything a dict/OrderedSet can hold: unregistered ids, key sets that differ, counts <= 0,
    negative distances, int distances (no NaN: the model has none)."""
    ids = list(range(-1, 8))
    def dd():
        return [(k, rng.choice([0.0, -0.0, -1.0, -0.5, 0.5, 1.0, 2.0, INF, 3, 0, -2.5, 1e308]))
                for k in rng.sample(ids, rng.randrange(0, 5))]
    return {"code": rng.sample(ids, rng.randrange(0, 4)),
            "pred": [(k, rng.choice([-1, 0, 1, 2, 3])) for k in rng.sample(ids, rng.randrange(0, 5))],
            "td": dd(), "fd": dd(),
            "cov": rng.sample(ids, rng.randrange(0, 4)), "chk": rng.sample(ids, rng.randrange(0, 3)),
            **dict(zip(("instr", "asserts"), gen_instr_part(rng, malformed=True)))}


def py_valid(spec, reg_ids):
    """Python replica of C10.valid (checked against the model inside Coq on every case)."""
    def nodup(l):
        return len(set(l)) == len(l)
    kp = [k for k, _ in spec["pred"]]
    return (nodup(spec["code"]) and nodup(spec["cov"]) and nodup(spec["chk"])
            and set(spec["cov"]) <= set(reg_ids["lines"]) and set(spec["chk"]) <= set(reg_ids["lines"])
            and nodup(kp) and set(kp) <= set(reg_ids["predicates"])
            and [k for k, _ in spec["td"]] == kp and [k for k, _ in spec["fd"]] == kp
            and all(c >= 1 for _, c in spec["pred"])
            and all(v >= 0 for _, v in spec["td"]) and all(v >= 0 for _, v in spec["fd"]))


# ------------------------------------------------------------------------------------------------
# Coq printers (Models/C10.v).  Case files open Z_scope and use constructor application and plain
# numerals: record notation and %Z delimiters make elaboration of the case list ~20x slower.
def zlit(n) -> str:
    n = int(n)
    return str(n) if n >= 0 else f"({n})"


def cQ(x) -> str:
    fr = Fraction(x)
    return f"(Qmake {zlit(fr.numerator)} {fr.denominator}%positive)"


def cdist(x) -> str:
    if isinstance(x, float) and math.isinf(x) and x > 0:
        return "C10.Inf"
    assert not (isinstance(x, float) and (math.isnan(x) or math.isinf(x))), x
    return f"(C10.Fin {cQ(x)})"


def czlist(xs) -> str:
    return clist(zlit(x) for x in xs)


def ctrace(spec) -> str:
    return "(C10.Build_trace %s %s %s %s %s %s)" % (
        czlist(spec["code"]), clist(cpair(zlit(k), zlit(c)) for k, c in spec["pred"]),
        clist(cpair(zlit(k), cdist(v)) for k, v in spec["td"]),
        clist(cpair(zlit(k), cdist(v)) for k, v in spec["fd"]),
        czlist(spec["cov"]), czlist(spec["chk"]))


def citrace(spec) -> str:
    return "(C11.Build_itrace %s %s)" % (
        czlist(spec.get("instr", [])), clist(f"({zlit(p)}, {zlit(a)})" for p, a in spec.get("asserts", [])))


def cregistry(reg_ids) -> str:
    return "(C10.Build_registry %s %s %s)" % (
        czlist(reg_ids["branchless"]), czlist(reg_ids["predicates"]), czlist(reg_ids["lines"]))


def run_forked(fn, job, timeout=240):
    """Run fn(job) in a forked child (own pynguin configuration / import hooks); returns its picklable
    result or {"error": ...}."""
    import multiprocessing as mp
    import os
    import traceback

    ctx = mp.get_context("fork")
    parent, child = ctx.Pipe(duplex=False)

    def target():
        try:
            child.send(fn(job))
        except BaseException as e:  # noqa: BLE001
            try:
                child.send({"error": f"{type(e).__name__}: {e}", "traceback": traceback.format_exc()[-2000:]})
            except Exception:  # noqa: BLE001
                pass
        finally:
            child.close()
            os._exit(0)

    p = ctx.Process(target=target)
    p.start()
    child.close()
    res = {"error": "no result"}
    try:
        res = parent.recv() if parent.poll(timeout) else {"error": "timeout"}
    except EOFError:
        res = {"error": "child died"}
    finally:
        if p.is_alive():
            p.kill()
        p.join()
    return res


def has_nan(spec):
    return any(isinstance(v, float) and math.isnan(v) for _, v in spec["td"] + spec["fd"])


__all__ = [n for n in dir() if not n.startswith("__")] + ["cbool"]
