"""py2v — a small, fail-closed translator from a first-order fragment of Python (via `ast`) to Gallina.

It is driven by a *vocabulary*: kinds of the parameters of each function, and, per kind, the attributes
that may be read.  Anything outside the fragment raises `Untranslatable` (the caller reports the tie
as broken; it never guesses).

Kinds:  Z, Q, bool, dist (Q ∪ {∞}, Python float holding a distance), idset (list Z),
        ddist (dict id -> dist), dcount (dict id -> Z), trace, registry.

Statement fragment (function bodies):
    docstring; x = e; x: T = e; x += e
    NAME = set() if NAME is None else NAME              (None-default normalisation: identity)
    assert c[, msg]                                     (recorded, not translated)
    if c: raise ...                                     (recorded as precondition `not c`)
    if math.isinf(v): return e                          (case split on a dist: Inf -> e | Fin v -> rest)
    if c: return e        /  return e
    if c: <assigns> else: <assigns>                     (same variables on both sides)
    for x in XS: (if c: acc += e | acc += e)+           (fold)
    for x in XS: (if c: return <const>)+                (search loop)
Expressions: names, numbers, True/False, + - * /, comparisons, and/or/not, x if c else y,
    len(..), sum(k for _ in XS [if c]), any(c for x in XS), [v for v in D.values() if c] under len,
    A.intersection(B), x in S / x not in S, (k, 0.0) in D.items(), (k, v) in D (a tuple is never a key
    of an id-keyed dict), D[k], D.get(k, inf), normalise(e), calls of other translated functions.
"""
from __future__ import annotations

import ast
from dataclasses import dataclass, field


class Untranslatable(Exception):
    pass


ATTRS = {
    "trace": {
        "executed_code_objects": ("exec_code", "idset"),
        "executed_predicates": ("exec_pred", "dcount"),
        "true_distances": ("true_d", "ddist"),
        "false_distances": ("false_d", "ddist"),
        "covered_line_ids": ("cov_lines", "idset"),
        "checked_lines": ("chk_lines", "idset"),
    },
    "registry": {
        "branch_less_code_objects": ("branchless", "idset"),
        "existing_predicates": ("predicates", "idset"),
        "existing_lines": ("lines", "idset"),
    },
}
COQ_TYPE = {"Z": "Z", "Q": "Q", "bool": "bool", "dist": "dist", "idset": "list Z", "ddist": "dict dist",
            "dcount": "dict Z", "trace": "trace", "registry": "registry"}


@dataclass
class Fn:
    name: str
    params: list[tuple[str, str]]
    ret: str
    body: str = ""
    preconditions: list[str] = field(default_factory=list)
    assertions: list[str] = field(default_factory=list)


class Translator:
    def __init__(self, signatures: dict[str, tuple[list[tuple[str, str]], str]]):
        self.sigs = signatures
        self.fns: dict[str, Fn] = {}

    # ---- expressions -------------------------------------------------------------------------
    def num(self, txt, kind, want):
        if kind == want:
            return txt
        if kind == "Z" and want == "Q":
            return f"(inject_Z {txt})"
        raise Untranslatable(f"cannot use {kind} as {want}: {txt}")

    def expr(self, e, env, want=None):
        t, k = self._expr(e, env)
        if want and k != want:
            t = self.num(t, k, want)
            k = want
        return t, k

    def _expr(self, e, env):
        if isinstance(e, ast.Constant):
            if e.value is True:
                return "true", "bool"
            if e.value is False:
                return "false", "bool"
            if isinstance(e.value, int):
                return f"({e.value})%Z", "Z"
            if isinstance(e.value, float) and e.value == int(e.value):
                return f"({int(e.value)})%Q", "Q"
            raise Untranslatable(f"constant {e.value!r}")
        if isinstance(e, ast.Name):
            if e.id in env:
                return env[e.id]
            raise Untranslatable(f"unknown name {e.id}")
        if isinstance(e, ast.Attribute) and isinstance(e.value, ast.Name) and e.value.id in env:
            obj, kind = env[e.value.id]
            if kind in ATTRS and e.attr in ATTRS[kind]:
                proj, k = ATTRS[kind][e.attr]
                return f"({proj} {obj})", k
            raise Untranslatable(f"attribute {kind}.{e.attr}")
        if isinstance(e, ast.BinOp):
            a, ka = self._expr(e.left, env)
            b, kb = self._expr(e.right, env)
            if isinstance(e.op, ast.Div):
                if {ka, kb} <= {"Z", "Q"}:
                    return f"({self.num(a, ka, 'Q')} / {self.num(b, kb, 'Q')})%Q", "Q"
                raise Untranslatable("division on " + ka + "," + kb)
            op = {ast.Add: "+", ast.Sub: "-", ast.Mult: "*"}.get(type(e.op))
            if op is None:
                raise Untranslatable(f"operator {ast.dump(e.op)}")
            if ka == kb == "Z":
                return f"({a} {op} {b})%Z", "Z"
            if {ka, kb} <= {"Z", "Q"}:
                return f"({self.num(a, ka, 'Q')} {op} {self.num(b, kb, 'Q')})%Q", "Q"
            raise Untranslatable(f"arithmetic on {ka},{kb}")
        if isinstance(e, ast.BoolOp):
            op = "&&" if isinstance(e.op, ast.And) else "||"
            parts = [self.expr(v, env, "bool")[0] for v in e.values]
            return "(" + f" {op} ".join(parts) + ")", "bool"
        if isinstance(e, ast.UnaryOp) and isinstance(e.op, ast.Not):
            return f"(negb {self.expr(e.operand, env, 'bool')[0]})", "bool"
        if isinstance(e, ast.IfExp):
            c = self.expr(e.test, env, "bool")[0]
            a, ka = self._expr(e.body, env)
            b, kb = self._expr(e.orelse, env)
            k = ka if ka == kb else "Q"
            return f"(if {c} then {self.num(a, ka, k)} else {self.num(b, kb, k)})", k
        if isinstance(e, ast.Compare) and len(e.ops) == 1:
            return self.compare(e.left, e.ops[0], e.comparators[0], env)
        if isinstance(e, ast.Compare) and len(e.ops) == 2:  # a <= b <= c
            l = self.compare(e.left, e.ops[0], e.comparators[0], env)[0]
            r = self.compare(e.comparators[0], e.ops[1], e.comparators[1], env)[0]
            return f"({l} && {r})", "bool"
        if isinstance(e, ast.Subscript):
            d, kd = self._expr(e.value, env)
            k = self.expr(e.slice, env, "Z")[0]
            if kd == "ddist":
                return f"(dget_inf {d} {k})", "dist"      # KeyError totalised to inf (see DESIGN C10)
            if kd == "dcount":
                return f"(dsub_z {d} {k})", "Z"
            raise Untranslatable("subscript on " + kd)
        if isinstance(e, ast.Call):
            return self.call(e, env)
        raise Untranslatable(ast.dump(e)[:120])

    def compare(self, left, op, right, env):
        if isinstance(op, (ast.In, ast.NotIn)):
            neg = isinstance(op, ast.NotIn)
            res = self.membership(left, right, env)
            return (f"(negb {res})" if neg else res), "bool"
        a, ka = self._expr(left, env)
        b, kb = self._expr(right, env)
        if ka == "dist" or kb == "dist":
            # only comparisons with the constant 0.0 are in the fragment
            other, ko, d = (b, kb, a) if ka == "dist" else (a, ka, b)
            if ko == "Q" and other == "(0)%Q" and isinstance(op, ast.Eq):
                return f"(dist_is_zero {d})", "bool"
            raise Untranslatable("comparison on a distance other than == 0.0")
        sym = {ast.Eq: "=?", ast.Lt: "<?", ast.LtE: "<=?", ast.Gt: ">?", ast.GtE: ">=?", ast.NotEq: "<>"}.get(type(op))
        if sym is None or sym == "<>":
            raise Untranslatable("comparison operator")
        if ka == kb == "Z":
            if sym in (">?", ">=?"):
                return f"({b} {'<?' if sym == '>?' else '<=?'} {a})%Z", "bool"
            return f"({a} {sym} {b})%Z", "bool"
        if {ka, kb} <= {"Z", "Q"}:
            a, b = self.num(a, ka, "Q"), self.num(b, kb, "Q")
            f = {"=?": f"Qeq_bool {a} {b}", "<=?": f"Qle_bool {a} {b}", ">=?": f"Qle_bool {b} {a}",
                 "<?": f"negb (Qle_bool {b} {a})", ">?": f"negb (Qle_bool {a} {b})"}[sym]
            return f"({f})", "bool"
        raise Untranslatable(f"comparison on {ka},{kb}")

    def membership(self, left, right, env):
        # (k, 0.0) in D.items()
        if (isinstance(right, ast.Call) and isinstance(right.func, ast.Attribute) and right.func.attr == "items"
                and not right.args and isinstance(left, ast.Tuple) and len(left.elts) == 2):
            d, kd = self._expr(right.func.value, env)
            k = self.expr(left.elts[0], env, "Z")[0]
            v, kv = self._expr(left.elts[1], env)
            if kd == "ddist" and v == "(0)%Q":
                return f"(has_zero {d} {k})"
            raise Untranslatable("items() membership")
        c, kc = self._expr(right, env)
        if isinstance(left, ast.Tuple):
            if kc in ("ddist", "dcount", "idset"):
                return "false"          # a tuple is never equal to an integer id
            raise Untranslatable("tuple membership")
        x = self.expr(left, env, "Z")[0]
        if kc == "idset":
            return f"(memZ {x} {c})"
        if kc in ("ddist", "dcount"):
            return f"(dmem {c} {x})"
        raise Untranslatable("membership in " + kc)

    def comprehension(self, gen, env):
        """for x in XS [if c]*  ->  (var, coq list, element kind, [conditions], env')"""
        if gen.is_async or not isinstance(gen.target, ast.Name):
            raise Untranslatable("comprehension target")
        it = gen.iter
        if isinstance(it, ast.Call) and isinstance(it.func, ast.Attribute) and it.func.attr == "values" and not it.args:
            d, kd = self._expr(it.func.value, env)
            if kd != "ddist":
                raise Untranslatable("values() of " + kd)
            xs, ek = f"(values {d})", "dist"
        else:
            xs, kx = self._expr(it, env)
            if kx != "idset":
                raise Untranslatable("iteration over " + kx)
            ek = "Z"
        v = "v_" + gen.target.id.strip("_") if gen.target.id != "_" else "v_x_"
        env2 = dict(env)
        env2[gen.target.id] = (v, ek)
        conds = [self.expr(c, env2, "bool")[0] for c in gen.ifs]
        return v, xs, ek, conds, env2

    def call(self, e, env):
        f = e.func
        if isinstance(f, ast.Name) and f.id == "len" and len(e.args) == 1:
            a = e.args[0]
            if isinstance(a, ast.ListComp) and len(a.generators) == 1 and isinstance(a.elt, ast.Name):
                v, xs, ek, conds, _ = self.comprehension(a.generators[0], env)
                cond = " && ".join(conds) if conds else "true"
                return f"(count_if (fun {v} => {cond}) {xs})", "Z"
            x, kx = self._expr(a, env)
            if kx in ("idset", "ddist", "dcount"):
                return f"(Z.of_nat (length {x}))", "Z"
            raise Untranslatable("len of " + kx)
        if isinstance(f, ast.Name) and f.id == "sum" and len(e.args) == 1 and isinstance(e.args[0], ast.GeneratorExp):
            g = e.args[0]
            if len(g.generators) != 1:
                raise Untranslatable("nested generator")
            v, xs, ek, conds, env2 = self.comprehension(g.generators[0], env)
            elt, kelt = self._expr(g.elt, env2)
            if elt not in ("(1)%Q", "(1)%Z"):
                raise Untranslatable("sum of non-constant")
            cond = " && ".join(conds) if conds else "true"
            cnt = f"(count_if (fun {v} => {cond}) {xs})"
            return (f"(inject_Z {cnt})", "Q") if kelt == "Q" else (cnt, "Z")
        if isinstance(f, ast.Name) and f.id == "any" and len(e.args) == 1 and isinstance(e.args[0], ast.GeneratorExp):
            g = e.args[0]
            v, xs, ek, conds, env2 = self.comprehension(g.generators[0], env)
            if conds:
                raise Untranslatable("any with filter")
            body = self.expr(g.elt, env2, "bool")[0]
            return f"(existsb (fun {v} => {body}) {xs})", "bool"
        if isinstance(f, ast.Attribute) and f.attr == "intersection" and len(e.args) == 1:
            a, ka = self._expr(f.value, env)
            b, kb = self._expr(e.args[0], env)
            if ka == kb == "idset":
                return f"(filter (fun c_ => memZ c_ {b}) {a})", "idset"
            raise Untranslatable("intersection")
        if isinstance(f, ast.Attribute) and f.attr == "get" and len(e.args) == 2:
            d, kd = self._expr(f.value, env)
            if kd == "ddist" and isinstance(e.args[1], ast.Name) and e.args[1].id == "inf":
                return f"(dget_inf {d} {self.expr(e.args[0], env, 'Z')[0]})", "dist"
            raise Untranslatable("dict.get")
        if isinstance(f, ast.Name) and f.id in self.sigs:
            params, ret = self.sigs[f.id]
            if len(e.args) != len(params) or e.keywords:
                raise Untranslatable(f"call of {f.id} with different arity")
            args = [self.expr(a, env, k)[0] for a, (_, k) in zip(e.args, params)]
            return f"(f_{f.id.lstrip('_')} {' '.join(args)})", ret
        raise Untranslatable("call " + ast.dump(f)[:80])

    # ---- statements ---------------------------------------------------------------------------
    def block(self, stmts, env, fn: Fn):
        """Translate a statement list that must end by returning; gives a Coq term of kind fn.ret."""
        if not stmts:
            raise Untranslatable(f"{fn.name}: control reaches the end of the function")
        s, rest = stmts[0], stmts[1:]
        if isinstance(s, ast.Expr) and isinstance(s.value, ast.Constant) and isinstance(s.value.value, str):
            return self.block(rest, env, fn)
        if isinstance(s, ast.Assert):
            fn.assertions.append(ast.unparse(s.test))
            return self.block(rest, env, fn)
        if isinstance(s, ast.Return):
            if s.value is None:
                raise Untranslatable("bare return")
            return self.expr(s.value, env, fn.ret)[0]
        if isinstance(s, (ast.Assign, ast.AnnAssign)):
            tgt = s.targets[0] if isinstance(s, ast.Assign) else s.target
            if (isinstance(s, ast.Assign) and len(s.targets) != 1) or not isinstance(tgt, ast.Name) or s.value is None:
                raise Untranslatable("assignment form")
            v = s.value
            # NAME = set() if NAME is None else NAME
            if (isinstance(v, ast.IfExp) and isinstance(v.test, ast.Compare) and isinstance(v.test.ops[0], ast.Is)
                    and isinstance(v.test.left, ast.Name) and v.test.left.id == tgt.id
                    and isinstance(v.orelse, ast.Name) and v.orelse.id == tgt.id
                    and isinstance(v.body, ast.Call) and isinstance(v.body.func, ast.Name) and v.body.func.id == "set"
                    and not v.body.args and env.get(tgt.id, (None, None))[1] == "idset"):
                return self.block(rest, env, fn)
            t, k = self._expr(v, env)
            if isinstance(s, ast.AnnAssign) and ast.unparse(s.annotation) == "float" and k == "Z":
                t, k = self.num(t, k, "Q"), "Q"
            env2 = dict(env)
            env2[tgt.id] = ("v_" + tgt.id, k)
            return f"(let v_{tgt.id} := {t} in\n   {self.block(rest, env2, fn)})"
        if isinstance(s, ast.AugAssign) and isinstance(s.target, ast.Name) and isinstance(s.op, ast.Add):
            cur, kc = env[s.target.id]
            t = self.expr(s.value, env, kc)[0]
            sc = "%Q" if kc == "Q" else "%Z"
            env2 = dict(env)
            env2[s.target.id] = ("v_" + s.target.id, kc)
            return f"(let v_{s.target.id} := ({cur} + {t}){sc} in\n   {self.block(rest, env2, fn)})"
        if isinstance(s, ast.If):
            return self.if_stmt(s, rest, env, fn)
        if isinstance(s, ast.For):
            return self.for_stmt(s, rest, env, fn)
        raise Untranslatable(f"{fn.name}: statement {type(s).__name__}")

    def if_stmt(self, s, rest, env, fn):
        body = [x for x in s.body if not (isinstance(x, ast.Expr) and isinstance(x.value, ast.Constant))]
        if not s.orelse and len(body) == 1 and isinstance(body[0], ast.Raise):
            fn.preconditions.append("not (" + ast.unparse(s.test) + ")")
            return self.block(rest, env, fn)
        # if math.isinf(v): return e   -> match on the distance
        t = s.test
        if (not s.orelse and len(body) == 1 and isinstance(body[0], ast.Return) and isinstance(t, ast.Call)
                and isinstance(t.func, ast.Attribute) and t.func.attr == "isinf" and len(t.args) == 1
                and isinstance(t.args[0], ast.Name) and env.get(t.args[0].id, (None, None))[1] == "dist"):
            v = t.args[0].id
            inf_branch = self.expr(body[0].value, env, fn.ret)[0]
            env2 = dict(env)
            env2[v] = ("v_" + v + "_q", "Q")
            return (f"(match {env[v][0]} with\n   | Inf => {inf_branch}\n   | Fin v_{v}_q => {self.block(rest, env2, fn)}\n   end)")
        c = self.expr(t, env, "bool")[0]
        if not s.orelse and len(body) == 1 and isinstance(body[0], ast.Return):
            return f"(if {c} then {self.expr(body[0].value, env, fn.ret)[0]}\n   else {self.block(rest, env, fn)})"
        if s.orelse and all(isinstance(x, (ast.Assign, ast.AnnAssign)) for x in body + s.orelse):
            def last_assigned(b):
                x = b[-1]
                return (x.targets[0] if isinstance(x, ast.Assign) else x.target).id

            v = last_assigned(body)
            if v != last_assigned(s.orelse):
                raise Untranslatable("if/else assigning different variables")
            sub = Fn(fn.name, fn.params, "?", preconditions=fn.preconditions, assertions=fn.assertions)
            a, ka = self.assign_block(body, env, v, sub)
            b, kb = self.assign_block(s.orelse, env, v, sub)
            k = ka if ka == kb else "Q"
            env2 = dict(env)
            env2[v] = ("v_" + v, k)
            return (f"(let v_{v} := (if {c} then {self.num(a, ka, k)} else {self.num(b, kb, k)}) in\n   "
                    f"{self.block(rest, env2, fn)})")
        raise Untranslatable(f"{fn.name}: if statement form")

    def assign_block(self, stmts, env, var, fn):
        """A sequence of assignments whose value is the last assigned variable `var`."""
        env = dict(env)
        lets = []
        kind = None
        for x in stmts:
            tgt = (x.targets[0] if isinstance(x, ast.Assign) else x.target).id
            t, k = self._expr(x.value, env)
            env[tgt] = ("v_" + tgt, k)
            lets.append(("v_" + tgt, t))
            kind = k
        out = lets[-1][1]
        for tgt, t in reversed(lets[:-1]):
            out = f"(let {tgt} := {t} in {out})"
        return out, kind

    def for_stmt(self, s, rest, env, fn):
        if s.orelse or not isinstance(s.target, ast.Name):
            raise Untranslatable("for form")
        xs, kx = self._expr(s.iter, env)
        if kx != "idset":
            raise Untranslatable("for over " + kx)
        v = "v_" + s.target.id
        env_in = dict(env)
        env_in[s.target.id] = (v, "Z")
        # search loop: every statement is `if c: return <const>` with the same constant
        if all(isinstance(x, ast.If) and not x.orelse and len(x.body) == 1 and isinstance(x.body[0], ast.Return)
               and isinstance(x.body[0].value, ast.Constant) for x in s.body):
            consts = {x.body[0].value.value for x in s.body}
            if len(consts) != 1:
                raise Untranslatable("search loop with different results")
            conds = [self.expr(x.test, env_in, "bool")[0] for x in s.body]
            ret = self.expr(s.body[0].body[0].value, env, fn.ret)[0]
            return (f"(if existsb (fun {v} => {' || '.join(conds)}) {xs} then {ret}\n   else {self.block(rest, env, fn)})")
        # accumulation loop on one variable
        accs = set()
        for x in s.body:
            y = x.body[0] if isinstance(x, ast.If) and not x.orelse and len(x.body) == 1 else x
            if not (isinstance(y, ast.AugAssign) and isinstance(y.op, ast.Add) and isinstance(y.target, ast.Name)):
                raise Untranslatable("loop body form")
            accs.add(y.target.id)
        if len(accs) != 1:
            raise Untranslatable("loop with several accumulators")
        acc = accs.pop()
        cur, kacc = env[acc]
        sc = "%Q" if kacc == "Q" else "%Z"
        env_in[acc] = ("acc_", kacc)
        body = "acc_"
        steps = []
        for x in s.body:
            if isinstance(x, ast.If):
                c = self.expr(x.test, env_in, "bool")[0]
                t = self.expr(x.body[0].value, env_in, kacc)[0]
                steps.append(f"(if {c} then (acc_ + {t}){sc} else acc_)")
            else:
                steps.append(f"(acc_ + {self.expr(x.value, env_in, kacc)[0]}){sc}")
        for st in reversed(steps[1:]):
            body = f"(let acc_ := {st} in {body})" if body != "acc_" else st
        if len(steps) > 1:
            body = f"(let acc_ := {steps[0]} in {body})"
        else:
            body = steps[0]
        env2 = dict(env)
        env2[acc] = ("v_" + acc, kacc)
        return (f"(let v_{acc} := fold_left (fun acc_ {v} => {body}) {xs} {cur} in\n   {self.block(rest, env2, fn)})")

    # ---- functions ----------------------------------------------------------------------------
    def function(self, node: ast.FunctionDef):
        params, ret = self.sigs[node.name]
        names = [a.arg for a in node.args.args]
        if names != [p for p, _ in params] or node.args.vararg or node.args.kwarg or node.args.kwonlyargs:
            raise Untranslatable(f"{node.name}: signature changed: {names}")
        fn = Fn(node.name, params, ret)
        env = {p: ("v_" + p, k) for p, k in params}
        fn.body = self.block(node.body, env, fn)
        self.fns[node.name] = fn
        return fn

    def render(self, fn: Fn) -> str:
        ps = " ".join(f"(v_{p} : {COQ_TYPE[k]})" for p, k in fn.params)
        return f"Definition f_{fn.name.lstrip('_')} {ps} : {COQ_TYPE[fn.ret]} :=\n  {fn.body}.\n"


def translate_module(path, signatures, order) -> tuple[str, list[Fn]]:
    tree = ast.parse(open(path).read())
    defs = {n.name: n for n in ast.walk(tree) if isinstance(n, ast.FunctionDef)}
    tr = Translator(signatures)
    out, fns = [], []
    for name in order:
        if name not in defs:
            raise Untranslatable(f"function {name} not found in {path}")
        fn = tr.function(defs[name])
        fns.append(fn)
        out.append(tr.render(fn))
    return "\n".join(out), fns
