"""Shared machinery for the /verif checks (see DESIGN.md sec. 2).

A check is `run(ctx)` in harness/props/Cxx.py.  The context gives it

  * T  ctx.coq_static()        build (incrementally) the static Coq development the property
                               depends on, recompile Properties/Cxx.v to capture Print Assumptions,
                               count obligations (= closed proofs) and how many were discharged.
       ctx.coq_dyn(files)      compile per-run generated Coq files (translator output + the proofs
                               that are re-checked against it).
  * K  ctx.run_cases(...)      evaluate the executable model inside Coq (vm_compute) on the inputs
                               the implementation just ran, and return the mismatching cases.
  * S  ctx.fail(...)           report a concrete failing input found by a direct oracle.
       ctx.broken(...)         report a broken proof obligation / correspondence.

ctx.finish() matches failures with known_findings.json, writes replays and the evidence file and
prints KNOWN-FINDING / VIOLATION lines.
"""
from __future__ import annotations

import concurrent.futures as cf
import fcntl
import hashlib
import json
import os
import random
import re
import shutil
import subprocess
import sys
import time
from pathlib import Path

VERIF = Path(__file__).resolve().parents[2]
COQ = VERIF / "coq"
THEORIES = COQ / "theories"
BUILD = VERIF / "build"
REPO = Path(os.environ.get("VERIF_REPO", "/repo"))
GUARD = "SE2P_PYNGUIN_VERIF"

FORBIDDEN = re.compile(
    r"\b(Admitted|admit|Axiom|Axioms|Parameter|Parameters|Conjecture|Conjectures|"
    r"Admit Obligations|bypass_check|Unset Guard Checking|Unset Positivity Checking|"
    r"Unset Universe Checking|type-in-type|impredicative-set|Variable|Variables|Hypothesis|Hypotheses)\b"
)
PROOF_END = re.compile(r"\b(Qed|Defined)\s*\.")


def _strip_comments(src: str) -> str:
    out, depth, i = [], 0, 0
    while i < len(src):
        if src.startswith("(*", i):
            depth += 1
            i += 2
        elif src.startswith("*)", i) and depth:
            depth -= 1
            i += 2
        else:
            if not depth:
                out.append(src[i])
            i += 1
    return "".join(out)


def audit_source(path: Path) -> list[str]:
    """Forbidden constructs in a Coq source file (comments ignored).

    `Variable`/`Hypothesis` are allowed only inside a Section."""
    bad = []
    src = _strip_comments(path.read_text())
    depth = 0
    for ln, line in enumerate(src.splitlines(), 1):
        s = line.strip()
        if re.match(r"Section\s+\w+\s*\.", s):
            depth += 1
        elif re.match(r"End\s+\w+\s*\.", s) and depth:
            depth -= 1
        for m in FORBIDDEN.finditer(line):
            w = m.group(1)
            if w in ("Variable", "Variables", "Hypothesis", "Hypotheses"):
                if depth > 0 or not re.match(r"\s*(Variable|Variables|Hypothesis|Hypotheses)\b", line):
                    continue
            bad.append(f"{path.name}:{ln}: {w}")
    return bad


# ------------------------------------------------------------------------------------------------
# Coq term printers
def cZ(n: int) -> str:
    return f"({int(n)})%Z"


def cN(n: int) -> str:
    assert n >= 0
    return f"{int(n)}%N"


def cnat(n: int) -> str:
    assert 0 <= n < 5000, n
    return f"{int(n)}%nat"


def cbool(b) -> str:
    return "true" if b else "false"


def clist(items) -> str:
    return "[" + "; ".join(items) + "]"


def copt(x) -> str:
    return "None" if x is None else f"(Some {x})"


def cpair(*xs) -> str:
    return "(" + ", ".join(xs) + ")"


def cfloat(x: float) -> str:
    """PrimFloat literal, bit exact (hex float notation is accepted by Coq 8.16)."""
    import math

    if math.isnan(x):
        return "nan"
    if math.isinf(x):
        return "infinity" if x > 0 else "neg_infinity"
    h = x.hex()
    if h.startswith("-"):
        return f"(-{h[1:]})%float"
    return f"({h})%float"


# ------------------------------------------------------------------------------------------------
class Failure:
    def __init__(self, kind, signature, what, replay):
        self.kind = kind  # "input" (concrete failing input) | "obligation" (proof/correspondence)
        self.signature = signature
        self.what = what
        self.replay = replay


class Ctx:
    def __init__(self, pid: str, tier: str, seed: int, replay: bool = False):
        self.pid, self.tier, self.seed = pid, tier, seed
        self.replay_mode = replay
        self.quick = tier == "quick"
        self.rng = random.Random(seed)
        self.repo = REPO
        self.t0 = time.time()
        self.work = BUILD / (pid + "-replay" if replay else pid)   # a replay keeps the run's files
        # two runs of the same check share this directory: the second one waits for the first
        BUILD.mkdir(exist_ok=True)
        self._runlock = open(BUILD / (self.work.name + ".runlock"), "w")
        fcntl.flock(self._runlock, fcntl.LOCK_EX)
        self.t0 = time.time()
        if self.work.exists():
            shutil.rmtree(self.work)
        self.work.mkdir(parents=True)
        if not replay:
            for old in (VERIF / "replays").glob(f"{pid}-*.json"):
                old.unlink()
        self.scratch = Path(f"/var/tmp/verif-{pid}-{os.getpid()}")
        self.failures: list[Failure] = []
        self.cov: dict = {
            "obligations": 0,
            "discharged": 0,
            "checker_cmd": "",
            "trusted_base": [],
            "evaluations": 0,
            "distinct_nontrivial": 0,
            "rule": "",
            "samples": [],
            "traces_validated_against_impl": 0,
            "legs": {},
            "input_distribution": {},
        }
        self.assumptions: list[str] = []
        self._distinct: set = set()
        self.level = "proof"
        self.notes: list[str] = []

    # --- bookkeeping -----------------------------------------------------------------------
    def log(self, *a):
        print(f"[{self.pid} {time.time() - self.t0:6.1f}s]", *a, flush=True)

    def mkscratch(self) -> Path:
        self.scratch.mkdir(parents=True, exist_ok=True)
        return self.scratch

    def count(self, key: str, n: int = 1):
        d = self.cov["input_distribution"]
        d[key] = d.get(key, 0) + n

    def case_seen(self, canon, nontrivial: bool = True):
        """Register one evaluated case; `canon` is a hashable/reprable canonical form."""
        self.cov["evaluations"] += 1
        if nontrivial:
            self._distinct.add(hashlib.sha1(repr(canon).encode()).digest()[:8])

    def sample(self, obj, limit: int = 6):
        if len(self.cov["samples"]) < limit:
            self.cov["samples"].append(obj)

    def leg(self, name: str, **kw):
        self.cov["legs"].setdefault(name, {}).update(kw)

    def digest_sources(self, relpaths):
        d = {}
        for r in relpaths:
            p = self.repo / r
            d[r] = hashlib.sha1(p.read_bytes()).hexdigest()[:12] if p.exists() else "missing"
        self.cov["source_digests"] = d

    def fail(self, signature: str, what: str, replay: dict):
        """A concrete input/history on which the implementation violates the property."""
        self.failures.append(Failure("input", signature, what, replay))

    def broken(self, name: str, what: str, detail: dict | None = None):
        """A proof obligation or correspondence that no longer checks."""
        self.failures.append(Failure("obligation", "obligation:" + name, what, {"obligation": name, **(detail or {})}))

    # --- T: static development ------------------------------------------------------------
    def _closure(self, roots: list[Path]) -> list[Path]:
        seen, todo = [], list(roots)
        while todo:
            p = todo.pop()
            if p in seen or not p.exists():
                continue
            seen.append(p)
            src = _strip_comments(p.read_text())
            for m in re.finditer(r"From\s+Verif\s+Require\s+(?:Import\s+|Export\s+)?([\w.\s]+?)\.(?:\s|$)", src):
                for mod in m.group(1).split():
                    todo.append(THEORIES / (mod.replace(".", "/") + ".v"))
        return seen

    def coq_static(self, extra_roots: list[str] | None = None, timeout: int = 1500) -> bool:
        """Build the property's static closure, audit it, capture Print Assumptions."""
        prop = THEORIES / "Properties" / f"{self.pid}.v"
        roots = [prop] + [THEORIES / r for r in (extra_roots or [])]
        files = self._closure(roots)
        ok = True
        ensure_project()
        targets = [str(p.relative_to(COQ).with_suffix(".vo")) for p in roots]
        with open(BUILD / ".lock", "w") as lk:
            fcntl.flock(lk, fcntl.LOCK_EX)
            r = subprocess.run(
                ["timeout", str(timeout), "make", "-f", "Makefile.gen", "-j16", "-k", *targets],
                cwd=COQ, capture_output=True, text=True,
            )
        (self.work / "make.log").write_text(r.stdout + r.stderr)
        total = done = 0
        failed_files = []
        for p in files:
            n = len(PROOF_END.findall(_strip_comments(p.read_text())))
            total += n
            vo = p.with_suffix(".vo")
            if vo.exists() and vo.stat().st_mtime >= p.stat().st_mtime:
                done += n
            else:
                failed_files.append(p.name)
        self.cov["obligations"] += total
        self.cov["discharged"] += done
        if r.returncode != 0 or failed_files:
            ok = False
            err = re.findall(r'File "([^"]+)", line (\d+).*?\n(?:.*\n){0,6}?Error:([^\n]*(?:\n[^\n]+){0,4})', r.stdout + r.stderr)
            self.broken(
                "static-proofs:" + ",".join(failed_files or ["make"]),
                f"static Coq development for {self.pid} does not build",
                {"files": failed_files, "errors": [list(e) for e in err[:5]], "log": str(self.work / "make.log")},
            )
        bad = []
        for p in files:
            bad += audit_source(p)
        if bad:
            ok = False
            self.broken("audit", "forbidden construct in the development", {"hits": bad})
        # Print Assumptions of the property theorems: recompile the property file
        axioms = {}
        if ok:
            r2 = subprocess.run(
                ["timeout", "600", "coqc", "-Q", "theories", "Verif", "-o", str(self.work / f"{self.pid}.vo"), str(prop)],
                cwd=COQ, capture_output=True, text=True,
            )
            if r2.returncode != 0:
                ok = False
                self.broken("property-file", f"Properties/{self.pid}.v does not compile", {"stderr": r2.stderr[-2000:]})
            axioms = parse_assumptions(r2.stdout)
            thms = re.findall(r"^\s*(?:Theorem|Corollary)\s+(\w+)", _strip_comments(prop.read_text()), re.M)
            self.cov["property_theorems"] = thms
        self.cov["axioms"] = axioms
        self.cov["checker_cmd"] = (
            f"make -f Makefile.gen {' '.join(targets)} (coqc 8.16.1, full .vo build) + coqc Properties/{self.pid}.v "
            "(Print Assumptions) + source audit for Admitted/Axiom/Parameter/..."
        )
        self.cov["closure_files"] = sorted(str(p.relative_to(THEORIES)) for p in files)
        self.leg("T", static_ok=ok, files=len(files))
        tb = ["Coq 8.16.1 kernel, coqc, vm_compute (no native_compute)"]
        used = sorted({a for v in axioms.values() for a in v})
        tb.append("axioms reported by Print Assumptions: " + (", ".join(used) if used else "none (closed under the global context)"))
        self.cov["trusted_base"] += tb
        return ok

    def coqchk(self, timeout: int = 1200):
        """thorough tier: re-check the property's .vo closure with the independent checker."""
        r = subprocess.run(
            ["timeout", str(timeout), "coqchk", "-silent", "-o", "-Q", "theories", "Verif", f"Verif.Properties.{self.pid}"],
            cwd=COQ, capture_output=True, text=True,
        )
        out = r.stdout + r.stderr
        (self.work / "coqchk.log").write_text(out)
        m = re.search(r"\* Axioms:\s*(.*?)(?:\n\s*\*|\Z)", out, re.S)
        ax = " ".join(m.group(1).split()) if m else "?"
        self.cov["coqchk"] = {"rc": r.returncode, "axioms": ax[:1500]}
        if r.returncode != 0:
            self.broken("coqchk", "coqchk rejects the compiled development", {"tail": out[-1500:]})
        return r.returncode == 0

    def coq_dyn(self, files: list[Path], what: str, timeout: int = 600) -> bool:
        """Compile per-run files (in self.work) in order. Each may Require Verif.* and earlier
        files of the same directory (logical root Run)."""
        for f in files:
            bad = audit_source(f)
            if bad:
                self.broken("audit-dyn", "forbidden construct in generated file", {"hits": bad})
                return False
            n = len(PROOF_END.findall(_strip_comments(f.read_text())))
            self.cov["obligations"] += n
            r = subprocess.run(
                ["timeout", str(timeout), "coqc", "-Q", str(THEORIES), "Verif", "-Q", str(f.parent), "Run", str(f)],
                cwd=f.parent, capture_output=True, text=True,
            )
            (f.parent / (f.stem + ".log")).write_text(r.stdout + r.stderr)
            if r.returncode != 0:
                self.broken(
                    f"dyn:{f.name}", f"{what}: {f.name} no longer checks against the regenerated model",
                    {"stderr": r.stderr[-3000:]},
                )
                self.leg("K1", ok=False, file=f.name)
                return False
            self.cov["discharged"] += n
        self.leg("K1", ok=True, files=[f.name for f in files])
        return True

    # --- K: evaluate the model inside Coq ---------------------------------------------------
    def run_cases(self, name: str, imports: str, case_type: str, checker: str, cases: list[str],
                  shard: int = 400, timeout: int = 900) -> list[int] | None:
        """cases: Coq terms of type `case_type`; checker : case_type -> bool (true = model agrees
        with the implementation's recorded answer).  Returns indices of disagreeing cases, or None
        when the case files do not compile."""
        shards = [cases[i:i + shard] for i in range(0, len(cases), shard)] or [[]]
        paths = []
        for k, sh in enumerate(shards):
            p = self.work / f"{name}_{k}.v"
            body = ";\n  ".join(sh)
            p.write_text(
                f"From Coq Require Import List ZArith Bool.\n{imports}\nFrom Verif Require Import Base.Corr.\nImport ListNotations.\n"
                f"Definition cases : list ({case_type}) := [\n  {body}\n].\n"
                f"Eval vm_compute in (Corr.mismatches ({checker}) cases 0).\n"
            )
            paths.append(p)

        def one(p):
            r = subprocess.run(
                ["timeout", str(timeout), "coqc", "-Q", str(THEORIES), "Verif", "-Q", str(self.work), "Run", str(p)],
                cwd=self.work, capture_output=True, text=True,
            )
            return p, r

        bad: list[int] = []
        with cf.ThreadPoolExecutor(max_workers=16) as ex:
            for k, (p, r) in enumerate(ex.map(one, paths)):
                if r.returncode != 0:
                    self.broken(f"cases:{name}", f"case file {p.name} does not evaluate", {"stderr": r.stderr[-3000:]})
                    return None
                m = re.search(r"=\s*\[(.*?)\]\s*:\s*list nat", r.stdout, re.S)
                if not m:
                    self.broken(f"cases:{name}", "cannot parse vm_compute output", {"stdout": r.stdout[-2000:]})
                    return None
                idx = [int(x) for x in re.findall(r"\d+", m.group(1))]
                bad += [k * shard + i for i in idx]
        self.cov["traces_validated_against_impl"] += len(cases)
        return bad

    def coq_eval(self, imports: str, expr: str, timeout: int = 300) -> str:
        p = self.work / f"eval_{abs(hash(expr)) % 10**8}.v"
        p.write_text(f"From Coq Require Import List ZArith Bool.\n{imports}\nImport ListNotations.\nEval vm_compute in ({expr}).\n")
        r = subprocess.run(
            ["timeout", str(timeout), "coqc", "-Q", str(THEORIES), "Verif", "-Q", str(self.work), "Run", str(p)],
            cwd=self.work, capture_output=True, text=True,
        )
        return " ".join((r.stdout if r.returncode == 0 else r.stderr).split())[:4000]

    # --- verdict ----------------------------------------------------------------------------
    def finish(self) -> int:
        shutil.rmtree(self.scratch, ignore_errors=True)
        known = load_findings(self.pid)
        self.cov["distinct_nontrivial"] = len(self._distinct)
        inputs = [f for f in self.failures if f.kind == "input"]
        obls = [f for f in self.failures if f.kind == "obligation"]
        violations = 0
        lines = []
        # runs against a scratch worktree (VERIF_REPO) must not overwrite the evidence of /repo
        scratch_run = REPO.resolve() != Path("/repo")
        rep_dir = (self.work / "replays") if scratch_run else (VERIF / "replays")
        printed_known = set()
        unknown_inputs = []
        for f in inputs:
            k = match_finding(known, f.signature)
            if k is not None:
                if k["signature"] not in printed_known:
                    printed_known.add(k["signature"])
                    lines.append(f"KNOWN-FINDING: property={self.pid} {k['what']} [{f.signature}]")
            else:
                unknown_inputs.append(f)
        seen_sig = set()
        for f in unknown_inputs:
            if f.signature in seen_sig:
                continue
            seen_sig.add(f.signature)
            violations += 1
            rep_dir.mkdir(parents=True, exist_ok=True)
            path = rep_dir / f"{self.pid}-{re.sub(r'[^A-Za-z0-9_.-]+', '_', f.signature)[:80]}.json"
            path.write_text(json.dumps({"property": self.pid, "signature": f.signature, "what": f.what,
                                        "seed": self.seed, "tier": self.tier, "replay": f.replay,
                                        "broken_obligations": [o.signature for o in obls]}, indent=1, default=repr))
            lines.append(f"VIOLATION property={self.pid} replay={path}")
        if obls and not unknown_inputs:
            # the property is no longer shown to hold, and no (new) failing input was found
            violations += 1
            rep_dir.mkdir(parents=True, exist_ok=True)
            path = rep_dir / f"{self.pid}-obligation.json"
            path.write_text(json.dumps({"property": self.pid, "no_longer_checks": [
                {"name": o.signature, "what": o.what, "detail": o.replay} for o in obls],
                "seed": self.seed, "tier": self.tier}, indent=1, default=repr))
            lines.append(f"VIOLATION property={self.pid} replay={path} no-failing-input-found")
        wall = time.time() - self.t0
        ev = {
            "property_id": self.pid, "tier": self.tier, "seed": self.seed, "level": self.level,
            "coverage": self.cov, "assumptions": self.assumptions, "wall_s": round(wall, 2),
            "violations": violations,
            "known_findings_reported": sorted(printed_known),
            "broken_obligations": [o.signature for o in obls],
            "notes": self.notes,
        }
        ev_dir = self.work if scratch_run else (VERIF / "evidence")
        ev_dir.mkdir(exist_ok=True)
        (ev_dir / f"{self.pid}.json").write_text(json.dumps(ev, indent=1, default=repr) + "\n")
        for ln in lines:
            print(ln, flush=True)
        self.log(f"done: obligations {self.cov['discharged']}/{self.cov['obligations']}, "
                 f"cases {self.cov['evaluations']} ({len(self._distinct)} distinct), violations {violations}")
        return 1 if violations else 0


def parse_assumptions(out: str) -> dict:
    """Output of a property file: blocks 'Closed under the global context' or 'Axioms:\n a : T ...'.
    Returns {index: [axiom names]} in order of appearance."""
    res = {}
    blocks = re.split(r"(?=Closed under the global context|Axioms:)", out)
    i = 0
    for b in blocks:
        if b.startswith("Closed under"):
            res[str(i)] = []
            i += 1
        elif b.startswith("Axioms:"):
            names = re.findall(r"^([A-Za-z_][\w.']*)\s*:", b[len("Axioms:"):], re.M)
            res[str(i)] = names
            i += 1
    return res


def load_findings(pid: str) -> list[dict]:
    """known_findings.json is the committed list; findings/Cxx.json are the per-property source
    fragments that bin/mkmanifest merges into it (read too, so both stay in step)."""
    ents = []
    p = VERIF / "known_findings.json"
    if p.exists():
        ents += json.loads(p.read_text())["findings"]
    q = VERIF / "findings" / f"{pid}.json"
    if q.exists():
        ents += json.loads(q.read_text())
    seen, res = set(), []
    for e in ents:
        k = (e["property"], e["signature"], e["status"])
        if e["property"] == pid and e["status"] == "known" and k not in seen:
            seen.add(k)
            res.append(e)
    return res


def match_finding(known: list[dict], signature: str):
    for k in known:
        if re.fullmatch(k["signature"], signature):
            return k
    return None


def ensure_project():
    """(Re)generate coq/_CoqProject and Makefile.gen when the set of .v files changed."""
    BUILD.mkdir(exist_ok=True)
    with open(BUILD / ".lock", "w") as lk:
        fcntl.flock(lk, fcntl.LOCK_EX)
        files = sorted(str(p.relative_to(COQ)) for p in THEORIES.rglob("*.v"))
        text = "-Q theories Verif\n-arg -w -arg -notation-overridden,-deprecated-hint-without-locality,-deprecated-instance-without-locality\n" + "\n".join(files) + "\n"
        cp = COQ / "_CoqProject"
        if not cp.exists() or cp.read_text() != text or not (COQ / "Makefile.gen").exists():
            cp.write_text(text)
            subprocess.run(["coq_makefile", "-f", "_CoqProject", "-o", "Makefile.gen"], cwd=COQ, check=True,
                           capture_output=True)


def impl_env() -> dict:
    e = dict(os.environ)
    e["PYTHONPATH"] = str(REPO / "src")
    e["PYTHONHASHSEED"] = "0"
    e["PYNGUIN_DANGER_AWARE"] = "1"
    e[GUARD] = "1"
    return e


def setup_impl_path():
    """Make `import pynguin` resolve to the repo's current working tree."""
    src = str(REPO / "src")
    if src in sys.path:
        sys.path.remove(src)
    sys.path.insert(0, src)
    os.environ.setdefault("PYNGUIN_DANGER_AWARE", "1")
    os.environ[GUARD] = "1"
    import pynguin  # noqa: F401

    assert Path(pynguin.__file__).resolve().is_relative_to(REPO.resolve()), pynguin.__file__
