"""In-process pynguin search runs, each isolated in a forked child process.

    results = pipeline.run_many([job, ...], extract, workers=8)

job = dict(sut=<path to module file>, algorithm="DYNAMOSA", iterations=5, seed=1,
           metrics=["BRANCH"], extra=<dict of dotted config overrides>)
extract(algorithm, suite, executor, cluster, job) runs in the child after the search and must return
picklable data.  A child that dies or raises yields {"error": "..."}.
"""
from __future__ import annotations

import multiprocessing as mp
import os
import shutil
import sys
import tempfile
import traceback
from pathlib import Path


def _child(job, extract, conn):
    try:
        import vlib

        vlib.setup_impl_path()
        import logging

        logging.disable(logging.CRITICAL)
        import pynguin.configuration as config
        from pynguin import generator as gen

        sut = Path(job["sut"])
        work = Path(tempfile.mkdtemp(prefix="verif-run-", dir="/var/tmp"))
        try:
            shutil.copy(sut, work / sut.name)
            cfg = config.Configuration(
                project_path=str(work),
                module_name=sut.stem,
                test_case_output=config.TestCaseOutputConfiguration(output_path=str(work / "out")),
                algorithm=config.Algorithm[job.get("algorithm", "DYNAMOSA")],
                stopping=config.StoppingConfiguration(
                    maximum_iterations=job.get("iterations", 5), maximum_search_time=-1,
                    maximum_test_executions=job.get("executions", -1),
                    maximum_statement_executions=job.get("statements", -1),
                ),
                seeding=config.SeedingConfiguration(seed=job.get("seed", 0)),
                statistics_output=config.StatisticsOutputConfiguration(
                    report_dir=str(work / "report"),
                    statistics_backend=config.StatisticsBackend.NONE,
                    coverage_metrics=[config.CoverageMetric[m] for m in job.get("metrics", ["BRANCH"])],
                ),
            )
            for dotted, val in (job.get("extra") or {}).items():
                obj = cfg
                *path, last = dotted.split(".")
                for p in path:
                    obj = getattr(obj, p)
                setattr(obj, last, val)
            gen.set_configuration(cfg)
            gen._verify_config()
            setup = gen._setup_and_check()
            if setup is None:
                conn.send({"error": "setup failed"})
                return
            executor, cluster, constant_provider = setup
            algorithm = gen._instantiate_test_generation_strategy(executor, cluster, constant_provider)
            pre = job.get("pre")
            if pre:
                pre(algorithm, executor, cluster, job)
            suite = algorithm.generate_tests()
            conn.send(extract(algorithm, suite, executor, cluster, job))
        finally:
            shutil.rmtree(work, ignore_errors=True)
    except BaseException as e:  # noqa: BLE001
        try:
            conn.send({"error": f"{type(e).__name__}: {e}", "traceback": traceback.format_exc()[-2000:]})
        except Exception:
            pass
    finally:
        conn.close()
        os._exit(0)


def run_one(job, extract, timeout=120):
    ctx = mp.get_context("fork")
    parent, child = ctx.Pipe(duplex=False)
    p = ctx.Process(target=_child, args=(job, extract, child))
    p.start()
    child.close()
    res = {"error": "no result"}
    try:
        if parent.poll(timeout):
            res = parent.recv()
        else:
            res = {"error": "timeout"}
    except EOFError:
        res = {"error": "child died"}
    finally:
        if p.is_alive():
            p.kill()
        p.join()
    return res


def run_many(jobs, extract, workers=8, timeout=120):
    from concurrent.futures import ThreadPoolExecutor

    with ThreadPoolExecutor(max_workers=workers) as ex:
        return list(ex.map(lambda j: run_one(j, extract, timeout), jobs))
