(* Compiled on every run against C10_gen.v, which py2v regenerates from
   /repo/src/pynguin/ga/fitness_metrics.py: the generated definitions equal the hand-written model the
   theorems are about, hence the theorems hold for the functions as the code states them now. *)
From Coq Require Import List ZArith QArith Bool Lia Lqa.
From Verif Require Import Models.C10 Proofs.C10.
From Run Require Import C10_gen.
Import ListNotations. Import C10. Import C10_gen.Gen.
Open Scope Q_scope.

Lemma fold_left_ext {A B} (f g : A -> B -> A) l a :
  (forall a x, f a x = g a x) -> fold_left f l a = fold_left g l a.
Proof. intro H. revert a. induction l as [|x l IH]; intro a; simpl; [reflexivity|]. now rewrite H, IH. Qed.

Lemma existsb_negb_forallb {A} (f g : A -> bool) l :
  (forall x, f x = negb (g x)) -> existsb f l = negb (forallb g l).
Proof.
  intro H. induction l as [|x l IH]; simpl; [reflexivity|]. rewrite H, IH. now destruct (g x), (forallb g l).
Qed.

Lemma count_if_true {A} (l : list A) : count_if (fun _ => true) l = Z.of_nat (length l).
Proof. unfold count_if. induction l as [|x l IH]; simpl in *; [reflexivity|]. lia. Qed.

Lemma tie_normalise d : f_normalise d = normalise d.
Proof. destruct d; reflexivity. Qed.

Lemma tie_predicate_fitness p bd t : f_predicate_fitness p bd t = predicate_fitness p bd t.
Proof.
  unfold f_predicate_fitness, predicate_fitness, dmem, dget_inf, dsub_z.
  destruct (dget bd p) as [d|]; simpl.
  - destruct (dist_is_zero d); [reflexivity|].
    destruct (dget (exec_pred t) p) as [c|]; simpl; [|reflexivity].
    destruct (2 <=? c)%Z; [apply tie_normalise|reflexivity].
  - destruct (dget (exec_pred t) p) as [c|]; simpl; [|reflexivity].
    destruct (2 <=? c)%Z; reflexivity.
Qed.

Lemma tie_branch_fitness t r ec et ef :
  f_compute_branch_distance_fitness t r ec et ef = branch_fitness_ex t r ec et ef.
Proof.
  unfold f_compute_branch_distance_fitness, branch_fitness_ex, code_objects_missing. cbv zeta.
  f_equal. apply fold_left_ext. intros a p. rewrite !tie_predicate_fitness.
  destruct (memZ p et), (memZ p ef); reflexivity.
Qed.

Lemma tie_branch_is_covered t r ec et ef :
  f_compute_branch_distance_fitness_is_covered t r ec et ef = branch_is_covered_ex t r ec et ef.
Proof.
  unfold f_compute_branch_distance_fitness_is_covered, branch_is_covered_ex.
  destruct (existsb _ (branchless r)); [reflexivity|].
  rewrite (existsb_negb_forallb _ (fun p => (memZ p et || has_zero (true_d t) p) &&
                                            (memZ p ef || has_zero (false_d t) p))).
  - now destruct (forallb _ (predicates r)).
  - intro p. destruct (memZ p et), (memZ p ef), (has_zero (true_d t) p), (has_zero (false_d t) p); reflexivity.
Qed.

Lemma tie_branch_coverage t r : f_compute_branch_coverage t r = branch_coverage t r.
Proof.
  unfold f_compute_branch_coverage, branch_coverage, ratio, branch_covered_count, branch_existing_count.
  cbv zeta. rewrite count_if_true. unfold count_if.
  replace (Z.of_nat (length (branchless r)) + Z.of_nat (length (predicates r)) * 2)%Z
    with (Z.of_nat (length (branchless r)) + 2 * Z.of_nat (length (predicates r)))%Z by lia.
  reflexivity.
Qed.

Lemma tie_line_coverage t r : f_compute_line_coverage t r = line_coverage t r.
Proof. reflexivity. Qed.

Lemma Zeqb_of_nat a b : (Z.of_nat a =? Z.of_nat b)%Z = Nat.eqb a b.
Proof.
  destruct (Nat.eqb_spec a b) as [->|H]; [apply Z.eqb_refl|]. apply Z.eqb_neq. lia.
Qed.

Lemma tie_line_is_covered t r : f_compute_line_coverage_fitness_is_covered t r = line_is_covered t r.
Proof. apply Zeqb_of_nat. Qed.

Lemma tie_checked_is_covered t r :
  f_compute_checked_coverage_statement_fitness_is_covered t r = checked_is_covered t r.
Proof. apply Zeqb_of_nat. Qed.

(* the property theorems, restated for the functions as the source states them on this run *)
Theorem gen_suite_covered_iff_fitness_zero t r ec et ef :
  dists_nonneg (true_d t) -> dists_nonneg (false_d t) ->
  (f_compute_branch_distance_fitness t r ec et ef == 0 <->
   f_compute_branch_distance_fitness_is_covered t r ec et ef = true).
Proof. rewrite tie_branch_fitness, tie_branch_is_covered. apply branch_fitness_zero_iff_covered. Qed.

Theorem gen_fitness_nonneg t r ec et ef :
  dists_nonneg (true_d t) -> dists_nonneg (false_d t) ->
  0 <= f_compute_branch_distance_fitness t r ec et ef.
Proof. rewrite tie_branch_fitness. apply branch_fitness_nonneg. Qed.

Theorem gen_fitness_zero_iff_coverage_one t r :
  Valid t r -> NoDup (branchless r) -> NoDup (predicates r) ->
  (f_compute_branch_distance_fitness t r [] [] [] == 0 <-> f_compute_branch_coverage t r == 1).
Proof. rewrite tie_branch_fitness, tie_branch_coverage. apply branch_fitness_zero_iff_coverage_one. Qed.

Theorem gen_coverage_in_unit t r : Valid t r ->
  (0 <= f_compute_branch_coverage t r /\ f_compute_branch_coverage t r <= 1) /\
  (0 <= f_compute_line_coverage t r /\ f_compute_line_coverage t r <= 1).
Proof.
  intro V. rewrite tie_branch_coverage, tie_line_coverage. split.
  - now apply branch_coverage_range.
  - apply (line_metrics_agree t r V).
Qed.

Theorem gen_line_covered_iff_coverage_one t r : Valid t r ->
  (f_compute_line_coverage_fitness_is_covered t r = true <-> f_compute_line_coverage t r == 1).
Proof. intro V. rewrite tie_line_is_covered, tie_line_coverage. apply (line_metrics_agree t r V). Qed.
