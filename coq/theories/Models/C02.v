(* C02 — reported line coverage equals the lines the interpreter executed.
   Model of LineCoverageInstrumentation.visit_node / should_instrument_line (3.12) over RAW basic
   blocks (real instructions and pseudo-instructions).  Definitions only. *)
From Coq Require Import List ZArith Bool Lia.
Import ListNotations.

Module C02.

(* instruction classes that matter to line instrumentation *)
Inductive icls := Resume | EndFor | Other.

Record ins := { cls : icls; line : option Z }.   (* line = None: the instruction has no line *)

(* raw block element of the ORIGINAL block *)
Inductive oelem := OI (i : ins) | OP (p : nat).
(* raw block element of the INSTRUMENTED block *)
Inductive ielem := II (i : ins) | IP (p : nat) | Probe (l : option Z).

Definition oline_eqb (a b : option Z) : bool :=
  match a, b with
  | None, None => true
  | Some x, Some y => Z.eqb x y
  | _, _ => false end.

Definition skipped (c : icls) : bool := match c with Other => false | _ => true end.

Definition excluded (ex : list Z) (l : option Z) : bool :=
  match l with Some z => existsb (Z.eqb z) ex | None => false end.

(* should_instrument_line (3.10 + 3.11 + 3.12): the instruction has a line number, it differs from
   the line of the last probe of this block, and the instruction is neither RESUME nor END_FOR *)
Definition probe_here (i : ins) (last : option Z) : bool :=
  match line i with
  | Some _ => negb (oline_eqb (line i) last) && negb (skipped (cls i))
  | None => false end.

(* visit_node: [last] is the local variable `lineno` (None at the start of every block);
   an excluded instruction is passed over without touching it; RESUME and END_FOR are never
   instrumented and do not update `lineno`. *)
Fixpoint instrument (ex : list Z) (last : option Z) (blk : list oelem) : list ielem :=
  match blk with
  | [] => []
  | OP p :: r => IP p :: instrument ex last r
  | OI i :: r =>
      if excluded ex (line i) then II i :: instrument ex last r
      else if probe_here i last
           then Probe (line i) :: II i :: instrument ex (line i) r
           else II i :: instrument ex last r
  end.

Definition instrument_block (ex : list Z) (blk : list oelem) : list ielem := instrument ex None blk.

(* ---- executions -------------------------------------------------------------------------- *)
(* The interpreter executes a prefix of a block (an exception may leave it anywhere). In the
   instrumented block the prefix [k] counts raw elements. *)
Fixpoint fired (l : list ielem) : list Z :=
  match l with
  | [] => []
  | Probe (Some z) :: r => z :: fired r
  | _ :: r => fired r end.

Fixpoint executed_instrs (l : list ielem) : list ins :=
  match l with [] => [] | II i :: r => i :: executed_instrs r | _ :: r => executed_instrs r end.

(* a line is coverable when some instruction carries it that is neither excluded nor RESUME/END_FOR *)
Definition coverable (ex : list Z) (i : ins) : bool := negb (excluded ex (line i)) && negb (skipped (cls i)).

Fixpoint lines_of (ex : list Z) (l : list ins) : list Z :=
  match l with
  | [] => []
  | i :: r => match line i with
              | Some z => if coverable ex i then z :: lines_of ex r else lines_of ex r
              | None => lines_of ex r end
  end.

(* a prefix of the instrumented block is "probe complete" when it does not end between a probe and
   the instruction the probe belongs to (the probe call cannot raise, C04/C05) *)
Fixpoint ends_on_probe (l : list ielem) : bool :=
  match l with
  | [] => false
  | Probe _ :: [] => true
  | _ :: r => ends_on_probe r end.

(* the original block is what remains when the probes are deleted *)
Fixpoint erase (l : list ielem) : list oelem :=
  match l with
  | [] => []
  | II i :: r => OI i :: erase r
  | IP p :: r => OP p :: erase r
  | Probe _ :: r => erase r end.

Fixpoint oinstrs (l : list oelem) : list ins :=
  match l with [] => [] | OI i :: r => i :: oinstrs r | OP _ :: r => oinstrs r end.

(* registry = every line a probe was inserted for *)
Fixpoint registry (bs : list (list ielem)) : list Z :=
  match bs with [] => [] | b :: r => fired b ++ registry r end.

(* ---- K: translation validation of one really instrumented block ----------------------------- *)
Definition icls_eqb (a b : icls) : bool :=
  match a, b with Resume, Resume | EndFor, EndFor | Other, Other => true | _, _ => false end.
Definition ins_eqb (a b : ins) : bool := icls_eqb (cls a) (cls b) && oline_eqb (line a) (line b).
Definition ielem_eqb (a b : ielem) : bool :=
  match a, b with
  | II x, II y => ins_eqb x y
  | IP x, IP y => Nat.eqb x y
  | Probe x, Probe y => oline_eqb x y
  | _, _ => false end.
Fixpoint list_eqb {A} (f : A -> A -> bool) (a b : list A) : bool :=
  match a, b with
  | [], [] => true
  | x :: r, y :: s => f x y && list_eqb f r s
  | _, _ => false end.

(* case: excluded lines, original raw block, observed instrumented raw block *)
Definition case := (list Z * list oelem * list ielem)%type.
Definition check_case (c : case) : bool :=
  let '(ex, blk, obs) := c in list_eqb ielem_eqb (instrument_block ex blk) obs.

End C02.
