(* C14 — executable model of pynguin.ga.operators.{comparator,ranking,selection}:
   compare / DominanceComparator.compare / PreferenceSortingComparator.compare,
   RankBasedPreferenceSorting.{_get_zero_front,_get_non_dominated_solutions,compute_ranking_assignment},
   fast_epsilon_dominance_assignment, RankSelection.get_index (binary64, after fix
   C14-rank-selection-index).  Definitions only; proofs are in Proofs/C14.v.

   An individual is (key, row, len): [key] is its ==/hash class (TestCaseChromosome compares
   structurally, so a population may hold several equal chromosomes), [row] its fitness value for
   every goal (goals are positions in the row), [len] its length().  Fitness values are only ever
   compared, so they are integers here (the harness uses an order embedding of the floats).
   The chromosome attributes `rank` and `distance` are outputs of these operators only; the model
   therefore has no such inputs (the harness presets arbitrary stale values on the real objects). *)
From Coq Require Import List ZArith Bool.
From Coq Require Import Uint63 PrimFloat SpecFloat FloatOps.
Import ListNotations.
Open Scope Z_scope.

Module C14.

Record ind := { key : Z; row : list Z; len : Z }.
Definition fit (g : nat) (x : ind) : Z := nth g (row x) 0.

(* comparator.compare *)
Definition cmp (a b : Z) : Z := if a <? b then -1 else if a >? b then 1 else 0.

(* DominanceComparator.compare for two chromosomes (the None cases are never used by ranking):
   the loop over the objectives with its two early exits *)
Fixpoint dom_loop (goals : list nat) (a b : ind) (d1 d2 : bool) : Z :=
  match goals with
  | [] => if Bool.eqb d1 d2 then 0 else if d1 then -1 else 1
  | g :: r =>
      let flag := cmp (fit g a) (fit g b) in
      if flag <? 0 then (if d2 then 0 else dom_loop r a b true d2)
      else if flag >? 0 then (if d1 then 0 else dom_loop r a b d1 true)
      else dom_loop r a b d1 d2
  end.
Definition dom_compare (goals : list nat) (a b : ind) : Z := dom_loop goals a b false false.
Definition domb (goals : list nat) (a b : ind) : bool := dom_compare goals a b =? -1.

(* PreferenceSortingComparator.compare(solution, best) *)
Definition pref_compare (g : nat) (a : ind) (b : option ind) : Z :=
  match b with
  | None => -1
  | Some b =>
      if fit g a <? fit g b then -1
      else if fit g a >? fit g b then 1
      else if len a <? len b then -1
      else if len a >? len b then 1
      else 0
  end.

(* _get_zero_front: inner loop for one goal; randomness.next_bool() is drawn only on a tie *)
Fixpoint best_for (g : nat) (sols : list ind) (best : option ind) (coins : list bool)
  : option ind * list bool :=
  match sols with
  | [] => (best, coins)
  | s :: r =>
      let flag := pref_compare g s best in
      if flag <? 0 then best_for g r (Some s) coins
      else if flag =? 0 then
        match coins with
        | c :: cs => best_for g r (if c then Some s else best) cs
        | [] => best_for g r best []
        end
      else best_for g r best coins
  end.

Definition kmem (k : Z) (l : list ind) : bool := existsb (fun x => key x =? k) l.
(* OrderedSet.add *)
Definition oadd (front : list ind) (x : ind) : list ind :=
  if kmem (key x) front then front else front ++ [x].

Fixpoint zero_loop (goals : list nat) (sols : list ind) (coins : list bool) (front : list ind)
  : list ind * list bool :=
  match goals with
  | [] => (front, coins)
  | g :: r =>
      match best_for g sols None coins with
      | (Some b, coins') => zero_loop r sols coins' (oadd front b)
      | (None, coins') => zero_loop r sols coins' front   (* assert best is not None: sols = [] *)
      end
  end.
Definition zero_front (goals : list nat) (sols : list ind) (coins : list bool) : list ind :=
  fst (zero_loop goals sols coins []).

(* `if x in l: l.remove(x)` *)
Fixpoint remove_first (k : Z) (l : list ind) : list ind :=
  match l with
  | [] => []
  | x :: r => if key x =? k then r else x :: remove_first k r
  end.
Definition remove_list (xs l : list ind) : list ind :=
  fold_left (fun acc x => remove_first (key x) acc) xs l.

(* _get_non_dominated_solutions: inner loop over the current front; None = solution is dominated *)
Fixpoint scan (goals : list nat) (s : ind) (front dominated : list ind) : option (list ind) :=
  match front with
  | [] => Some dominated
  | best :: r =>
      let flag := dom_compare goals s best in
      if flag <? 0 then scan goals s r (dominated ++ [best])
      else if flag >? 0 then None
      else scan goals s r dominated
  end.
Definition nds_step (goals : list nat) (front : list ind) (s : ind) : list ind :=
  match scan goals s front [] with
  | None => front
  | Some d => remove_list d (front ++ [s])
  end.
Definition nds (goals : list nat) (sols : list ind) : list ind :=
  fold_left (nds_step goals) sols [].

Definition is_nil {A} (l : list A) : bool := match l with [] => true | _ => false end.

(* the while loop of compute_ranking_assignment; every round removes at least one element, so
   fuel = length of the remaining list suffices (Proofs: later_fronts_fuel) *)
Fixpoint later_fronts (fuel : nat) (goals : list nat) (pop ranked : Z) (rem : list ind)
  : list (list ind) :=
  match fuel with
  | O => []
  | S f =>
      if (ranked <? pop) && negb (is_nil rem) then
        let nf := nds goals rem in
        nf :: later_fronts f goals pop (ranked + Z.of_nat (length nf)) (remove_list nf rem)
      else []
  end.

(* compute_ranking_assignment; [pop] = configuration.search_algorithm.population *)
Definition ranking (goals : list nat) (pop : Z) (sols : list ind) (coins : list bool)
  : list (list ind) :=
  match sols with
  | [] => []
  | _ =>
      let zero := zero_front goals sols coins in
      let rem := remove_list zero sols in
      if Z.of_nat (length zero) <? pop then
        zero :: later_fronts (length rem) goals pop (Z.of_nat (length zero)) rem
      else [zero; rem]
  end.

(* fast_epsilon_dominance_assignment.  Distances within one call all have the denominator
   len(front); the model keeps the numerators.  [minmax] is the scan for one goal: minimum
   (None = sys.float_info.max, above every fitness value), positions of the minimal tests,
   maximum (initially 0.0). *)
Fixpoint minmax (g : nat) (front : list ind) (i : nat) (mn : option Z) (mset : list nat) (mx : Z)
  : option Z * list nat * Z :=
  match front with
  | [] => (mn, mset, mx)
  | t :: r =>
      let v := fit g t in
      let '(mn', mset') :=
        match mn with
        | None => (Some v, [i])
        | Some m => if v <? m then (Some v, [i])
                    else if v =? m then (Some m, mset ++ [i])
                    else (Some m, mset)
        end in
      minmax g r (S i) mn' mset' (Z.max v mx)
  end.

Definition nmem (i : nat) (l : list nat) : bool := existsb (Nat.eqb i) l.
Fixpoint bump (mset : list nat) (v : Z) (i : nat) (d : list Z) : list Z :=
  match d with
  | [] => []
  | x :: r => (if nmem i mset then Z.max x v else x) :: bump mset v (S i) r
  end.

Definition crowd_goal (front : list ind) (d : list Z) (g : nat) : list Z :=
  let '(mn, mset, mx) := minmax g front 0%nat None [] 0 in
  let skip := match mn with Some m => mx =? m | None => false end in
  if skip then d
  else bump mset (Z.of_nat (length front) - Z.of_nat (length mset)) 0%nat d.

(* numerators of test.distance after the call, in front order *)
Definition crowding (goals : list nat) (front : list ind) : list Z :=
  fold_left (crowd_goal front) goals (map (fun _ => 0) front).

(* ---- RankSelection.get_index on binary64 ------------------------------------------------- *)
Inductive err := EValue | EOverflow | EZeroDiv.
Inductive res := Idx (i : Z) | Err (e : err).

(* int(x) *)
Definition trunc (x : float) : res :=
  match Prim2SF x with
  | S754_zero _ => Idx 0
  | S754_infinity _ => Err EOverflow
  | S754_nan => Err EValue
  | S754_finite s m e =>
      let a := if 0 <=? e then Z.pos m * 2 ^ e else Z.pos m / 2 ^ (- e) in
      Idx (if s then - a else a)
  end.

Definition of_Z (n : Z) : float := of_uint63 (Uint63.of_Z n).    (* float(len(population)) *)

Definition clamp (n i : Z) : Z := Z.max 0 (Z.min i (n - 1)).

(* [bsq] is the value of bias**2 (libm pow, supplied by the harness as observed); everything else
   is IEEE arithmetic, evaluated bit-exactly. *)
Definition position (b bsq r : float) : float + err :=
  if (b =? 1)%float then inl r
  else
    let disc := (bsq - 4 * (b - 1) * r)%float in
    if (disc <? 0)%float then inr EValue                       (* math.sqrt domain error *)
    else
      let num := ((b - sqrt disc) / 2)%float in
      if ((b - 1) =? 0)%float then inr EZeroDiv
      else inl (num / (b - 1))%float.

Definition get_index (n : Z) (b bsq r : float) : res :=
  match position b bsq r with
  | inr e => Err e
  | inl p =>
      match trunc (of_Z n * p)%float with
      | Idx i => Idx (clamp n i)
      | Err e => Err e
      end
  end.

(* ---- correspondence cases ---------------------------------------------------------------- *)
Definition res_eqb (a b : res) : bool :=
  match a, b with
  | Idx i, Idx j => i =? j
  | Err EValue, Err EValue | Err EOverflow, Err EOverflow | Err EZeroDiv, Err EZeroDiv => true
  | _, _ => false
  end.

Fixpoint list_eqb {A} (eqb : A -> A -> bool) (l1 l2 : list A) : bool :=
  match l1, l2 with
  | [], [] => true
  | x :: r, y :: s => eqb x y && list_eqb eqb r s
  | _, _ => false
  end.

Inductive case :=
  | CCmp (a b : Z) (obs : Z)
  | CDom (goals : list nat) (a b : ind) (obs : Z)
  | CPref (g : nat) (a : ind) (b : option ind) (obs : Z)
  (* observed: keys of every front, number of coins drawn *)
  | CRank (goals : list nat) (pop : Z) (sols : list ind) (coins : list bool)
          (obs : list (list Z)) (drawn : nat)
  | CCrowd (goals : list nat) (front : list ind) (obs : list Z)
  | CSel (n : Z) (b bsq r : float) (obs : res).

Definition check_case (c : case) : bool :=
  match c with
  | CCmp a b obs => cmp a b =? obs
  | CDom goals a b obs => dom_compare goals a b =? obs
  | CPref g a b obs => pref_compare g a b =? obs
  | CRank goals pop sols coins obs drawn =>
      list_eqb (list_eqb Z.eqb) (map (map key) (ranking goals pop sols coins)) obs
      && match sols with
         | [] => true
         | _ => Nat.eqb (length coins - length (snd (zero_loop goals sols coins []))) drawn
         end
  | CCrowd goals front obs => list_eqb Z.eqb (crowding goals front) obs
  | CSel n b bsq r obs => res_eqb (get_index n b bsq r) obs
  end.

End C14.
