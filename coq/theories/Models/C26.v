(* C26 — generator selection on top of the type-system model (Models/C25.v):
   GeneratorProvider._get_generators_for (subtype_distance based),
   RandomGeneratorProvider._get_generators_for (is_maybe_subtype based), and the functools.lru_cache
   in front of the TypeSystem queries as a state machine (after fix C26-stale-type-query-caches:
   add_subclass_edge drops every memoised answer when it really adds an edge).
   Outside the model: the maxsize of the caches (eviction only removes entries, modelled by the
   [Evict] operation), hashing of proper types, the provider-level caches. *)
From Coq Require Import List NArith Bool Arith.
From Verif Require Import Models.C25.
Import ListNotations.

Module C26.
Import C25.

Definition gen := N.                                  (* identity of a generator (accessible object) *)
Definition table := list (ty * list gen).             (* GeneratorProvider._generators *)

Definition all_gens (tb : table) : list gen := flat_map snd tb.

(* typ.accept(is_primitive_type) *)
Definition is_primitive (prims : list cls) (t : ty) : bool :=
  match t with TInst c _ => memN c prims | _ => false end.

(* GeneratorProvider._get_generators_for *)
Definition offered_h (g : graph) (anyd : N) (prims : list cls) (tb : table) (typ : ty) : list gen :=
  match typ with
  | TAny => all_gens tb
  | _ =>
    if is_primitive prims typ then []
    else flat_map (fun e => match distance g anyd typ (fst e) with Some _ => snd e | None => [] end) tb
  end.

(* RandomGeneratorProvider._get_generators_for *)
Definition offered_r (g : graph) (tb : table) (typ : ty) : list gen :=
  match typ with
  | TAny => all_gens tb
  | _ => flat_map (fun e => if is_maybe_subtype g (fst e) typ then snd e else []) tb
  end.

Definition wf_table (g : graph) (tb : table) : bool := forallb (fun e => wf g (fst e)) tb.

(* ------------------------------------------------------------------------------------------ *)
(* memoised queries *)
Inductive qkey :=
| KSubclass (c d : cls)
| KSub (l r : ty)
| KMaybe (l r : ty)
| KDist (t s : ty).

Inductive answer := ABool (b : bool) | ADist (d : option N).

Definition compute (g : graph) (anyd : N) (q : qkey) : answer :=
  match q with
  | KSubclass c d => ABool (subcls g c d)
  | KSub l r => ABool (is_subtype g l r)
  | KMaybe l r => ABool (is_maybe_subtype g l r)
  | KDist t s => ADist (distance g anyd t s)
  end.

Definition qkey_eqb (a b : qkey) : bool :=
  match a, b with
  | KSubclass c d, KSubclass c' d' => N.eqb c c' && N.eqb d d'
  | KSub l r, KSub l' r' => ty_eqb l l' && ty_eqb r r'
  | KMaybe l r, KMaybe l' r' => ty_eqb l l' && ty_eqb r r'
  | KDist l r, KDist l' r' => ty_eqb l l' && ty_eqb r r'
  | _, _ => false
  end.

Definition answer_eqb (a b : answer) : bool :=
  match a, b with
  | ABool x, ABool y => Bool.eqb x y
  | ADist x, ADist y => opt_N_eqb x y
  | _, _ => false
  end.

Definition cache := list (qkey * answer).

Fixpoint cache_get (c : cache) (q : qkey) : option answer :=
  match c with
  | [] => None
  | (k, a) :: r => if qkey_eqb q k then Some a else cache_get r q
  end.

Inductive op :=
| Query (q : qkey)                 (* a cached TypeSystem query *)
| AddEdge (p c : cls)              (* add_subclass_edge(super_class = p, sub_class = c) *)
| Evict (q : qkey).                (* the lru cache drops an entry *)

Definition has_edge (g : graph) (p c : cls) : bool :=
  existsb (fun e => N.eqb (fst e) p && N.eqb (snd e) c) (edges g).

Definition add_node (l : list cls) (c : cls) : list cls := if memN c l then l else l ++ [c].

Definition add_edge (g : graph) (p c : cls) : graph :=
  {| nodes := add_node (add_node (nodes g) p) c; edges := edges g ++ [(p, c)]; hgs := hgs g |}.

Record state := { gr : graph; ca : cache }.

(* [invalidate] = true: the repaired add_subclass_edge; false: the code before the repair *)
Definition step (invalidate : bool) (anyd : N) (s : state) (o : op) : state * option answer :=
  match o with
  | Query q =>
      match cache_get (ca s) q with
      | Some a => (s, Some a)
      | None => let a := compute (gr s) anyd q in ({| gr := gr s; ca := (q, a) :: ca s |}, Some a)
      end
  | AddEdge p c =>
      if has_edge (gr s) p c then (s, None)
      else ({| gr := add_edge (gr s) p c; ca := if invalidate then [] else ca s |}, None)
  | Evict q =>
      ({| gr := gr s; ca := filter (fun e => negb (qkey_eqb q (fst e))) (ca s) |}, None)
  end.

Fixpoint run (invalidate : bool) (anyd : N) (s : state) (ops : list op) : state * list (option answer) :=
  match ops with
  | [] => (s, [])
  | o :: r =>
      let '(s1, a) := step invalidate anyd s o in
      let '(s2, l) := run invalidate anyd s1 r in (s2, a :: l)
  end.

Definition fresh_cache (g : graph) (anyd : N) (c : cache) : Prop :=
  forall k a, In (k, a) c -> a = compute g anyd k.

(* ------------------------------------------------------------------------------------------ *)
(* correspondence cases *)
Definition gens_eqb (a b : list gen) : bool :=     (* both sides sorted, duplicate free *)
  forall2b N.eqb a b.

Fixpoint insert_sorted (x : N) (l : list N) : list N :=
  match l with
  | [] => [x]
  | y :: r => if N.ltb x y then x :: l else if N.eqb x y then l else y :: insert_sorted x r
  end.
Definition sort_dedup (l : list N) : list N := fold_right insert_sorted [] l.

Definition opt_answer_eqb (a b : option answer) : bool :=
  match a, b with
  | Some x, Some y => answer_eqb x y
  | None, None => true
  | _, _ => false
  end.

Record pcase := {
  p_graph : graph; p_anyd : N; p_prims : list cls; p_table : table;
  (* requested type, generators offered by GeneratorProvider, by RandomGeneratorProvider *)
  p_requests : list (ty * list gen * list gen)
}.

Definition check_request (c : pcase) (r : ty * list gen * list gen) : bool :=
  let '(typ, h, rn) := r in
  wf (p_graph c) typ
  && gens_eqb (sort_dedup (offered_h (p_graph c) (p_anyd c) (p_prims c) (p_table c) typ)) h
  && gens_eqb (sort_dedup (offered_r (p_graph c) (p_table c) typ)) rn.

Definition check_pcase (c : pcase) : bool :=
  wf_table (p_graph c) (p_table c) && forallb (check_request c) (p_requests c).

(* a history on the real TypeSystem: initial graph, operations, the answers it gave *)
Definition hcase := (graph * N * list op * list (option answer))%type.

Definition check_hcase (c : hcase) : bool :=
  let '(g, anyd, ops, answers) := c in
  forall2b opt_answer_eqb (snd (run true anyd {| gr := g; ca := [] |} ops)) answers.

(* ------------------------------------------------------------------------------------------ *)
(* the providers' own lru_cache in front of _get_generators_for.  The cache is cleared by
   clear_generator_cache (called by TestCluster.update_return_type when the generator table
   changes); graph updates cannot reach it (add_subclass_edge knows no provider). *)
Inductive pkind := PHeur | PRand.

Definition offered (k : pkind) (g : graph) (anyd : N) (prims : list cls) (tb : table) (typ : ty) : list gen :=
  match k with
  | PHeur => sort_dedup (offered_h g anyd prims tb typ)
  | PRand => sort_dedup (offered_r g tb typ)
  end.

(* TestCluster.update_return_type(g, ..): _drop_generator under the OLD return type (the key is
   removed when its set becomes empty), add_for_type under the NEW one *)
Fixpoint tb_drop (tb : table) (old : ty) (g : gen) : table :=
  match tb with
  | [] => []
  | e :: r =>
      if ty_eqb (fst e) old then
        let l := filter (fun x => negb (N.eqb x g)) (snd e) in
        (if nonempty l then [(fst e, l)] else []) ++ tb_drop r old g
      else e :: tb_drop r old g
  end.

Fixpoint tb_add (tb : table) (new : ty) (g : gen) : table :=
  match tb with
  | [] => [(new, [g])]
  | e :: r =>
      if ty_eqb (fst e) new then (fst e, if memN g (snd e) then snd e else snd e ++ [g]) :: r
      else e :: tb_add r new g
  end.

Definition tb_update (tb : table) (g : gen) (old new : ty) : table := tb_add (tb_drop tb old g) new g.

Inductive pop :=
| PQuery (typ : ty)                    (* provider._get_generators_for(typ) *)
| PUpdate (g : gen) (old new : ty)     (* update_return_type: drop, clear_generator_cache, add *)
| PTable (tb : table) (clear : bool)   (* the table changed; clear = clear_generator_cache ran *)
| PEdge (p c : cls)                    (* add_subclass_edge on the type system *)
| PClear.                              (* clear_generator_cache *)

Record pstate := { pgr : graph; ptb : table; pca : list (ty * list gen) }.

Fixpoint pcache_get (c : list (ty * list gen)) (t : ty) : option (list gen) :=
  match c with
  | [] => None
  | (k, a) :: r => if ty_eqb t k then Some a else pcache_get r t
  end.

Definition pstep (k : pkind) (anyd : N) (prims : list cls) (s : pstate) (o : pop)
  : pstate * option (list gen) :=
  match o with
  | PQuery typ =>
      match pcache_get (pca s) typ with
      | Some a => (s, Some a)
      | None => let a := offered k (pgr s) anyd prims (ptb s) typ in
                ({| pgr := pgr s; ptb := ptb s; pca := (typ, a) :: pca s |}, Some a)
      end
  | PUpdate g old new => ({| pgr := pgr s; ptb := tb_update (ptb s) g old new; pca := [] |}, None)
  | PTable tb clear => ({| pgr := pgr s; ptb := tb; pca := if clear then [] else pca s |}, None)
  | PEdge p c =>
      if has_edge (pgr s) p c then (s, None)
      else ({| pgr := add_edge (pgr s) p c; ptb := ptb s; pca := pca s |}, None)
  | PClear => ({| pgr := pgr s; ptb := ptb s; pca := [] |}, None)
  end.

Fixpoint prun (k : pkind) (anyd : N) (prims : list cls) (s : pstate) (ops : list pop)
  : pstate * list (option (list gen)) :=
  match ops with
  | [] => (s, [])
  | o :: r =>
      let '(s1, a) := pstep k anyd prims s o in
      let '(s2, l) := prun k anyd prims s1 r in (s2, a :: l)
  end.

Definition pfresh (k : pkind) (anyd : N) (prims : list cls) (s : pstate) : Prop :=
  forall t a, In (t, a) (pca s) -> a = offered k (pgr s) anyd prims (ptb s) t.

(* operations after which the code base invalidates the provider cache *)
Definition disciplined (o : pop) : bool :=
  match o with PTable _ c => c | PEdge _ _ => false | _ => true end.

Definition opt_gens_eqb (a b : option (list gen)) : bool :=
  match a, b with
  | Some x, Some y => gens_eqb x y
  | None, None => true
  | _, _ => false
  end.

(* the generator table after every update_return_type of a history *)
Fixpoint ptables (tb : table) (ops : list pop) : list table :=
  match ops with
  | [] => []
  | PUpdate g old new :: r => let t := tb_update tb g old new in t :: ptables t r
  | PTable t _ :: r => ptables t r
  | _ :: r => ptables tb r
  end.

Definition table_eqb (a b : table) : bool :=
  forall2b (fun x y => ty_eqb (fst x) (fst y) && gens_eqb (sort_dedup (snd x)) (sort_dedup (snd y))) a b.

Record phcase := {
  ph_kind : pkind; ph_graph : graph; ph_anyd : N; ph_prims : list cls; ph_table : table;
  ph_ops : list pop; ph_answers : list (option (list gen));
  ph_tables : list table      (* the real provider's table (keys in dict order) after every update *)
}.

Definition check_phcase (c : phcase) : bool :=
  forall2b opt_gens_eqb
    (snd (prun (ph_kind c) (ph_anyd c) (ph_prims c)
               {| pgr := ph_graph c; ptb := ph_table c; pca := [] |} (ph_ops c)))
    (ph_answers c)
  && forall2b table_eqb (ptables (ph_table c) (ph_ops c)) (ph_tables c).

Inductive case := CProviders (c : pcase) | CHistory (c : hcase) | CPHistory (c : phcase).
Definition check_case (c : case) : bool :=
  match c with CProviders p => check_pcase p | CHistory h => check_hcase h | CPHistory h => check_phcase h end.

End C26.
