(* C33 — executable model of the master side of pynguin's master/worker mode
   (src/pynguin/master_worker/master.py: RunningTask._adjust_search_time_after_crash, _restart,
   get_result; client.py: PynguinClient.run_pynguin's mapping to a ReturnCode).
   Definitions only; proofs are in Proofs/C33.v.

   One call of RunningTask.get_result is a loop "block in recv(); on failure restart; repeat".
   What the successive workers do is the adversary's choice and is given as a list of outcomes:
   the k-th element says what the k-th worker did (delivered a WorkerResult, or died after n/d
   seconds — any exception of recv() counts as death, exactly as `except Exception` does).
   A list that is exhausted while the master still waits yields [Waiting]: the theorems bound the
   length of such lists, which is what "get_result returns for every crash sequence" means.

   Times: maximum_search_time is an int (configuration.py), elapsed is a float, i.e. a rational
   n/d with d > 0.  `int(max(c - n/d, 0.0))` = floor(max(c*d - n, 0) / d).  (The float subtraction
   is exact whenever c < 2^30 and n/d is a multiple of 2^-22 below 2^31, which differences of
   time.time() readings are; the correspondence samples that.) *)
From Coq Require Import List ZArith Bool.
Import ListNotations.
Open Scope Z_scope.

Module C33.

Inductive outcome :=
  | Deliver (rc : option Z)     (* recv() returned WorkerResult(OK, return_code = rc) *)
  | Die (n d : Z).              (* recv() raised; time.time() - start_time = n/d *)

(* RunningTask: task.configuration.stopping.maximum_search_time, _restart_count,
   _force_subprocess_mode, task.configuration.subprocess; umw = config.configuration.use_master_worker *)
Record st := { remaining : Z; restarts : Z; forced : bool; subproc : bool; umw : bool }.

(* _adjust_search_time_after_crash *)
Definition adjust (c n d : Z) : Z :=
  if 0 <? c then Z.max (c * d - n) 0 / d else c.

Inductive event :=
  | EAdjust (c' : Z)                     (* search time in the task's configuration after the adjustment *)
  | ERestart (count : Z) (sub : bool)    (* _start_worker called again: new restart count, subprocess flag *)
  | EAbort.                              (* _restart returned False *)

(* _restart: (restarted?, new state, events) *)
Definition restart (s : st) (n d : Z) : bool * st * list event :=
  let c' := adjust (remaining s) n d in
  if c' <=? 0 then
    (false, {| remaining := c'; restarts := restarts s; forced := forced s; subproc := subproc s; umw := umw s |},
     [EAdjust c'; EAbort])
  else
    let k := restarts s + 1 in
    let force := (1 <=? k) && umw s && negb (forced s) in
    let s' := {| remaining := c'; restarts := k;
                 forced := if force then true else forced s;
                 subproc := if force then true else subproc s;
                 umw := umw s |} in
    (true, s', [EAdjust c'; ERestart k (subproc s')]).

(* WorkerResult as seen by the client *)
Record wresult := { wok : bool;            (* worker_return_code = OK *)
                    wrc : option Z;        (* return_code *)
                    wcount : Z }.          (* restart_count *)

Inductive status := Returned (r : wresult) | Waiting.

(* RunningTask.get_result *)
Fixpoint run (l : list outcome) (s : st) : list event * status * st :=
  match l with
  | [] => ([], Waiting, s)
  | Deliver rc :: _ => ([], Returned {| wok := true; wrc := rc; wcount := restarts s |}, s)
  | Die n d :: r =>
      match restart s n d with
      | (true, s', ev) => let '(ev', res, s'') := run r s' in (ev ++ ev', res, s'')
      | (false, s', ev) => (ev, Returned {| wok := false; wrc := None; wcount := restarts s' |}, s')
      end
  end.

(* ReturnCode: OK = 0, SETUP_FAILED = 1, NO_TESTS_GENERATED = 2, FINAL_METRICS_TRACKING_FAILED = 3 *)
Definition rc_ok : Z := 0.
Definition rc_no_tests : Z := 2.

(* PynguinClient.run_pynguin: match on worker_return_code / return_code *)
Definition client_rc (r : wresult) : Z :=
  if wok r then match wrc r with None => rc_no_tests | Some c => c end else rc_no_tests.

(* well-formed adversary: every crash took a positive amount of time *)
Definition wf_outcome (o : outcome) : Prop :=
  match o with Die n d => 0 < n /\ 0 < d | Deliver _ => True end.

(* number of outcomes get_result consumed before it returned *)
Fixpoint consumed (l : list outcome) (s : st) : nat :=
  match l with
  | [] => O
  | Deliver _ :: _ => 1%nat
  | Die n d :: r =>
      match restart s n d with
      | (true, s', _) => S (consumed r s')
      | (false, _, _) => 1%nat
      end
  end.

(* ---- correspondence ------------------------------------------------------------------------ *)
Definition eqb_optZ (a b : option Z) : bool :=
  match a, b with
  | None, None => true
  | Some x, Some y => Z.eqb x y
  | _, _ => false
  end.

Definition eqb_event (a b : event) : bool :=
  match a, b with
  | EAdjust x, EAdjust y => Z.eqb x y
  | ERestart k s, ERestart k' s' => Z.eqb k k' && Bool.eqb s s'
  | EAbort, EAbort => true
  | _, _ => false
  end.

Fixpoint eqb_events (a b : list event) : bool :=
  match a, b with
  | [], [] => true
  | x :: a', y :: b' => eqb_event x y && eqb_events a' b'
  | _, _ => false
  end.

(* what the harness observed on the real RunningTask / client:
   initial (search time, subprocess flag, use_master_worker), the workers' outcomes, the events,
   the WorkerResult (None while still waiting), the final search time / subprocess flag in the
   task's configuration, and the client's return code (if the client ran). *)
Record case := {
  c_time : Z; c_sub : bool; c_umw : bool;
  c_outcomes : list outcome;
  c_events : list event;
  c_result : option (bool * option Z * Z);
  c_final_time : Z; c_final_sub : bool;
  c_client : option Z }.

Definition init (c : case) : st :=
  {| remaining := c_time c; restarts := 0; forced := false; subproc := c_sub c; umw := c_umw c |}.

Definition check_case (c : case) : bool :=
  let '(ev, res, s') := run (c_outcomes c) (init c) in
  eqb_events ev (c_events c)
  && Z.eqb (remaining s') (c_final_time c)
  && Bool.eqb (subproc s') (c_final_sub c)
  && match res, c_result c with
     | Waiting, None => match c_client c with None => true | Some _ => false end
     | Returned r, Some (ok, rc, k) =>
         Bool.eqb (wok r) ok && eqb_optZ (wrc r) rc && Z.eqb (wcount r) k
         && match c_client c with None => true | Some x => Z.eqb (client_rc r) x end
     | _, _ => false
     end.

End C33.
