(* Correspondence cases for C10: the implementation's answers are recorded by the harness as exact
   rationals (float.as_integer_ratio); the model must agree up to binary64 rounding and exactly on
   the zero / non-zero class and on every boolean verdict. *)
From Coq Require Import List ZArith QArith Bool Qabs.
From Verif Require Import Models.C10.
Import ListNotations.
Import C10.
Open Scope Q_scope.

Module C10Corr.

Definition eps : Q := 1 # 1000000000.
Definition qclose (impl model : Q) : bool :=
  Qle_bool (Qabs (impl - model)) (eps * (1 + Qabs model)) &&
  Bool.eqb (Qeq_bool impl 0) (Qeq_bool model 0).

Fixpoint alookup (l : list (Z * Z)) (k : Z) : option Z :=
  match l with [] => None | (k', v) :: r => if Z.eqb k k' then Some v else alookup r k end.

Record goal_obs := {
  g_pred : Z; g_value : bool; g_code : Z; g_diameter : Z; g_paths : list (Z * Z);
  g_fitness : Q; g_covered : bool;
}.

Record suite_case := {
  s_trace : trace; s_reg : registry; s_ec : list Z; s_et : list Z; s_ef : list Z;
  s_valid : bool;                 (* the harness claims the trace is valid; checked here *)
  s_fitness : Q; s_covered : bool; s_bcov : Q; s_lcov : Q; s_lcovd : bool; s_ccovd : bool;
  s_lfit : Z; s_cfit : Z; s_ccov : Q; s_norm : list (dist * Q);
  s_goals : list goal_obs;
  s_line_goals : list (Z * bool);     (* line id, LineCoverageGoal.is_covered *)
  s_code_goals : list (Z * bool * Q);  (* branch-less code object id, is_covered, fitness *)
}.

Definition check_goal (t : trace) (g : goal_obs) : bool :=
  qclose (g_fitness g)
         (branch_goal_fitness t (g_pred g) (g_value g) (g_code g) (g_diameter g) (alookup (g_paths g))) &&
  Bool.eqb (g_covered g) (branch_goal_covered t (g_pred g) (g_value g)).

Definition check_case (c : suite_case) : bool :=
  let t := s_trace c in let r := s_reg c in
  Bool.eqb (s_valid c) (valid t r && registry_wf r) &&
  qclose (s_fitness c) (branch_fitness_ex t r (s_ec c) (s_et c) (s_ef c)) &&
  Bool.eqb (s_covered c) (branch_is_covered_ex t r (s_ec c) (s_et c) (s_ef c)) &&
  qclose (s_bcov c) (branch_coverage t r) &&
  qclose (s_lcov c) (line_coverage t r) &&
  Bool.eqb (s_lcovd c) (line_is_covered t r) &&
  Bool.eqb (s_ccovd c) (checked_is_covered t r) &&
  Z.eqb (s_lfit c) (line_fitness t r) &&
  Z.eqb (s_cfit c) (checked_fitness t r) &&
  qclose (s_ccov c) (checked_coverage t r) &&
  forallb (fun dq => qclose (snd dq) (normalise (fst dq))) (s_norm c) &&
  forallb (check_goal t) (s_goals c) &&
  forallb (fun lg => Bool.eqb (snd lg) (line_goal_covered t (fst lg))) (s_line_goals c) &&
  forallb (fun cg => Bool.eqb (snd (fst cg)) (branchless_goal_covered t (fst (fst cg))) &&
                     qclose (snd cg) (branchless_goal_fitness t (fst (fst cg)))) (s_code_goals c).

End C10Corr.
