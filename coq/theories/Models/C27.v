(* C27 — executable model of the visibility rules of pynguin.analyses.module
   (__is_private, __is_protected, __is_name_mangled, __should_skip_by_visibility) and of the filter
   that decides which callables of a module become "accessible objects under test".
   Names are lists of character codes.  Definitions only. *)
From Coq Require Import List NArith Bool.
Import ListNotations.
Open Scope N_scope.

Module C27.

Definition name := list N.
Definition us : N := 95.     (* '_' *)

Fixpoint startswith (s p : name) : bool :=
  match p, s with
  | [], _ => true
  | c :: p', d :: s' => (c =? d) && startswith s' p'
  | _ :: _, [] => false
  end.
Definition endswith (s p : name) : bool := startswith (rev s) (rev p).

(* str.startswith / str.endswith of the two literals the code uses *)
Definition is_protected (n : name) : bool := startswith n [us] && negb (startswith n [us; us]).
Definition is_private (n : name) : bool := startswith n [us; us] && negb (endswith n [us; us]).

(* character classes of  ^_[A-Za-z][A-Za-z0-9]*__\w+$  (re, str pattern: \w is Unicode aware; every
   non-ASCII character of an identifier is taken to be a word character) *)
Definition is_upper (c : N) := (65 <=? c) && (c <=? 90).
Definition is_lower (c : N) := (97 <=? c) && (c <=? 122).
Definition is_digit (c : N) := (48 <=? c) && (c <=? 57).
Definition is_letter (c : N) := is_upper c || is_lower c.
Definition is_alnum (c : N) := is_letter c || is_digit c.
Definition is_word (c : N) := is_alnum c || (c =? us) || (128 <=? c).

(* after "_" and a letter: skip [A-Za-z0-9]*, then "__", then \w+ up to the end.  The class
   [A-Za-z0-9] does not contain '_', so the end of the run is forced and no backtracking is needed. *)
Fixpoint after_run (s : name) : bool :=
  match s with
  | c :: r =>
      if is_alnum c then after_run r
      else match s with
           | a :: b :: d :: t => (a =? us) && (b =? us) && forallb is_word (d :: t)
           | _ => false
           end
  | [] => false
  end.
Definition re_mangled (n : name) : bool :=
  match n with
  | a :: b :: r => (a =? us) && is_letter b && after_run r
  | _ => false
  end.
Definition is_name_mangled (n : name) : bool := re_mangled n && negb (endswith n [us; us]).

Inductive visibility := PUBLIC | PROTECTED | ALL.

Definition should_skip (n : name) (add_to_test : bool) (v : visibility) : bool :=
  if negb add_to_test then is_private n || is_protected n
  else match v with
       | ALL => false
       | PROTECTED => is_private n || is_name_mangled n
       | PUBLIC => is_private n || is_protected n
       end.

(* ---- name classes of the property text --------------------------------------------------------- *)
Definition c_public (n : name) : bool := negb (startswith n [us]).
Definition c_dunder (n : name) : bool := startswith n [us; us] && endswith n [us; us].
Definition c_private (n : name) : bool := startswith n [us; us] && negb (endswith n [us; us]).
Definition c_mangled (n : name) : bool := is_name_mangled n.
Definition c_protected (n : name) : bool :=
  startswith n [us] && negb (startswith n [us; us]) && negb (is_name_mangled n).

Definition eligible_name (v : visibility) (n : name) : bool :=
  match v with
  | ALL => true
  | PROTECTED => c_public n || c_dunder n || c_protected n
  | PUBLIC => c_public n || c_dunder n
  end.

(* ---- the members of a module and the filter of the analysis ------------------------------------- *)
Inductive mkind := Function | Constructor | Method.
Record member := {
  m_kind : mkind;
  m_name : name;            (* function: last component of __qualname__; method: name in the class;
                               constructor / enum: the class name *)
  m_own : bool;             (* the defining module (__module__) is the module under test *)
  m_reached : bool;         (* the analysis reaches the object: module attribute that is a function or
                               class, method returned by inspect.getmembers(cls, isfunction) that is
                               defined in that class and is not __init__, non-abstract class / enum
                               with fields *)
  m_async : bool;           (* coroutine / async generator function *)
  m_listed : bool;          (* fully-qualified name listed in ignore_methods *)
  m_main_test : bool        (* function whose __qualname__ starts with "main" or "test" *)
}.

(* __analyse_class: the constructor (or enum) of a class is withheld when the class is abstract or IS
   one of the builtin collection / primitive types (Pynguin generates those values itself).  A class
   of the module under test is never a builtin type, even when it derives from one. *)
Definition ctor_withheld (is_abstract in_collections in_primitives : bool) : bool :=
  is_abstract || in_collections || in_primitives.

Definition is_function (m : member) := match m_kind m with Function => true | _ => false end.
Definition is_constructor (m : member) := match m_kind m with Constructor => true | _ => false end.

(* _is_blacklisted (functions) / __is_ignored_method (methods, fix C27-1) *)
Definition blacklisted (m : member) : bool :=
  match m_kind m with
  | Function => m_main_test m || m_listed m
  | Method => m_listed m
  | Constructor => false
  end.

(* add_to_test = defining module is the module under test; classes are never filtered by name *)
Definition under_test (v : visibility) (m : member) : bool :=
  m_own m && m_reached m && negb (blacklisted m) && negb (m_async m)
  && (is_constructor m || negb (should_skip (m_name m) (m_own m) v)).

Definition analyse (v : visibility) (ms : list member) : list member := filter (under_test v) ms.

(* what the property asks for *)
Definition eligible_member (v : visibility) (m : member) : bool :=
  m_own m && eligible_name v (m_name m) && negb (m_listed m).

(* ---- correspondence cases ------------------------------------------------------------------------- *)
Fixpoint list_beq {A} (eq : A -> A -> bool) (a b : list A) : bool :=
  match a, b with
  | [], [] => true
  | x :: r, y :: s => eq x y && list_beq eq r s
  | _, _ => false
  end.

(* predicate table for one name: the real functions' answers *)
Record name_obs := { o_name : name; o_private : bool; o_protected : bool; o_mangled : bool;
                     o_skip : list bool (* [sut,PUBLIC; sut,PROTECTED; sut,ALL; dep,PUBLIC; dep,PROTECTED; dep,ALL] *) }.
Definition check_name (o : name_obs) : bool :=
  let n := o_name o in
  Bool.eqb (is_private n) (o_private o) && Bool.eqb (is_protected n) (o_protected o)
  && Bool.eqb (is_name_mangled n) (o_mangled o)
  && list_beq Bool.eqb
       [should_skip n true PUBLIC; should_skip n true PROTECTED; should_skip n true ALL;
        should_skip n false PUBLIC; should_skip n false PROTECTED; should_skip n false ALL] (o_skip o).

(* one module: the abstracted members (from ast + inspect) with the real cluster's verdict *)
Record case := { c_vis : visibility; c_members : list (member * bool) }.
Definition check_case (c : case) : bool :=
  forallb (fun p : member * bool => Bool.eqb (under_test (c_vis c) (fst p)) (snd p)) (c_members c).

End C27.
