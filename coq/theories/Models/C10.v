(* C10 / C11 / C35 — execution traces, registries, and the pure metric functions of
   pynguin.ga.fitness_metrics, coveragegoals, controlflowdistance and ExecutionTrace.merge.
   Definitions only.  Distances live in Q ∪ {∞}: the implementation computes in binary64; only order
   facts are transferred (see DESIGN.md C10 "Floats"). *)
From Coq Require Import List ZArith QArith Bool.
Import ListNotations.
Open Scope Z_scope.

Module C10.

(* ---------- Python containers ---------- *)
Definition memZ (x : Z) (l : list Z) : bool := existsb (Z.eqb x) l.

Section Dict.
  Context {V : Type}.
  Definition dict := list (Z * V).
  Fixpoint dget (d : dict) (k : Z) : option V :=
    match d with
    | [] => None
    | (k', v) :: r => if Z.eqb k k' then Some v else dget r k
    end.
  Definition dmem (d : dict) (k : Z) : bool := match dget d k with Some _ => true | None => false end.
  Definition keys (d : dict) : list Z := map fst d.
  Definition values (d : dict) : list V := map snd d.
  (* d[k] = v : keeps the position of an existing key, appends a new one *)
  Fixpoint dset (d : dict) (k : Z) (v : V) : dict :=
    match d with
    | [] => [(k, v)]
    | (k', v') :: r => if Z.eqb k k' then (k', v) :: r else (k', v') :: dset r k v
    end.
End Dict.
Arguments dict V : clear implicits.

(* ---------- distances ---------- *)
Inductive dist := Fin (q : Q) | Inf.

Definition dist_is_zero (d : dist) : bool := match d with Fin q => Qeq_bool q 0 | Inf => false end.
Definition dist_le (a b : dist) : bool :=
  match a, b with
  | _, Inf => true
  | Inf, Fin _ => false
  | Fin x, Fin y => Qle_bool x y
  end.
Definition dist_min (a b : dist) : dist := if dist_le b a then b else a.   (* Python: min(a, b) *)
Definition dist_nonneg (d : dist) : bool := match d with Fin q => Qle_bool 0 q | Inf => true end.

(* fitness_metrics.normalise (for non-negative arguments; negative ones raise in Python) *)
Definition normalise (d : dist) : Q :=
  match d with
  | Inf => 1
  | Fin q => q / (1 + q)
  end.

(* ---------- registry (SubjectProperties) and trace (ExecutionTrace), coverage projection ------- *)
Record registry := {
  branchless : list Z;          (* ids of branch-less code objects *)
  predicates : list Z;          (* ids of existing predicates *)
  lines : list Z;               (* ids of existing lines *)
}.

Record trace := {
  exec_code : list Z;           (* executed_code_objects *)
  exec_pred : dict Z;           (* executed_predicates : id -> count *)
  true_d : dict dist;
  false_d : dict dist;
  cov_lines : list Z;           (* covered_line_ids *)
  chk_lines : list Z;           (* checked_lines *)
}.

(* ---------- suite-level metric functions ---------- *)
Definition predicate_fitness (p : Z) (bd : dict dist) (t : trace) : Q :=
  match dget bd p with
  | Some d => if dist_is_zero d then 0 else
      match dget (exec_pred t) p with
      | Some c => if 2 <=? c then normalise d else 1
      | None => 1
      end
  | None =>
      (* Python would raise KeyError if the predicate was executed twice without a distance;
         excluded by trace validity (same key sets) *)
      1
  end%Q.

Definition count_if {A} (f : A -> bool) (l : list A) : Z := Z.of_nat (length (filter f l)).

Definition code_objects_missing (t : trace) (r : registry) (ex_code : list Z) : Z :=
  count_if (fun c => negb (memZ c (exec_code t)) && negb (memZ c ex_code)) (branchless r).

Definition branch_fitness_ex (t : trace) (r : registry) (ex_code ex_true ex_false : list Z) : Q :=
  (inject_Z (code_objects_missing t r ex_code) +
   fold_left (fun acc p =>
                let acc1 := if memZ p ex_true then acc else acc + predicate_fitness p (true_d t) t in
                if memZ p ex_false then acc1 else acc1 + predicate_fitness p (false_d t) t)
             (predicates r) 0)%Q.

Definition has_zero (bd : dict dist) (p : Z) : bool :=     (* (p, 0.0) in bd.items() *)
  match dget bd p with Some d => dist_is_zero d | None => false end.

Definition branch_is_covered_ex (t : trace) (r : registry) (ex_code ex_true ex_false : list Z) : bool :=
  if existsb (fun c => negb (memZ c (exec_code t)) && negb (memZ c ex_code)) (branchless r) then false
  else forallb (fun p => (memZ p ex_true || has_zero (true_d t) p) &&
                         (memZ p ex_false || has_zero (false_d t) p)) (predicates r).

Definition branch_fitness t r := branch_fitness_ex t r [] [] [].
Definition branch_is_covered t r := branch_is_covered_ex t r [] [] [].

Definition branch_covered_count (t : trace) (r : registry) : Z :=
  count_if (fun c => memZ c (branchless r)) (exec_code t)
  + count_if dist_is_zero (values (true_d t)) + count_if dist_is_zero (values (false_d t)).
Definition branch_existing_count (r : registry) : Z :=
  Z.of_nat (length (branchless r)) + 2 * Z.of_nat (length (predicates r)).

Definition ratio (covered existing : Z) : Q :=
  if existing =? 0 then 1 else (inject_Z covered / inject_Z existing)%Q.

Definition branch_coverage t r : Q := ratio (branch_covered_count t r) (branch_existing_count r).
Definition line_coverage (t : trace) (r : registry) : Q :=
  ratio (Z.of_nat (length (cov_lines t))) (Z.of_nat (length (lines r))).
Definition line_fitness (t : trace) (r : registry) : Z :=
  Z.of_nat (length (lines r)) - Z.of_nat (length (cov_lines t)).
Definition line_is_covered (t : trace) (r : registry) : bool :=
  Nat.eqb (length (cov_lines t)) (length (lines r)).
Definition checked_coverage (t : trace) (r : registry) : Q :=
  ratio (Z.of_nat (length (chk_lines t))) (Z.of_nat (length (lines r))).
Definition checked_fitness (t : trace) (r : registry) : Z :=
  Z.of_nat (length (lines r)) - Z.of_nat (length (chk_lines t)).
Definition checked_is_covered (t : trace) (r : registry) : bool :=
  Nat.eqb (length (chk_lines t)) (length (lines r)).

(* ---------- goal-level functions (coveragegoals.py, controlflowdistance.py) ---------- *)
Definition line_goal_covered (t : trace) (line : Z) : bool := memZ line (cov_lines t).
Definition line_goal_fitness (t : trace) (line : Z) : Q := if line_goal_covered t line then 0 else 1.
Definition checked_goal_covered (t : trace) (line : Z) : bool := memZ line (chk_lines t).
Definition checked_goal_fitness (t : trace) (line : Z) : Q := if checked_goal_covered t line then 0 else 1.

Definition branchless_goal_covered (t : trace) (c : Z) : bool := memZ c (exec_code t).
Definition branchless_goal_fitness (t : trace) (c : Z) : Q := if memZ c (exec_code t) then 0 else 1.

(* BranchGoal.is_covered: predicate executed and isclose(distance, 0.0) (= distance == 0) *)
Definition branch_goal_covered (t : trace) (p : Z) (value : bool) : bool :=
  dmem (exec_pred t) p && has_zero (if value then true_d t else false_d t) p.

Definition dget_inf (bd : dict dist) (p : Z) : dist := match dget bd p with Some d => d | None => Inf end.

Definition dsub_z (d : dict Z) (k : Z) : Z := match dget d k with Some c => c | None => 0 end.

Definition dist_add (a b : dist) : dist :=
  match a, b with Fin x, Fin y => Fin (x + y) | _, _ => Inf end.

(* ControlFlowDistance = (approach level, branch distance), ordered lexicographically *)
Definition cfd := (Z * dist)%type.
Definition cfd_lt (a b : cfd) : bool :=
  (fst a <? fst b) || ((fst a =? fst b) && negb (dist_le (snd b) (snd a))).
Definition cfd_min (a b : cfd) : cfd := if cfd_lt b a then b else a.   (* Python: min(a, b) *)
Definition cfd_fitness (c : cfd) : Q := (inject_Z (fst c) + normalise (snd c))%Q.

(* get_non_root_control_flow_distance.  The CFG/CDG enter through [diameter] and [path_len]
   (shortest CDG path length from the node of an executed predicate of the same code object to the
   target node; None = no path / other code object). *)
Definition branch_goal_distance (t : trace) (p : Z) (value : bool)
           (code_of_p : Z) (diameter : Z) (path_len : Z -> option Z) : cfd :=
  if negb (memZ code_of_p (exec_code t)) then (diameter, Fin 0)
  else if dmem (exec_pred t) p then
    (0, dget_inf (if value then true_d t else false_d t) p)
  else
    fold_left (fun acc e =>
                 match path_len e with
                 | Some n => cfd_min acc (n, dist_add (dget_inf (true_d t) e) (dget_inf (false_d t) e))
                 | None => acc
                 end)
              (keys (exec_pred t)) (diameter, Fin 0).

Definition branch_goal_fitness t p value code_of_p diameter path_len : Q :=
  cfd_fitness (branch_goal_distance t p value code_of_p diameter path_len).

(* ---------- ExecutionTrace.merge (coverage projection) ---------- *)
Definition add_set (l : list Z) (x : Z) : list Z := if memZ x l then l else l ++ [x].
Definition update_set (l xs : list Z) : list Z := fold_left add_set xs l.

Definition merge_counts (a b : dict Z) : dict Z :=
  fold_left (fun acc kv => dset acc (fst kv) (match dget acc (fst kv) with Some c => c | None => 0 end + snd kv)) b a.
Definition merge_min (a b : dict dist) : dict dist :=
  fold_left (fun acc kv => dset acc (fst kv) (dist_min (dget_inf acc (fst kv)) (snd kv))) b a.

Definition merge (a b : trace) : trace := {|
  exec_code := update_set (exec_code a) (exec_code b);
  exec_pred := merge_counts (exec_pred a) (exec_pred b);
  true_d := merge_min (true_d a) (true_d b);
  false_d := merge_min (false_d a) (false_d b);
  cov_lines := update_set (cov_lines a) (cov_lines b);
  chk_lines := update_set (chk_lines a) (chk_lines b);
|}.

Definition empty_trace : trace :=
  {| exec_code := []; exec_pred := []; true_d := []; false_d := []; cov_lines := []; chk_lines := [] |}.

(* analyze_results *)
Definition merge_all (ts : list trace) : trace := fold_left merge ts empty_trace.

(* ---------- validity: what validate_execution_trace + C04 guarantee ---------- *)
Fixpoint nodupb (l : list Z) : bool :=
  match l with [] => true | x :: r => negb (memZ x r) && nodupb r end.
Definition subsetb (a b : list Z) : bool := forallb (fun x => memZ x b) a.

Definition registry_wf (r : registry) : bool :=
  nodupb (branchless r) && nodupb (predicates r) && nodupb (lines r).

Definition valid (t : trace) (r : registry) : bool :=
  nodupb (exec_code t) && nodupb (cov_lines t) && nodupb (chk_lines t) &&
  subsetb (cov_lines t) (lines r) && subsetb (chk_lines t) (lines r) &&
  nodupb (keys (exec_pred t)) && subsetb (keys (exec_pred t)) (predicates r) &&
  forallb (fun k => Z.eqb (fst k) (snd k)) (combine (keys (true_d t)) (keys (exec_pred t))) &&
  Nat.eqb (length (true_d t)) (length (exec_pred t)) &&
  forallb (fun k => Z.eqb (fst k) (snd k)) (combine (keys (false_d t)) (keys (exec_pred t))) &&
  Nat.eqb (length (false_d t)) (length (exec_pred t)) &&
  forallb (fun c => 1 <=? c) (values (exec_pred t)) &&
  forallb dist_nonneg (values (true_d t)) && forallb dist_nonneg (values (false_d t)).

End C10.
