(* C22 — Minimization never reduces coverage.

   Executable model of
     src/pynguin/ga/postprocess.py : get_assertion_protected_variables,
        Forward/BackwardIterativeMinimizationVisitor, TestSuiteMinimizationVisitor,
        CombinedMinimizationVisitor, EmptyTestCaseRemover, TestCasePostProcessor
     src/pynguin/testcase/testcase.py : forward_dependencies /
        remove_statement_with_forward_dependencies, remove_unused_variables (after fix C19)
     src/pynguin/generator.py : _minimize (compare-and-restore wrapper)
   as the code is AFTER the proposed fixes C22-1-stale-suite-cache, C22-2-restore-coverage-log,
   C22-3-check-emitted-suite, C22-4-combined-protected, C22-5-protected-dotted-source (and
   C19-keep-assertions of the C19 check).

   A test case is a list of statements; a suite a list of test cases.  Coverage is an abstract,
   deterministic oracle [cov : suite -> list Q] (one value per optimised coverage function); the
   coverage of one test case is [cov [t]] (what [_coverages] builds).  Every Python [while] loop is
   the generic [iterT step fuel]: [step] returns [None] exactly when the loop condition is false;
   the fuel handed to it is (a bound on) the loop's decreasing measure plus one, and Proofs/C22.v
   shows that the exit condition is reached within that fuel (termination) so the fuel never cuts a
   loop short. *)
From Coq Require Import List ZArith Bool QArith.
Import ListNotations.
Close Scope Q_scope.
Open Scope nat_scope.

Module C22.

(* ---------------------------------------------------------------- generic while loop *)
Section Iter.
  Context {A : Type}.
  Variable step : A -> option A.
  Fixpoint iterT (fuel : nat) (a : A) : A :=
    match fuel with
    | O => a
    | S f => match step a with None => a | Some a' => iterT f a' end
    end.
End Iter.

(* ---------------------------------------------------------------- statements *)
(* [code]  : identity of the rendered statement (interned source text)
   [ecode] : identity of the statement after _transform_assign_to_expr ("v = e" -> "e")
   [can_strip] : the transform changes the node (single-target Assign)
   [bound] : Statement.bound_variable; [uses] : Statement.used_variables()
   [asrc]  : root names of the sources of the statement's ReferenceAssertions *)
Record stmt := mkStmt {
  code : Z; ecode : Z; can_strip : bool; bound : option Z; uses : list Z; asrc : list Z }.
Definition tcase := list stmt.
Definition suite := list tcase.
Definition oracle := suite -> list Q.

Definition memZ (x : Z) (l : list Z) : bool := existsb (Z.eqb x) l.
Definition removeZ (x : Z) (l : list Z) : list Z := filter (fun y => negb (Z.eqb x y)) l.

Definition strip (s : stmt) : stmt := mkStmt (ecode s) (ecode s) (can_strip s) None (uses s) (asrc s).

(* ---------------------------------------------------------------- TestCase.remove_unused_variables
   (backward pass; fix C19: assertion sources are alive, a rewritten statement keeps its
   assertions).  Returns the new statements and the alive set before the first statement. *)
Fixpoint ruv_aux (t : tcase) : tcase * list Z :=
  match t with
  | [] => ([], [])
  | s :: r =>
    let '(r', A) := ruv_aux r in
    let A1 := asrc s ++ A in
    match bound s with
    | Some x =>
        if memZ x A1 then (s :: r', uses s ++ removeZ x A1)
        else ((if can_strip s then strip s else s) :: r', uses s ++ A1)
    | None => (s :: r', uses s ++ A1)
    end
  end.
Definition ruv (t : tcase) : tcase := fst (ruv_aux t).

(* ---------------------------------------------------------------- get_assertion_protected_variables *)
Definition direct (t : tcase) : list Z := flat_map asrc t.

(* [u] is read by a statement that binds a protected variable *)
Definition needed (t : tcase) (P : list Z) (u : Z) : bool :=
  existsb (fun s => match bound s with
                    | Some x => memZ x P && memZ u (uses s)
                    | None => false end) t.

(* state: protected so far, candidates not yet protected; one round of the [while changed] loop *)
Definition prot_step (t : tcase) (st : list Z * list Z) : option (list Z * list Z) :=
  let '(P, R) := st in
  match filter (needed t P) R with
  | [] => None
  | new => Some (new ++ P, filter (fun u => negb (needed t P u)) R)
  end.

Definition protected_set (t : tcase) : list Z :=
  let R0 := flat_map uses t in
  fst (iterT (prot_step t) (S (length R0)) (direct t, R0)).

Definition protb (P : list Z) (s : stmt) : bool :=
  match bound s with Some x => memZ x P | None => false end.

(* ---------------------------------------------------------------- forward dependencies *)
Definition meets (us T : list Z) : bool := existsb (fun u => memZ u T) us.

(* one [for i in range(index + 1, size)] scan: statements after the root with a flag "in closure";
   the tainted names grow during the scan, as in the code *)
Fixpoint fd_pass (T : list Z) (rest : list (stmt * bool)) : list Z * list (stmt * bool) * bool :=
  match rest with
  | [] => (T, [], false)
  | (s, true) :: r => let '(T', r', ch) := fd_pass T r in (T', (s, true) :: r', ch)
  | (s, false) :: r =>
      if meets (uses s) T then
        let T1 := match bound s with
                  | Some x => if memZ x T then T else x :: T
                  | None => T end in
        let '(T', r', _) := fd_pass T1 r in (T', (s, true) :: r', true)
      else
        let '(T', r', ch) := fd_pass T r in (T', (s, false) :: r', ch)
  end.

Definition fd_step (st : list Z * list (stmt * bool)) : option (list Z * list (stmt * bool)) :=
  let '(T, rest) := st in
  let '(T', r', ch) := fd_pass T rest in
  if ch then Some (T', r') else None.

Definition unmarked (rest : list (stmt * bool)) : nat :=
  length (filter (fun p => negb (snd p)) rest).

Definition fd_close (root : stmt) (rest : tcase) : list (stmt * bool) :=
  let T0 := match bound root with Some x => [x] | None => [] end in
  snd (iterT fd_step (S (length rest)) (T0, map (fun s => (s, false)) rest)).

(* TestCase.remove_statement_with_forward_dependencies(i) *)
Definition remove_fwd (t : tcase) (i : nat) : tcase :=
  match skipn i t with
  | [] => t
  | root :: rest =>
      firstn i t ++ map fst (filter (fun p => negb (snd p)) (fd_close root rest))
  end.

(* ---------------------------------------------------------------- comparing coverage vectors:
   all(map(math.isclose, a, b)) — zip semantics; isclose on coverage ratios is equality *)
Definition same (a b : list Q) : bool :=
  forallb (fun p => Qeq_bool (fst p) (snd p)) (combine a b).

Fixpoint list_eqb {A} (eqb : A -> A -> bool) (a b : list A) : bool :=
  match a, b with
  | [], [] => true
  | x :: a', y :: b' => eqb x y && list_eqb eqb a' b'
  | _, _ => false
  end.

(* TestCase.__eq__: equality of the rendered code *)
Definition tc_eqb (a b : tcase) : bool := list_eqb Z.eqb (map code a) (map code b).

(* list.remove(x): drops the first element equal to x *)
Fixpoint remove_first (t : tcase) (s : suite) : suite :=
  match s with
  | [] => []
  | a :: r => if tc_eqb a t then r else a :: remove_first t r
  end.

Fixpoint replace_nth {A} (n : nat) (x : A) (l : list A) : list A :=
  match l, n with
  | [], _ => []
  | _ :: r, O => x :: r
  | a :: r, S m => a :: replace_nth m x r
  end.

Definition remove_empty (s : suite) : suite := filter (fun t => negb (Nat.eqb (length t) 0)) s.

Inductive strategy := CASE | SUITE | COMBINED.
Inductive direction := FORWARD | BACKWARD.

Section Visitors.
  Variable cov : oracle.
  Definition cov1 (t : tcase) : list Q := cov [t].

  (* ------------------------------------------------------------ ForwardIterativeMinimizationVisitor
     inner [while i < test_case.size()] : state (test case, i, statements_changed) *)
  Definition fwd_step (P : list Z) (orig : list Q) (st : tcase * nat * bool)
    : option (tcase * nat * bool) :=
    let '(t, i, ch) := st in
    match nth_error t i with
    | None => None
    | Some s =>
        if protb P s then Some (t, S i, ch)
        else
          let c := remove_fwd t i in
          if same orig (cov1 c) then Some (c, i, true) else Some (t, S i, ch)
    end.
  Definition fwd_round (P : list Z) (orig : list Q) (t : tcase) : tcase * nat * bool :=
    iterT (fwd_step P orig) (S (length t)) (t, 0, false).
  (* outer [while statements_changed] *)
  Definition fwd_outer_step (P : list Z) (orig : list Q) (t : tcase) : option tcase :=
    let '(t', _, ch) := fwd_round P orig t in if ch then Some t' else None.
  Definition forward_visit (t : tcase) : tcase :=
    iterT (fwd_outer_step (protected_set t) (cov1 t)) (S (length t)) t.

  (* ------------------------------------------------------------ BackwardIterativeMinimizationVisitor
     inner [while i >= 0] with [break] after the first removal; k = i + 1 *)
  Fixpoint bwd_scan (P : list Z) (orig : list Q) (k : nat) (t : tcase) : option tcase :=
    match k with
    | O => None
    | S i =>
        match nth_error t i with
        | None => bwd_scan P orig i t
        | Some s =>
            if protb P s then bwd_scan P orig i t
            else
              let c := remove_fwd t i in
              if same orig (cov1 c) then Some c else bwd_scan P orig i t
        end
    end.
  (* outer [while statements_changed and test_case.size() > 0] *)
  Definition bwd_step (P : list Z) (orig : list Q) (t : tcase) : option tcase :=
    match t with [] => None | _ => bwd_scan P orig (length t) t end.
  Definition backward_visit (t : tcase) : tcase :=
    iterT (bwd_step (protected_set t) (cov1 t)) (S (length t)) t.

  (* TestCasePostProcessor([UnusedStatementsTestCaseVisitor, iterative visitor]) on one test *)
  Definition case_visit (d : direction) (t : tcase) : tcase :=
    let t1 := ruv t in
    match d with FORWARD => forward_visit t1 | BACKWARD => backward_visit t1 end.

  (* ------------------------------------------------------------ TestSuiteMinimizationVisitor *)
  Definition suite_step (orig : list Q) (st : suite * nat) : option (suite * nat) :=
    let '(s, i) := st in
    match nth_error s i with
    | None => None
    | Some t =>
        if Nat.eqb (length s) 1 then None
        else
          let c := remove_first t s in
          if same orig (cov c) then Some (c, i) else Some (s, S i)
    end.
  Definition suite_visit (s : suite) : suite :=
    if Nat.leb (length s) 1 then s
    else fst (iterT (suite_step (cov s)) (S (length s)) (s, 0)).

  (* ------------------------------------------------------------ CombinedMinimizationVisitor
     (after fix C22-combined-protected: protected sets computed once, up front) *)
  Definition comb_step (orig : list Q) (idx : nat) (P : list Z) (st : suite * nat * bool)
    : option (suite * nat * bool) :=
    let '(s, i, ch) := st in
    match nth_error s idx with
    | None => None
    | Some t =>
        match nth_error t i with
        | None => None
        | Some x =>
            if protb P x then Some (s, S i, ch)
            else
              let c := replace_nth idx (remove_fwd t i) s in
              if same orig (cov c) then Some (c, i, true) else Some (s, S i, ch)
        end
    end.
  Definition comb_test (orig : list Q) (idx : nat) (P : list Z) (s : suite) (ch : bool)
    : suite * bool :=
    let n := match nth_error s idx with Some t => length t | None => O end in
    let '(s', _, ch') := iterT (comb_step orig idx P) (S n) (s, 0, ch) in (s', ch').
  (* [for test_case_idx, ... in enumerate(...)] *)
  Fixpoint comb_tests (orig : list Q) (Ps : list (list Z)) (idx : nat) (s : suite) (ch : bool)
    : suite * bool :=
    match Ps with
    | [] => (s, ch)
    | P :: Ps' =>
        let '(s', ch') := comb_test orig idx P s ch in comb_tests orig Ps' (S idx) s' ch'
    end.
  Definition comb_outer_step (orig : list Q) (Ps : list (list Z)) (s : suite) : option suite :=
    let '(s', ch) := comb_tests orig Ps 0 s false in if ch then Some s' else None.
  Definition combined_visit (s : suite) : suite :=
    iterT (comb_outer_step (cov s) (map protected_set s)) (S (length (concat s))) s.

  (* ------------------------------------------------------------ generator._minimize
     [s0] is the suite after ExceptionTruncation; the cached "original" coverage is cov s0. *)
  Definition run_strategy (st : strategy) (d : direction) (s : suite) : suite :=
    match st with
    | COMBINED => combined_visit s
    | CASE => map (case_visit d) s
    | SUITE => suite_visit (map (case_visit d) s)
    end.
  (* the suite whose coverage is checked: empty test cases are dropped first
     (fix C22-3-check-emitted-suite) *)
  Definition candidate (st : strategy) (d : direction) (s0 : suite) : suite :=
    remove_empty (run_strategy st d s0).
  Definition restored (st : strategy) (d : direction) (s0 : suite) : bool :=
    negb (same (cov s0) (cov (candidate st d s0))).
  (* not restored: the final EmptyTestCaseRemover runs once more; restored: the unminimized suite
     is put back and _minimize returns *)
  Definition minimize (st : strategy) (d : direction) (s0 : suite) : suite :=
    let s1 := candidate st d s0 in
    if same (cov s0) (cov s1) then remove_empty s1 else s0.
End Visitors.

(* ---------------------------------------------------------------- correspondence cases *)
Definition key := list (list Z).
Definition keyof (s : suite) : key := map (map code) s.
Definition key_eqb (a b : key) : bool := list_eqb (list_eqb Z.eqb) a b.

(* Table-driven oracle: the coverage vectors the implementation obtained, keyed by the rendered
   suite.  A suite the implementation never asked about gets a vector that equals no other. *)
Definition cov_tab (tab : list (key * list Q)) (s : suite) : list Q :=
  match find (fun e => key_eqb (fst e) (keyof s)) tab with
  | Some e => snd e
  | None => [Qmake (- (1 + Z.of_nat (length (concat s)))) 1]
  end.

Definition set_eqb (a b : list Z) : bool :=
  forallb (fun x => memZ x b) a && forallb (fun x => memZ x a) b.

Inductive case :=
| KMinimize (st : strategy) (d : direction) (s : suite) (tab : list (key * list Q))
            (result : key) (was_restored : bool)
| KForward (t : tcase) (tab : list (key * list Q)) (result : list Z)
| KBackward (t : tcase) (tab : list (key * list Q)) (result : list Z)
| KSuite (s : suite) (tab : list (key * list Q)) (result : key)
| KCombined (s : suite) (tab : list (key * list Q)) (result : key)
| KProtected (t : tcase) (result : list Z)
| KRemoveFwd (t : tcase) (i : nat) (result : list Z)
| KRuv (t : tcase) (result : list (Z * bool)).

Definition check_case (c : case) : bool :=
  match c with
  | KMinimize st d s tab result r =>
      key_eqb (keyof (minimize (cov_tab tab) st d s)) result
      && Bool.eqb (restored (cov_tab tab) st d s) r
  | KForward t tab result => list_eqb Z.eqb (map code (forward_visit (cov_tab tab) t)) result
  | KBackward t tab result => list_eqb Z.eqb (map code (backward_visit (cov_tab tab) t)) result
  | KSuite s tab result => key_eqb (keyof (suite_visit (cov_tab tab) s)) result
  | KCombined s tab result => key_eqb (keyof (combined_visit (cov_tab tab) s)) result
  | KProtected t result => set_eqb (protected_set t) result
  | KRemoveFwd t i result => list_eqb Z.eqb (map code (remove_fwd t i)) result
  | KRuv t result =>
      list_eqb (fun a b => Z.eqb (fst a) (fst b) && Bool.eqb (snd a) (snd b))
               (map (fun s => (code s, match bound s with Some _ => true | None => false end)) (ruv t))
               result
  end.

End C22.
