(* C14 — RankSelection.get_index as a function on the reals (the formula the code evaluates in
   binary64): position g(b, r) of the selected individual for bias b and random value r, and the
   quadratic h(b, .) it inverts.  Definitions only. *)
From Coq Require Import Reals.
Open Scope R_scope.

Module C14R.
Definition disc (b r : R) : R := b * b - 4 * (b - 1) * r.
(* (bias - sqrt(bias**2 - 4.0 * (bias - 1.0) * random_value)) / 2.0 / (bias - 1.0) *)
Definition g (b r : R) : R := (b - sqrt (disc b r)) / 2 / (b - 1).
(* the random value at which position y is reached *)
Definition h (b y : R) : R := b * y - (b - 1) * y * y.
(* index i of a population of n is selected: i <= n * g < i + 1, i.e. int(n * g) = i *)
Definition selects (b r : R) (n i : R) : Prop := i <= n * g b r < i + 1.
End C14R.
