(* C05 — executable model of the tracer's enabled switch (TracerLocalState.enabled) during the
   execution of a test case in its thread: the `_early_return` gate of every tracer callback,
   the bracket `with self.temporarily_disable():` around the body of the predicate callbacks
   (src/pynguin/instrumentation/tracer.py), `temporarily_enable` (assertion observer) and the
   statement executor of src/pynguin/testcase/execution.py (observers run inside
   `temporarily_disable`).  Definitions only; proofs are in Proofs/C05.v.

   What the subject under test does is an arbitrary tree of events; "an exception is raised
   inside traced code and caught by the subject" is the flag [raises] of a callback / block:
   the exception leaves the bracket, what happens afterwards are simply the next events. *)
From Coq Require Import List ZArith Bool.
Import ListNotations.
Open Scope Z_scope.

Module C05.

Inductive ev :=
  | Line (id : Z)
      (* track_line_visit (and every other recording callback without a bracket) *)
  | Pred (id : Z) (inner : list ev) (raises : bool)
      (* executed_compare/bool/in_presence/exception_match: gate; body inside temporarily_disable;
         [inner]: code of the subject that the body runs (user operators such as __eq__), itself
         instrumented; [raises]: the body raises (the operator raised) instead of recording *)
  | Track (id : Z) (inner : list ev) (raises : bool)
      (* track_attribute_access and the other checked-coverage / memory callbacks: gate, NO bracket;
         [inner]: code of the subject that the callback itself runs with tracing still enabled
         (getattr / hasattr on the object: properties, __getattr__, descriptors); [raises]: that
         code raises (the exception reaches the subject) instead of the instruction being recorded;
         track_generic/memory/jump/call/return are the case inner = [], raises = false *)
  | DisableBlock (inner : list ev) (raises : bool)   (* with tracer.temporarily_disable(): inner *)
  | EnableBlock (inner : list ev) (raises : bool).   (* with tracer.temporarily_enable(): inner *)

Record state := { enabled : bool; lines : list Z; preds : list Z; instrs : list Z }.   (* newest first *)

Definition set_enabled (b : bool) (st : state) : state :=
  {| enabled := b; lines := lines st; preds := preds st; instrs := instrs st |}.
Definition rec_line (id : Z) (st : state) : state :=
  {| enabled := enabled st; lines := id :: lines st; preds := preds st; instrs := instrs st |}.
Definition rec_pred (id : Z) (st : state) : state :=
  {| enabled := enabled st; lines := lines st; preds := id :: preds st; instrs := instrs st |}.
Definition rec_instr (id : Z) (st : state) : state :=
  {| enabled := enabled st; lines := lines st; preds := preds st; instrs := id :: instrs st |}.

(* [fin]: the brackets restore the switch in a `finally` clause (true after fixes/C05-1; the
   harness reads it off the source of temporarily_disable / temporarily_enable on every run).
   Without it, a raising body skips the statement after the `yield`. *)
Fixpoint run_ev (fin : bool) (e : ev) (st : state) {struct e} : state :=
  let run_list :=
    (fix go (l : list ev) (s : state) : state :=
       match l with [] => s | x :: r => go r (run_ev fin x s) end) in
  match e with
  | Line id => if enabled st then rec_line id st else st
  | Pred id inner raises =>
      if enabled st then                                   (* _early_return *)
        let st2 := run_list inner (set_enabled false st) in
        let st3 := if raises then st2 else rec_pred id st2 in   (* _update_metrics *)
        if raises && negb fin then st3 else set_enabled true st3
      else st
  | Track id inner raises =>
      if enabled st then                                   (* _early_return *)
        let st2 := run_list inner st in                    (* user code runs traced *)
        if raises then st2 else rec_instr id st2
      else st
  | DisableBlock inner raises =>
      if enabled st then
        let st2 := run_list inner (set_enabled false st) in
        if raises && negb fin then st2 else set_enabled true st2
      else run_list inner st                               (* already disabled: yield; return *)
  | EnableBlock inner raises =>
      if enabled st then run_list inner st                 (* already enabled: yield; return *)
      else
        let st2 := run_list inner (set_enabled true st) in
        if raises && negb fin then st2 else set_enabled false st2
  end.

Definition run (fin : bool) : list ev -> state -> state :=
  fix go (l : list ev) (s : state) : state :=
    match l with [] => s | x :: r => go r (run_ev fin x s) end.

(* Threads.  TracerLocalState is thread-local: every thread that executes a test case has its own
   switch and trace (a fresh thread starts with st_fresh).  A thread abandoned after a timeout may
   sit inside a bracket for ever (its own switch is off) and leaves it at any later time. *)
Definition st_fresh : state := {| enabled := true; lines := []; preds := []; instrs := [] |}.
Definition threads := Z -> state.
Definition run_in (fin : bool) (t : Z) (evs : list ev) (T : threads) : threads :=
  fun t' => if Z.eqb t' t then run fin evs (T t) else T t'.
(* a schedule: which thread performs which events next, in any interleaving *)
Definition run_schedule (fin : bool) (sched : list (Z * list ev)) (T : threads) : threads :=
  fold_left (fun T' step => run_in fin (fst step) (snd step) T') sched T.

(* TestCaseExecutor: _before_statement_execution; the statement; _after_statement_execution *)
Definition statement (before body after : list ev) : list ev :=
  DisableBlock before false :: body ++ [DisableBlock after false].

(* ---- correspondence --------------------------------------------------------------------------- *)
Definition mem (x : Z) (l : list Z) : bool := existsb (Z.eqb x) l.
Definition add_new (l : list Z) (x : Z) : list Z := if mem x l then l else l ++ [x].
Definition oset (chronological : list Z) : list Z := fold_left add_new chronological [].
Definition count (x : Z) (l : list Z) : Z := Z.of_nat (length (filter (Z.eqb x) l)).

Fixpoint list_eqb (a b : list Z) : bool :=
  match a, b with
  | [], [] => true
  | x :: a', y :: b' => Z.eqb x y && list_eqb a' b'
  | _, _ => false
  end.

(* what the harness reads off the real tracer after a top-level event: is_disabled() negated,
   covered_line_ids in insertion order, executed_predicates as (id, count), the line numbers of
   executed_instructions in order *)
Definition obs := (bool * list Z * list (Z * Z) * list Z)%type.

Definition obs_ok (st : state) (o : obs) : bool :=
  let '(en, ls, ps, ins) := o in
  Bool.eqb en (enabled st) && list_eqb (oset (rev (lines st))) ls &&
  forallb (fun p => Z.eqb (count (fst p) (preds st)) (snd p)) ps &&
  Z.eqb (Z.of_nat (length (preds st))) (fold_left (fun a p => a + snd p) ps 0) &&
  list_eqb (rev (instrs st)) ins.

Fixpoint run_check (fin : bool) (st : state) (h : list (ev * obs)) : bool :=
  match h with
  | [] => true
  | (e, o) :: rest => let st' := run_ev fin e st in obs_ok st' o && run_check fin st' rest
  end.

Definition case := (bool * bool * list (ev * obs))%type.     (* fin, initially enabled, history *)
Definition check_case (c : case) : bool :=
  let '(fin, en, h) := c in run_check fin {| enabled := en; lines := []; preds := []; instrs := [] |} h.

End C05.
