(* C19 — executable model of what happens to assertions between assertion generation and the
   exported test function: TestCase.remove_unused_variables (after fix C19-keep-assertions; called
   by UnusedStatementsTestCaseVisitor and by TestSuiteWriter.write) and the body
   TestSuiteWriter._build_test_function emits (each statement, followed by one rendered assert per
   assertion for which assertion_to_cst yields a node).  The IR and remove_unused_variables are in
   Base/TestCaseIR.v; proofs in Base/TestCaseIRRuv.v and Proofs/C19.v. *)
From Coq Require Import List NArith ZArith Bool.
From Verif Require Import Base.TestCaseIR.
Import ListNotations.

Module C19.
Import IR.

Inductive item :=
  | IStmt (n : N)              (* a statement, by the code of its (normalised) text *)
  | IAssert (a : assertion).   (* a rendered assert *)

Definition rendered (s : stmt) : list assertion := filter a_render (asserts s).

Definition export_stmt (s : stmt) : list item := IStmt (node s) :: map IAssert (rendered s).

(* body of the test function for the statements of a test case *)
Definition export_body (l : list stmt) : list item := flat_map export_stmt l.

(* TestSuiteWriter.write, per test case: remove_unused_variables, then the body *)
Definition export (t : tc) : list item := export_body (stmts (remove_unused_variables t)).

(* TestSuiteWriter._build_test_function walks zip(tc.statements(), exc_types, strict=False): the
   per-statement exception list from the re-execution decides only HOW a statement is emitted
   (bare, inside `with pytest.raises(...)`, or bare under an xfail marker), never WHETHER; but the
   zip stops at the shorter list.  [excs] = one entry per re-executed statement (true: it raised). *)
Fixpoint build_body (l : list stmt) (excs : list bool) : list item :=
  match l, excs with
  | s :: r, _ :: es => export_stmt s ++ build_body r es
  | _, _ => []
  end.

(* _per_statement_exceptions: one entry per statement, whatever raised or timed out (after a
   timeout the remaining entries are padded with None) *)
Definition per_statement_exceptions (l : list stmt) (raised : nat -> bool) : list bool :=
  map raised (seq 0 (length l)).

Definition export_reexec (t : tc) (raised : nat -> bool) : list item :=
  let l := stmts (remove_unused_variables t) in build_body l (per_statement_exceptions l raised).

Definition is_assert (i : item) : bool := match i with IAssert _ => true | IStmt _ => false end.

(* the code before the fix *)
Definition export_orig (t : tc) : list item := export_body (stmts (remove_unused_variables_orig t)).

(* --- correspondence ----------------------------------------------------------------------- *)
Definition item_eqb (a b : item) : bool :=
  match a, b with
  | IStmt x, IStmt y => N.eqb x y
  | IAssert x, IAssert y => N.eqb (a_id x) (a_id y)
  | _, _ => false
  end.

(* remove_unused_variables: (before, after) *)
Definition rcase := (tc * tc)%type.
Definition check_ruv (c : rcase) : bool := let '(pre, post) := c in tc_eqb (remove_unused_variables pre) post.

(* export: (test case handed to the writer, items found in the written test function; observed
   asserts carry only the id of their rendered text) *)
Definition ecase := (tc * list (bool * N))%type.
Definition obs_item (p : bool * N) : item :=
  if fst p then IAssert {| a_root := None; a_render := true; a_id := snd p |} else IStmt (snd p).
Definition check_export (c : ecase) : bool :=
  let '(pre, obs) := c in list_eqb item_eqb (export pre) (map obs_item obs).

(* export with re-execution: (test case, number of entries _per_statement_exceptions returned, items) *)
Definition xcase := (tc * nat * list (bool * N))%type.
Definition check_export_x (c : xcase) : bool :=
  let '(pre, n_exc, obs) := c in
  Nat.eqb n_exc (size (remove_unused_variables pre))
  && list_eqb item_eqb (build_body (stmts (remove_unused_variables pre)) (repeat false n_exc)) (map obs_item obs).

End C19.
