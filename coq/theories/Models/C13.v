(* C13 — executable model of pynguin.ga.algorithms.archive (CoverageArchive, MIOPopulation,
   MIOArchive) and of _GoalsManager.update (dynamosaalgorithm.py).  Definitions only.

   A solution (test-case chromosome) is abstracted to an id, its size, the status of its last
   execution result, the position of its first exception (for MIO's chop), the goals it covers and
   its fitness per goal.  Goals are integers. *)
From Coq Require Import List ZArith Bool.
Import ListNotations.
Open Scope Z_scope.

Module C13.

Definition mem (x : Z) (l : list Z) : bool := existsb (Z.eqb x) l.

Section Assoc.
Context {V : Type}.
Fixpoint lookup (k : Z) (l : list (Z * V)) : option V :=
  match l with
  | [] => None
  | (k', v) :: r => if Z.eqb k k' then Some v else lookup k r
  end.
Fixpoint put (k : Z) (v : V) (l : list (Z * V)) : list (Z * V) :=
  match l with
  | [] => [(k, v)]
  | (k', v') :: r => if Z.eqb k k' then (k, v) :: r else (k', v') :: put k v r
  end.
Definition keys (l : list (Z * V)) : list Z := map fst l.
End Assoc.

Inductive status := NoRes | Clean | Exc | Timeout.
Record sol := { sid : Z; ssize : Z; sst : status; spos : Z; scov : list Z; sfit : list (Z * Z) }.

Definition erroneous (s : sol) : bool := match sst s with Exc | Timeout => true | _ => false end.
Definition clean (s : sol) : bool := match sst s with Clean => true | _ => false end.
Definition covers (s : sol) (g : Z) : bool := mem g (scov s).

(* CoverageArchive._is_better_than_current / MIOPopulation._is_better_than_current *)
Definition better_strict (cur cand : sol) : bool :=
  if erroneous cur && clean cand then true else ssize cand <? ssize cur.
Definition better_weak (cur cand : sol) : bool :=
  if erroneous cur && clean cand then true else ssize cand <=? ssize cur.

(* ------------------------------------------------------------ CoverageArchive *)
Record arch := { covered : list (Z * sol); uncovered : list Z; objectives : list Z; fired : list Z }.

Definition remove (g : Z) (l : list Z) : list Z := filter (fun x => negb (Z.eqb x g)) l.
Definition oadd (g : Z) (l : list Z) : list Z := if mem g l then l else l ++ [g].

(* self._covered[objective] = solution; drop from uncovered; fire the callback on first cover *)
Definition assign (g : Z) (s : sol) (a : arch) : arch :=
  {| covered := put g s (covered a);
     uncovered := remove g (uncovered a);
     objectives := objectives a;
     fired := if mem g (uncovered a) then fired a ++ [g] else fired a |}.

(* one (objective, solution) pair of the double loop in update *)
Definition consider (g : Z) (st : arch * bool) (s : sol) : arch * bool :=
  if covers s g then
    match lookup g (covered (fst st)) with
    | Some best => if better_strict best s then (assign g s (fst st), true) else st
    | None => (assign g s (fst st), true)
    end
  else st.

Definition update (sols : list sol) (a : arch) : arch * bool :=
  fold_left (fun st g => fold_left (consider g) sols st) (objectives a) (a, false).

Definition add_goal (a : arch) (g : Z) : arch :=
  if mem g (objectives a) then a
  else {| covered := covered a; uncovered := oadd g (uncovered a);
          objectives := objectives a ++ [g]; fired := fired a |}.
Definition add_goals (gs : list Z) (a : arch) : arch := fold_left add_goal gs a.

Definition new_arch (objs : list Z) : arch :=
  let o := fold_left (fun l g => oadd g l) objs [] in
  {| covered := []; uncovered := o; objectives := o; fired := [] |}.

Inductive aop := AUpdate (sols : list sol) | AAddGoals (gs : list Z).
Inductive aout := AUnit | ABool (b : bool).
Definition astep (a : arch) (op : aop) : arch * aout :=
  match op with
  | AUpdate sols => let (a', b) := update sols a in (a', ABool b)
  | AAddGoals gs => (add_goals gs a, AUnit)
  end.
Definition arun (a : arch) (ops : list aop) : arch := fold_left (fun a op => fst (astep a op)) ops a.

(* ------------------------------------------------------------ _GoalsManager.update *)
Record gm := { garch : arch; current : list Z }.
Definition children (graph : list (Z * list Z)) (g : Z) : list Z :=
  match lookup g graph with Some l => l | None => [] end.

Definition gm_round (graph : list (Z * list Z)) (sols : list sol) (m : gm) : gm * bool :=
  let a1 := fst (update sols (garch m)) in
  let cov := keys (covered a1) in
  let '(ng, added) :=
    fold_left (fun (st : list Z * bool) old =>
      if mem old cov then
        fold_left (fun (st : list Z * bool) child =>
          if negb (mem child (current m)) && negb (mem child cov) then (oadd child (fst st), true) else st)
          (children graph old) st
      else (oadd old (fst st), snd st))
      (current m) ([], false) in
  ({| garch := add_goals ng a1; current := ng |}, added).

Fixpoint gm_update (fuel : nat) (graph : list (Z * list Z)) (sols : list sol) (m : gm) : gm :=
  match fuel with
  | O => m
  | S k => let (m', added) := gm_round graph sols m in
           if added then gm_update k graph sols m' else m'
  end.

(* ------------------------------------------------------------ MIOPopulation *)
Definition HMAX : Z := 1000.                 (* h = 1.0 *)
Record pair := { ph : Z; psol : sol }.
Record pop := { capacity : Z; psols : list pair }.
Definition len {A} (l : list A) : Z := Z.of_nat (length l).

Definition is_covered (p : pop) : bool :=
  match psols p with
  | [x] => (capacity p =? 1) && (ph x =? HMAX)
  | _ => false
  end.

Definition pair_better (cur cand : pair) : bool :=
  if ph cand <? ph cur then false
  else if ph cur <? ph cand then true
  else better_weak (psol cur) (psol cand).

(* list.sort(key=h, reverse=True): stable *)
Fixpoint insert_desc (x : pair) (l : list pair) : list pair :=
  match l with
  | [] => [x]
  | y :: r => if ph y <? ph x then x :: l else y :: insert_desc x r
  end.
Definition sort_desc (l : list pair) : list pair := fold_left (fun acc x => insert_desc x acc) l [].

Definition add_solution (h : Z) (s : sol) (p : pop) : pop * bool :=
  let cand := {| ph := h; psol := s |} in
  if h =? 0 then (p, false)
  else if (h <? HMAX) && is_covered p then (p, false)
  else if h =? HMAX then
    if is_covered p then
      match psols p with
      | c :: _ => if pair_better c cand then ({| capacity := capacity p; psols := [cand] |}, true) else (p, false)
      | [] => (p, false)
      end
    else ({| capacity := 1; psols := [cand] |}, true)
  else
    if len (psols p) <? capacity p then
      ({| capacity := capacity p; psols := sort_desc (psols p ++ [cand]) |}, true)
    else
      match psols p with
      | [] => (p, false)
      | _ => if pair_better (last (psols p) cand) cand
             then ({| capacity := capacity p; psols := sort_desc (removelast (psols p) ++ [cand]) |}, true)
             else ({| capacity := capacity p; psols := sort_desc (psols p) |}, false)
      end.

Definition shrink (n : Z) (p : pop) : pop :=
  if is_covered p then p else {| capacity := n; psols := firstn (Z.to_nat n) (psols p) |}.

Inductive pop_op := PAdd (h : Z) (s : sol) | PShrink (n : Z).
Definition pstep (p : pop) (op : pop_op) : pop * aout :=
  match op with
  | PAdd h s => let (p', b) := add_solution h s p in (p', ABool b)
  | PShrink n => (shrink n p, AUnit)
  end.
Definition prun (p : pop) (ops : list pop_op) : pop := fold_left (fun p op => fst (pstep p op)) ops p.

(* ------------------------------------------------------------ MIOArchive *)
Record march := { mpops : list (Z * pop); mfired : list Z }.

Definition hcode (f : Z) : Z := HMAX / (1 + f).          (* order-isomorphic to 1 - f/(1+f) for small f *)
Definition fitness (s : sol) (t : Z) : Z := match lookup t (sfit s) with Some f => f | None => 1 end.

(* the clone is chopped behind the statement that raised *)
Definition chop (s : sol) : sol :=
  match sst s with
  | Exc => {| sid := sid s; ssize := (if spos s <? ssize s then spos s + 1 else ssize s); sst := sst s;
              spos := spos s; scov := scov s; sfit := sfit s |}
  | _ => s
  end.

Definition m_target (s : sol) (st : list (Z * pop) * list Z * bool) (tp : Z * pop) : list (Z * pop) * list Z * bool :=
  let '(done, fl, upd) := st in
  let (t, p) := tp in
  let (p', added) := add_solution (hcode (fitness s t)) (chop s) p in
  (done ++ [(t, p')], (if negb (is_covered p) && is_covered p' then fl ++ [t] else fl), upd || added).

Definition m_solution (st : march * bool) (s : sol) : march * bool :=
  let '(pops, fl, upd) := fold_left (m_target s) (mpops (fst st)) ([], mfired (fst st), snd st) in
  ({| mpops := pops; mfired := fl |}, upd).

Definition m_update (sols : list sol) (a : march) : march * bool := fold_left m_solution sols (a, false).
Definition m_shrink (n : Z) (a : march) : march :=
  {| mpops := map (fun tp => (fst tp, shrink n (snd tp))) (mpops a); mfired := mfired a |}.
Definition new_march (targets : list Z) (n : Z) : march :=
  {| mpops := map (fun t => (t, {| capacity := n; psols := [] |})) targets; mfired := [] |}.

Inductive mop := MUpdate (sols : list sol) | MShrink (n : Z).
Definition mstep (a : march) (op : mop) : march * aout :=
  match op with
  | MUpdate sols => let (a', b) := m_update sols a in (a', ABool b)
  | MShrink n => (m_shrink n a, AUnit)
  end.
Definition mrun (a : march) (ops : list mop) : march := fold_left (fun a op => fst (mstep a op)) ops a.

(* ------------------------------------------------------------ correspondence *)
Definition list_eqb {A} (e : A -> A -> bool) (a b : list A) : bool :=
  Nat.eqb (length a) (length b) && forallb (fun p => e (fst p) (snd p)) (combine a b).
Definition st_eqb (a b : status) : bool :=
  match a, b with NoRes, NoRes | Clean, Clean | Exc, Exc | Timeout, Timeout => true | _, _ => false end.
(* observed solutions: identity, current size, status *)
Definition sol_eqb (a b : sol) : bool := Z.eqb (sid a) (sid b) && Z.eqb (ssize a) (ssize b) && st_eqb (sst a) (sst b).
Definition aout_eqb (a b : aout) : bool :=
  match a, b with AUnit, AUnit => true | ABool x, ABool y => Bool.eqb x y | _, _ => false end.
Definition arch_eqb (a b : arch) : bool :=
  list_eqb (fun x y => Z.eqb (fst x) (fst y) && sol_eqb (snd x) (snd y)) (covered a) (covered b)
  && list_eqb Z.eqb (uncovered a) (uncovered b) && list_eqb Z.eqb (objectives a) (objectives b)
  && list_eqb Z.eqb (fired a) (fired b).
Definition pair_eqb (a b : pair) : bool := Z.eqb (ph a) (ph b) && sol_eqb (psol a) (psol b).
Definition pop_eqb (a b : pop) : bool := Z.eqb (capacity a) (capacity b) && list_eqb pair_eqb (psols a) (psols b).
Definition march_eqb (a b : march) : bool :=
  list_eqb (fun x y => Z.eqb (fst x) (fst y) && pop_eqb (snd x) (snd y)) (mpops a) (mpops b)
  && list_eqb Z.eqb (mfired a) (mfired b).

(* single observed steps (also used for calls observed in real search runs) *)
Definition acase := (arch * (aop * (arch * aout)))%type.
Definition check_acase (c : acase) : bool :=
  let '(a, (op, (a', o'))) := c in
  let (a1, o1) := astep a op in arch_eqb a1 a' && aout_eqb o1 o'.

Fixpoint arun_check (a : arch) (h : list (aop * (arch * aout))) : bool :=
  match h with
  | [] => true
  | (op, (a', o')) :: rest => let (a1, o1) := astep a op in arch_eqb a1 a' && aout_eqb o1 o' && arun_check a1 rest
  end.
Definition ahist := (list Z * list (aop * (arch * aout)))%type.     (* constructor argument, history *)
Definition check_ahist (c : ahist) : bool := arun_check (new_arch (fst c)) (snd c).

(* goals manager: graph, state before, solutions, state after *)
Definition gcase := (list (Z * list Z) * (gm * (list sol * gm)))%type.
Definition gm_eqb (a b : gm) : bool := arch_eqb (garch a) (garch b) && list_eqb Z.eqb (current a) (current b).
Definition check_gcase (c : gcase) : bool :=
  let '(graph, (m, (sols, m'))) := c in gm_eqb (gm_update 64 graph sols m) m'.

Fixpoint prun_check (p : pop) (h : list (pop_op * (pop * aout))) : bool :=
  match h with
  | [] => true
  | (op, (p', o')) :: rest => let (p1, o1) := pstep p op in pop_eqb p1 p' && aout_eqb o1 o' && prun_check p1 rest
  end.
Definition phist := (Z * list (pop_op * (pop * aout)))%type.
Definition check_phist (c : phist) : bool := prun_check {| capacity := fst c; psols := [] |} (snd c).

Definition pcase := (pop * (pop_op * (pop * aout)))%type.
Definition check_pcase (c : pcase) : bool :=
  let '(p, (op, (p', o'))) := c in
  let (p1, o1) := pstep p op in pop_eqb p1 p' && aout_eqb o1 o'.

Fixpoint mrun_check (a : march) (h : list (mop * (march * aout))) : bool :=
  match h with
  | [] => true
  | (op, (a', o')) :: rest => let (a1, o1) := mstep a op in march_eqb a1 a' && aout_eqb o1 o' && mrun_check a1 rest
  end.
Definition mhist := ((list Z * Z) * list (mop * (march * aout)))%type.
Definition check_mhist (c : mhist) : bool := mrun_check (new_march (fst (fst c)) (snd (fst c))) (snd c).
Definition mcase := (march * (mop * (march * aout)))%type.
Definition check_mcase (c : mcase) : bool :=
  let '(a, (op, (a', o'))) := c in
  let (a1, o1) := mstep a op in march_eqb a1 a' && aout_eqb o1 o'.

End C13.
