(* C15 — executable model of the test-case container operations (pynguin.testcase.testcase.TestCase),
   TestFactory.delete_statement_gracefully, splice_test_case_chromosomes and the insertion loop of
   TestCaseMutation._mutation_insert (after fix C15-insertion-bound).  Definitions only; the IR and
   the container operations are in Base/TestCaseIR.v, proofs in Proofs/C15.v. *)
From Coq Require Import List NArith ZArith Bool.
From Verif Require Import Base.TestCaseIR.
Import ListNotations.

Module C15.
Import IR.

(* One call on the container, as issued by the factory / mutation / crossover / local search /
   post-processing code. *)
Inductive op :=
  | OAdd (s : stmt)                         (* add_statement *)
  | OInsert (i : nat) (s : stmt)            (* insert_statement *)
  | ORemove (i : nat)                       (* remove_statement *)
  | OReplace (i : nat) (s : stmt)           (* replace_statement *)
  | OBatch (idxs : list nat)                (* remove_statements_batch *)
  | OChop (p : Z)                           (* chop *)
  | ONextVar                                (* next_var_name *)
  | OClone                                  (* clone (the state of the copy) *)
  | ORemoveFwd (i : nat)                    (* remove_statement_with_forward_dependencies *)
  | ODeleteGracefully (i : nat)             (* TestFactory.delete_statement_gracefully *)
  | OAppendFrom (other : tc) (start : nat) (o : list var)   (* append_test_case_from *)
  | ORuv.                                   (* remove_unused_variables *)

Definition step (t : tc) (o : op) : tc :=
  match o with
  | OAdd s => add_statement t s
  | OInsert i s => insert_statement t i s
  | ORemove i => remove_statement t i
  | OReplace i s => replace_statement t i s
  | OBatch idxs => remove_batch t idxs
  | OChop p => chop t p
  | ONextVar => snd (next_var_name t)
  | OClone => clone t
  | ORemoveFwd i => remove_fwd false t i
  | ODeleteGracefully i => remove_fwd true t i
  | OAppendFrom other start o => append_test_case_from t other start o
  | ORuv => remove_unused_variables t
  end.

Fixpoint run (t : tc) (ops : list op) : tc :=
  match ops with
  | [] => t
  | o :: r => run (step t o) r
  end.

(* --- decidable preconditions under which an operation is proved to preserve WF --------------- *)
(* new statement at index i: reads only variables bound before i; binds a name that is new to the
   test case and below the counter *)
Definition ins_okb (t : tc) (i : nat) (s : stmt) : bool :=
  forallb (fun u => mem u (bvars (firstn i (stmts t)))) (uses s)
  && match bound s with
     | Some v => negb (mem v (bvars (stmts t))) && N.ltb v (counter t)
     | None => true
     end.

(* replacement at index i: reads only earlier variables; keeps the bound name, or the old statement
   bound nothing and the new name is new *)
Definition repl_okb (t : tc) (i : nat) (s : stmt) : bool :=
  forallb (fun u => mem u (bvars (firstn i (stmts t)))) (uses s)
  && match nth_error (stmts t) i with
     | Some old =>
         opt_eqb (bound s) (bound old)
         || (match bound old with None => true | Some _ => false end
             && match bound s with
                | Some v => negb (mem v (bvars (stmts t))) && N.ltb v (counter t)
                | None => true
                end)
     | None => true
     end.

(* removal of a set of statements: no kept statement reads a variable bound by a removed one *)
Fixpoint okmarksb (T : list var) (marks : list bool) (l : list stmt) : bool :=
  match marks, l with
  | m :: ms, s :: r =>
      (if m then forallb (fun v => mem v T) (bv s) else negb (intersects (uses s) T))
      && okmarksb T ms r
  | [], [] => true
  | _, _ => false
  end.

Definition removed_vars (marks : list bool) (l : list stmt) : list var :=
  bvars (keep (map negb marks) l).

Definition marks_okb (marks : list bool) (l : list stmt) : bool :=
  okmarksb (removed_vars marks l) marks l.

Definition op_okb (t : tc) (o : op) : bool :=
  match o with
  | OAdd s => ins_okb t (size t) s
  | OInsert i s => ins_okb t i s
  | ORemove i => marks_okb (idx_marks (Nat.eqb i) (size t)) (stmts t)
  | OReplace i s => repl_okb t i s
  | OBatch idxs => marks_okb (idx_marks (fun j => memn j idxs) (size t)) (stmts t)
  | OAppendFrom other _ _ => wfb other
  | OChop _ | ONextVar | OClone | ORemoveFwd _ | ODeleteGracefully _ | ORuv => true
  end.

Fixpoint ops_okb (t : tc) (ops : list op) : bool :=
  match ops with
  | [] => true
  | o :: r => op_okb t o && ops_okb (step t o) r
  end.

(* --- correspondence cases ------------------------------------------------------------------- *)
(* (state before the call, the call, state after the call) as observed on the real classes *)
Definition case := (tc * op * tc)%type.

(* the model reproduces the implementation's result *)
Definition check_step (c : case) : bool :=
  let '(pre, o, post) := c in tc_eqb (step pre o) post.

(* calls issued by the factory code on well-formed test cases satisfy the proved precondition *)
Definition check_pre (c : case) : bool :=
  let '(pre, o, _) := c in implb (wfb pre) (op_okb pre o && wfb (step pre o)).

(* both at once (one evaluation per recorded factory call) *)
Definition check_factory (c : case) : bool := check_step c && check_pre c.

(* value semantics: a call on one test case object leaves every other live test case (in
   particular the original of a clone, and the clones of an original) unchanged; the case is
   (state of a bystander before the call, after the call) *)
Definition acase := (tc * tc)%type.
Definition check_alias (c : acase) : bool := tc_eqb (fst c) (snd c).

(* a pair of test case objects: the original and its clone; operations applied to the clone *)
Definition clone_pair (t : tc) : tc * tc := (t, clone t).
Definition run_on_clone (p : tc * tc) (ops : list op) : tc * tc := (fst p, run (snd p) ops).
Definition run_on_orig (p : tc * tc) (ops : list op) : tc * tc := (run (fst p) ops, snd p).

(* local search on a different datatype / on a call (TestCaseLocalSearch._search_different_datatype,
   ParametrizedStatementLocalSearch.search): a clone of the test case is kept; every attempt lets
   the factory change the test case (arbitrary proposal, may insert dependency statements) and is
   kept when the objective improved, otherwise the test case is restored from the kept clone. *)
Fixpoint ls_attempts (saved cur : tc) (attempts : list (tc * bool)) : tc * bool :=
  match attempts with
  | [] => (cur, false)
  | (proposal, improved) :: r =>
      if improved then (proposal, true) else ls_attempts saved (clone saved) r
  end.
Definition ls_search (t : tc) (attempts : list (tc * bool)) : tc * bool :=
  ls_attempts (clone t) t attempts.

(* observed: (test case before, improvement found, test case after) *)
Definition lcase := (tc * bool * tc)%type.
Definition check_ls (c : lcase) : bool :=
  let '(before, found, after) := c in if found then wfb after else tc_eqb before after.

(* crossover: (maxlen, parent, other, p1, p2, oracle, resulting parent) *)
Definition xcase := (nat * tc * tc * nat * nat * list var * tc)%type.
Definition check_crossover (c : xcase) : bool :=
  let '(maxlen, parent, other, p1, p2, o, res) := c in
  tc_eqb (crossover maxlen parent other p1 p2 o) res.

(* --- the insertion loop of _mutation_insert (fixed code) ------------------------------------ *)
(* Each iteration whose guard holds (coin flip and size < maxlen) lets the factory insert a call
   with its dependencies, giving a proposed test case; a proposal longer than maxlen is undone.
   The factory's proposals are arbitrary (an oracle). *)
Fixpoint insert_loop (maxlen : nat) (t : tc) (proposals : list tc) : tc :=
  match proposals with
  | [] => t
  | p :: r =>
      if size t <? maxlen then
        insert_loop maxlen (if maxlen <? size p then t else p) r
      else t
  end.

(* the code before the fix: no undo *)
Fixpoint insert_loop_orig (maxlen : nat) (t : tc) (proposals : list tc) : tc :=
  match proposals with
  | [] => t
  | p :: r => if size t <? maxlen then insert_loop_orig maxlen p r else t
  end.

(* trace of one _mutation_insert call: size before, the sizes the factory produced per iteration,
   size at the end.  Sizes only. *)
Fixpoint insert_sizes (maxlen cur : nat) (proposed : list nat) : nat :=
  match proposed with
  | [] => cur
  | p :: r => if cur <? maxlen then insert_sizes maxlen (if maxlen <? p then cur else p) r else cur
  end.

Definition icase := (nat * nat * list nat * nat)%type.   (* maxlen, size before, proposals, size after *)
Definition check_insert (c : icase) : bool :=
  let '(maxlen, before, proposed, after) := c in
  Nat.eqb (insert_sizes maxlen before proposed) after.

End C15.
