(* C28 — Mutation analysis yields genuine mutants and leaves the original intact.
   Executable model of src/pynguin/assertion/mutation_analysis:
     syntax trees                                   -> tree (rose trees), get / write (substitution)
     MutationOperator.visit (visitors, then children, left to right) -> muts (functional enumeration)
     the generator protocol of MutationOperator.mutate / visit / _generic_visit_list /
       _generic_visit_real_node (mutate in place, yield, restore on resume, try/finally on close)
                                                    -> gstate, next, close, exec
     FirstOrderMutator.mutate / mutation_count      -> mutants, mutation_count
     _round_robin, _select_mutations                -> round_robin, select_model
     HighOrderMutator.mutate / _finish_generators   -> hom_apply / hom_undo (LIFO)
   Definitions only; proofs are in Proofs/C28.v. *)
From Coq Require Import List ZArith Bool Lia.
Import ListNotations.

Module C28.

Inductive tree := Node : Z -> list tree -> tree.
Definition path := list nat.
Definition label (t : tree) : Z := match t with Node l _ => l end.
Definition kids (t : tree) : list tree := match t with Node _ cs => cs end.

Fixpoint get (t : tree) (p : path) : option tree :=
  match p with
  | [] => Some t
  | i :: q => match nth_error (kids t) i with Some c => get c q | None => None end
  end.

Fixpoint upd_nth {A} (l : list A) (i : nat) (f : A -> A) : list A :=
  match l, i with
  | [], _ => []
  | x :: r, O => f x :: r
  | x :: r, S j => x :: upd_nth r j f
  end.

(* the tree with the subtree at p replaced by r (nothing happens when p is not a path of t) *)
Fixpoint write (t : tree) (p : path) (r : tree) : tree :=
  match p with
  | [] => r
  | i :: q => Node (label t) (upd_nth (kids t) i (fun c => write c q r))
  end.

Fixpoint tree_eqb (a b : tree) : bool :=
  match a, b with
  | Node la ca, Node lb cb =>
      Z.eqb la lb &&
      (fix go (x y : list tree) : bool :=
         match x, y with
         | [], [] => true
         | u :: x', v :: y' => tree_eqb u v && go x' y'
         | _, _ => false
         end) ca cb
  end.

(* two paths that separate at some index: neither is below the other *)
Fixpoint divergeb (p p' : path) : bool :=
  match p, p' with
  | i :: q, j :: q' => if Nat.eqb i j then divergeb q q' else true
  | _, _ => false
  end.

(* ------------------------------------------------------------------------------------------ *)
(* functional enumeration                                                                      *)
Definition site := (path * tree)%type.               (* where, and the replacement node *)
Definition operator := tree -> list tree.             (* what the mutate_<Class>* visitors offer for a node *)

Fixpoint muts (op : operator) (t : tree) : list site :=
  match t with
  | Node l cs =>
      map (fun r => ([], r)) (op t) ++
      (fix go (cs : list tree) (i : nat) : list site :=
         match cs with
         | [] => []
         | c :: rest => map (fun s => (i :: fst s, snd s)) (muts op c) ++ go rest (S i)
         end) cs 0%nat
  end.

Definition apply_site (t : tree) (s : site) : tree := write t (fst s) (snd s).
Definition mutants (op : operator) (t : tree) : list tree := map (apply_site t) (muts op t).
Definition mutation_count (ops : list operator) (t : tree) : nat :=
  length (concat (map (fun op => muts op t) ops)).

(* ------------------------------------------------------------------------------------------ *)
(* the generator protocol over the shared, mutable tree                                        *)
Inductive gstate :=
| Fresh (todo : list site)
| Susp (p : path) (saved : option tree) (todo : list site)   (* suspended at a yield, tree mutated at p *)
| Finished.

Definition restore (s : tree) (p : path) (saved : option tree) : tree :=
  match saved with Some v => write s p v | None => s end.

(* next(generator): (store, state, yielded store) *)
Definition next (s : tree) (g : gstate) : tree * gstate * option tree :=
  match g with
  | Fresh [] => (s, Finished, None)
  | Fresh ((p, r) :: todo) => let s' := write s p r in (s', Susp p (get s p) todo, Some s')
  | Susp p saved [] => (restore s p saved, Finished, None)
  | Susp p saved ((p', r') :: todo) =>
      let s1 := restore s p saved in
      let s2 := write s1 p' r' in (s2, Susp p' (get s1 p') todo, Some s2)
  | Finished => (s, Finished, None)
  end.

(* generator.close(): with try/finally around the yield ([fx] = true) the slot is restored *)
Definition close (fx : bool) (s : tree) (g : gstate) : tree * gstate :=
  match g with
  | Susp p saved _ => ((if fx then restore s p saved else s), Finished)
  | _ => (s, Finished)
  end.

Inductive event := ENext | EClose.

(* stores observed after each event, and whether a next() yielded *)
Fixpoint exec (fx : bool) (evs : list event) (s : tree) (g : gstate) : list (tree * bool) :=
  match evs with
  | [] => []
  | ENext :: r => let '(s', g', y) := next s g in
                  (s', match y with Some _ => true | None => false end) :: exec fx r s' g'
  | EClose :: r => let '(s', g') := close fx s g in (s', false) :: exec fx r s' g'
  end.

(* run to exhaustion: yielded stores, final store, final state *)
Fixpoint drain (fuel : nat) (s : tree) (g : gstate) : list tree * tree * gstate :=
  match fuel with
  | O => ([], s, g)
  | S f => match next s g with
           | (s', g', Some y) => let '(ys, sf, gf) := drain f s' g' in (y :: ys, sf, gf)
           | (s', g', None) => ([], s', g')
           end
  end.

(* the relation between original, store and generator state that the protocol maintains *)
Definition consistent (t s : tree) (g : gstate) : Prop :=
  match g with
  | Fresh _ => s = t
  | Susp p saved _ => (exists r, s = write t p r) /\ saved = get t p
  | Finished => s = t
  end.

(* ------------------------------------------------------------------------------------------ *)
(* reordering and sampling                                                                     *)
Definition heads {A} (ls : list (list A)) : list A :=
  flat_map (fun l => match l with [] => [] | x :: _ => [x] end) ls.
Definition tails {A} (ls : list (list A)) : list (list A) := map (@tl A) ls.
(* _round_robin: itertools.zip_longest groups, None dropped *)
Fixpoint rr {A} (fuel : nat) (ls : list (list A)) : list A :=
  match fuel with O => [] | S f => heads ls ++ rr f (tails ls) end.
Definition round_robin {A} (ls : list (list A)) : list A := rr (length (concat ls)) ls.

(* _select_mutations after sampling: regular operators interleaved, timeout-prone ones last *)
Definition regular {A} (ls : list (bool * list A)) : list (list A) :=
  map snd (filter (fun e => negb (fst e)) ls).
Definition deferred {A} (ls : list (bool * list A)) : list (list A) :=
  map snd (filter (fun e => fst e) ls).
Definition select_model {A} (ls : list (bool * list A)) : list A :=
  round_robin (regular ls) ++ round_robin (deferred ls).

Inductive sublist {A} : list A -> list A -> Prop :=
| sl_nil : sublist [] []
| sl_skip x l1 l2 : sublist l1 l2 -> sublist l1 (x :: l2)
| sl_take x l1 l2 : sublist l1 l2 -> sublist (x :: l1) (x :: l2).

(* the per-operator sample [mutations[i] for i in sorted(rng.sample(range(n), keep))] *)
Definition pick {A} (l : list A) (idxs : list nat) : list A :=
  flat_map (fun i => match nth_error l i with Some x => [x] | None => [] end) idxs.

(* ------------------------------------------------------------------------------------------ *)
(* higher-order mutants: nested generators, finished in reverse order                          *)
Definition undo_log := list (path * option tree).     (* most recent first *)
Fixpoint hom_apply (s : tree) (sites : list site) (log : undo_log) : tree * undo_log :=
  match sites with
  | [] => (s, log)
  | (p, r) :: rest => hom_apply (write s p r) rest ((p, get s p) :: log)
  end.
Definition hom_undo (s : tree) (log : undo_log) : tree :=
  fold_left (fun s e => restore s (fst e) (snd e)) log s.

(* ------------------------------------------------------------------------------------------ *)
(* correspondence cases                                                                        *)
Fixpoint list_eqb {A} (eqb : A -> A -> bool) (a b : list A) : bool :=
  match a, b with
  | [], [] => true
  | x :: ra, y :: rb => eqb x y && list_eqb eqb ra rb
  | _, _ => false
  end.

Definition obs_eqb (a b : tree * bool) : bool := tree_eqb (fst a) (fst b) && Bool.eqb (snd a) (snd b).

Inductive case :=
(* one operator generator on tree t: the sites (found by diffing each yielded tree with the original),
   the events sent to the generator and the tree observed after every event *)
| CGen (t : tree) (sites : list site) (evs : list event) (obs : list (tree * bool))
(* one higher-order mutant: sites in application order, tree at the yield, tree after finishing *)
| CHom (t : tree) (sites : list site) (at_yield after : tree)
(* _round_robin on lists of integers *)
| CRoundRobin (ls : list (list Z)) (obs : list Z)
(* _select_mutations: per operator (timeout-prone?, selected ids), observed order *)
| CSelect (ls : list (bool * list Z)) (obs : list Z).

Definition check_case (c : case) : bool :=
  match c with
  | CGen t sites evs obs => list_eqb obs_eqb (exec true evs t (Fresh sites)) obs
  | CHom t sites at_yield after =>
      let '(s, log) := hom_apply t sites [] in
      tree_eqb s at_yield && tree_eqb (hom_undo s log) after && tree_eqb after t
  | CRoundRobin ls obs => list_eqb Z.eqb (round_robin ls) obs
  | CSelect ls obs => list_eqb Z.eqb (select_model ls) obs
  end.

End C28.
