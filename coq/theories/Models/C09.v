(* C09 — executable model of the backward dynamic slicer (pynguin.slicer.dynamicslicer.DynamicSlicer.slice
   with pynguin.slicer.stack.stacksimulation.TraceStack) and of the line mapping in
   pynguin.ga.checked_coverage (map_instructions_to_lines, _cleanse_included_implicit_return_none,
   compute_statement_checked_lines, compute_assertion_checked_coverage).  Definitions only.

   Input of the slicer model is the *flow*: the instruction states that ExecutionFlowBuilder hands to
   the slicer, newest first (the order in which `get_previous_instruction_state` returns them), each
   abstracted to an [einstr]: identity, block, line, stack effect (as `stack_effects(jump=...)`
   reports it), the opcode classes the slicer looks at, the call/return/exception flags of the state,
   and the memory/attribute record of the traced instruction with names and addresses interned to
   integers.  The control-dependence queries are tables extracted from the real CDG/CFG objects.

   Supported fragment: everything DynamicSlicer.slice does except IMPORT_NAME/IMPORT_FROM handling
   (import_back_call / import_start), closure variables (the DEREF opcodes) and two-argument memory
   instructions (do not exist on CPython 3.12); the harness rejects such traces. *)
From Coq Require Import List ZArith Bool.
Import ListNotations.
Open Scope Z_scope.

Module C09.

Inductive meminfo :=
| MNone
| MVar (glob : bool) (name scope addr : Z) (mut cre : bool)   (* ExecutedMemoryInstruction *)
| MAttr (name src addr : Z) (mut elem : bool).                (* ExecutedAttributeInstruction; elem = subscript
                                                                  access, traced with the placeholder name "None" *)

Record einstr := mkI {
  uid : Z;            (* interned (name, code_object_id, node_id, instr_original_index) *)
  code : Z; node : Z; file : Z; line : Z;
  in_test : bool;     (* file == AST_FILENAME *)
  pops : nat; pushes : nat;
  is_def : bool; is_use : bool; is_cond : bool;
  ujump : bool;       (* state.jump and instr.is_uncond_jump() *)
  has_jump : bool;
  is_store : bool;    (* name in STORE_NAMES *)
  is_access : bool;   (* name in ACCESS_NAMES and not is_method *)
  f_call : bool; f_ret : bool; f_exc : bool;
  retnone : bool;     (* RETURN_CONST None *)
  mem : meminfo }.

(* --- tables extracted from the real CDG / CFG and line registry ---------------------------------- *)
Record cdginfo := mkC {
  desc : list Z;      (* indices of the CDG descendants of the node *)
  ctrl : bool;        (* the node has a basic-block CDG ancestor that is not also a descendant *)
  loops : list Z;     (* get_dominator_loops(node) *)
  succ : list Z }.    (* CFG successors *)
Definition cdgtab := list ((Z * Z) * cdginfo).
Definition no_info : cdginfo := mkC [] false [] [].
Fixpoint cdg_lookup (t : cdgtab) (c n : Z) : cdginfo :=
  match t with
  | [] => no_info
  | ((c', n'), i) :: r => if (c =? c') && (n =? n') then i else cdg_lookup r c n
  end.

Definition linetab := list (Z * (Z * Z)).       (* line id, (file, line number), in registry order *)
Fixpoint line_id (t : linetab) (f l : Z) : option Z :=
  match t with
  | [] => None
  | (i, (f', l')) :: r => if (f =? f') && (l =? l') then Some i else line_id r f l
  end.

(* --- small set library (Python sets as duplicate-free lists) ------------------------------------- *)
Definition memZ (x : Z) (l : list Z) : bool := existsb (Z.eqb x) l.
Definition addZ (x : Z) (l : list Z) : list Z := if memZ x l then l else x :: l.
Definition remZ (x : Z) (l : list Z) : list Z := filter (fun y => negb (y =? x)) l.
Definition eqP (a b : Z * Z) : bool := (fst a =? fst b) && (snd a =? snd b).
Definition memP (x : Z * Z) (l : list (Z * Z)) : bool := existsb (eqP x) l.
Definition addP (x : Z * Z) (l : list (Z * Z)) : list (Z * Z) := if memP x l then l else x :: l.
Definition remP (x : Z * Z) (l : list (Z * Z)) : list (Z * Z) := filter (fun y => negb (eqP y x)) l.
Definition disjointZ (a b : list Z) : bool := forallb (fun x => negb (memZ x b)) a.
Definition memI (e : einstr) (l : list einstr) : bool := existsb (fun x => uid x =? uid e) l.
Definition addI (e : einstr) (l : list einstr) : list einstr := if memI e l then l else e :: l.

(* --- TraceStack ---------------------------------------------------------------------------------- *)
Record entry := mkE { e_uid : Z; e_in : bool; e_store : bool; e_access : bool }.
Record frame := mkF { blk : list entry; fattrs : list Z }.
Definition empty_frame : frame := mkF [] [].
Definition DEFAULT_STACK_HEIGHT : nat := 40.
Definition init_frames : list frame := repeat empty_frame DEFAULT_STACK_HEIGHT.

(* the frame list is kept newest first *)
Definition set_blk (fs : list frame) (b : list entry) : list frame :=
  match fs with [] => [] | f :: r => mkF b (fattrs f) :: r end.
Definition set_fattrs (fs : list frame) (a : list Z) : list frame :=
  match fs with [] => [] | f :: r => mkF (blk f) a :: r end.

(* one backward "pop" for a value the instruction pushed: returns the updated block, whether the
   consumer is in the slice, and whether uses stay included *)
Definition pop_one (b : list entry) (acc : bool * bool) : list entry * (bool * bool) :=
  match b with
  | [] => ([], acc)
  | t :: r =>
      if e_in t then
        let incl1 := match r with
                     | t1 :: _ => if e_store t && e_in t1 && e_store t1 then false else snd acc
                     | [] => snd acc
                     end in
        let incl2 := if e_access t then false else incl1 in
        (r, (true, incl2))
      else (r, acc)
  end.
Fixpoint pop_n (n : nat) (b : list entry) (acc : bool * bool) : list entry * (bool * bool) :=
  match n with
  | O => (b, acc)
  | S k => let '(b', acc') := pop_one b acc in pop_n k b' acc'
  end.

(* TraceStack.update_push_operations: (frames, implicit dependency, include_use); None = IndexError *)
Definition update_push (fs : list frame) (n : nat) (returned : bool) : option (list frame * bool * bool) :=
  match fs with
  | [] => None
  | f :: r =>
      let imp0 :=
        if returned then
          match r with
          | [] => None
          | caller :: _ => Some (match blk caller with t :: _ => e_in t | [] => false end)
          end
        else Some false in
      match imp0 with
      | None => None
      | Some i0 =>
          let '(b', (imp, incl)) := pop_n n (blk f) (i0, true) in
          Some (mkF b' (fattrs f) :: r, imp, incl)
      end
  end.

Definition entry_of (e : einstr) (ins : bool) : entry := mkE (uid e) ins (is_store e) (is_access e).
(* TraceStack.update_pop_operations *)
Definition update_pop (fs : list frame) (n : nat) (e : einstr) (ins : bool) : option (list frame) :=
  match fs with
  | [] => None
  | f :: r => Some (mkF (repeat (entry_of e ins) n ++ blk f) (fattrs f) :: r)
  end.

(* --- slicing state ------------------------------------------------------------------------------- *)
Record st := mkS {
  in_slice : list einstr;          (* context.instr_in_slice, newest first *)
  ctrl_deps : list einstr;         (* context.instr_ctrl_deps *)
  luses : list (Z * Z);            (* local_var_uses  (name, code object) *)
  guses : list (Z * Z);            (* global_var_uses (name, file) *)
  addr_uses : list Z;              (* var_address_uses *)
  attr_uses : list (Z * Z);        (* attr_uses as (source address, attribute name) *)
  attr_vars : list Z;              (* attribute_variables *)
  frames : list frame;
  new_attr : list Z;               (* new_attribute_object_uses *)
  cod : bool;                      (* code_object_dependent *)
  sim : bool }.                    (* stack_simulation *)

Definition upd_ctrl (s : st) (c : list einstr) : st :=
  mkS (in_slice s) c (luses s) (guses s) (addr_uses s) (attr_uses s) (attr_vars s) (frames s) (new_attr s) (cod s) (sim s).

(* DynamicSlicer.check_control_dependency *)
Definition dominated (t : cdgtab) (e i : einstr) : bool :=
  let info := cdg_lookup t (code e) (node e) in
  memZ (node i) (desc info) &&
  (negb (has_jump i) || disjointZ (succ (cdg_lookup t (code e) (node i))) (loops info)).
Definition check_ctrl (t : cdgtab) (e : einstr) (s : st) : bool * st :=
  if negb (is_cond e) then (false, s)
  else
    let dom := filter (dominated t e) (ctrl_deps s) in
    let rest := filter (fun i => negb (dominated t e i)) (ctrl_deps s) in
    (match dom with [] => false | _ => true end, upd_ctrl s rest).

(* DynamicSlicer.add_control_dependency *)
Definition add_ctrl (t : cdgtab) (e : einstr) (s : st) : st :=
  if ctrl (cdg_lookup t (code e) (node e)) then upd_ctrl s (addI e (ctrl_deps s)) else s.

(* DynamicSlicer.check_explicit_data_dependency: (dependency, attribute creation uses, state) *)
Definition check_explicit (e : einstr) (s : st) : bool * list Z * st :=
  if negb (is_def e) then (false, [], s)
  else match mem e with
  | MNone => (false, [], s)
  | MVar g name sc addr mut cre =>
      let c1 := if g then memP (name, sc) (guses s) else memP (name, sc) (luses s) in
      let lu := if g then luses s else remP (name, sc) (luses s) in
      let gu := if g then remP (name, sc) (guses s) else guses s in
      let hit := negb (addr =? 0) && cre in
      let hits := if hit then filter (fun u => fst u =? addr) (attr_uses s) else [] in
      let c2 := match hits with [] => false | _ => true end in
      let au := if hit then filter (fun u => negb (fst u =? addr)) (attr_uses s) else attr_uses s in
      let created := fold_right addZ [] (map snd hits) in
      let c3 := mut && cre && memZ addr (addr_uses s) in
      let ad := if mut && cre then remZ addr (addr_uses s) else addr_uses s in
      let c4 := memZ name (attr_vars s) in
      let av := if c4 then remZ name (attr_vars s) else attr_vars s in
      (c1 || c2 || c3 || c4, created,
       mkS (in_slice s) (ctrl_deps s) lu gu ad au av (frames s) (new_attr s) (cod s) (sim s))
  | MAttr name src addr mut elem =>
      let c1 := memP (src, name) (attr_uses s) in
      (* a subscript store defines one (unrecorded) element: the element use stays pending *)
      let au := if c1 && negb elem then remP (src, name) (attr_uses s) else attr_uses s in
      let partial := memZ src (addr_uses s) in
      (c1 || partial, [],
       mkS (in_slice s) (ctrl_deps s) (luses s) (guses s) (addr_uses s) au (attr_vars s) (frames s)
           (new_attr s) (cod s) (sim s))
  end.

(* DynamicSlicer.add_uses *)
Definition add_uses (e : einstr) (s : st) : st :=
  match mem e with
  | MNone => s
  | MVar g name sc addr mut cre =>
      let ad := if negb (addr =? 0) && mut then addZ addr (addr_uses s) else addr_uses s in
      let lu := if g then luses s else addP (name, sc) (luses s) in
      let gu := if g then addP (name, sc) (guses s) else guses s in
      mkS (in_slice s) (ctrl_deps s) lu gu ad (attr_uses s) (attr_vars s) (frames s) (new_attr s) (cod s) (sim s)
  | MAttr name src addr mut _ =>
      let ad1 := if negb (addr =? 0) && mut then addZ addr (addr_uses s) else addr_uses s in
      let au := if negb (addr =? 0) then addP (src, name) (attr_uses s) else attr_uses s in
      let ad2 := if addr =? 0 then addZ src ad1 else ad1 in
      mkS (in_slice s) (ctrl_deps s) (luses s) (guses s) ad2 au (attr_vars s) (frames s) (new_attr s) (cod s) (sim s)
  end.

(* DynamicSlicer._stack_housekeeping (frames, attribute variables, stack_simulation) *)
Definition housekeeping (e : einstr) (s : st) : option st :=
  let fs0 := set_fattrs (frames s) (attr_vars s) in
  match fs0 with
  | [] => None
  | _ =>
    let '(fs1, na) := if f_ret e then (mkF [] (new_attr s) :: fs0, []) else (fs0, new_attr s) in
    let r2 :=
      if f_call e then
        match fs1 with
        | [] => None
        | _ :: rest => if sim s then Some (rest, true) else Some (empty_frame :: rest, true)
        end
      else Some (fs1, sim s) in
    match r2 with
    | None => None
    | Some (fs2, sm) =>
        match fs2 with
        | [] => None
        | f :: _ =>
            Some (mkS (in_slice s) (ctrl_deps s) (luses s) (guses s) (addr_uses s) (attr_uses s)
                      (fattrs f) fs2 na (cod s) sm)
        end
    end
  end.

(* one iteration of the main loop of DynamicSlicer.slice for the state [e] *)
Definition step (t : cdgtab) (s0 : st) (e : einstr) : option st :=
  let s1 := if f_exc e then
              mkS (in_slice s0) (ctrl_deps s0) (luses s0) (guses s0) (addr_uses s0) (attr_uses s0)
                  (attr_vars s0) (frames s0) (new_attr s0) (cod s0) false
            else s0 in
  match housekeeping e s1 with
  | None => None
  | Some s2 =>
      let '(cdep, s3) := check_ctrl t e s2 in
      let '(edep, created, s4) := check_explicit e s3 in
      let imp1 := f_call e && cod s4 in
      let r := if sim s4 then update_push (frames s4) (pushes e) (f_ret e)
               else Some (frames s4, false, true) in
      match r with
      | None => None
      | Some (fs5, sdep, incl) =>
          let cis0 := cdep || edep in
          let cod' := negb (f_ret e) || (negb (f_call e) && cis0) in
          let cis := cis0 || imp1 || sdep || ujump e in
          let r6 := if sim s4 then update_pop fs5 (pops e) e cis else Some fs5 in
          match r6 with
          | None => None
          | Some fs6 =>
              let s6 := mkS (in_slice s4) (ctrl_deps s4) (luses s4) (guses s4) (addr_uses s4)
                            (attr_uses s4) (attr_vars s4) fs6 created cod' (sim s4) in
              if cis then
                let s7 := mkS (e :: in_slice s6) (ctrl_deps s6) (luses s6) (guses s6) (addr_uses s6)
                              (attr_uses s6) (attr_vars s6) (frames s6) (new_attr s6) (cod s6) (sim s6) in
                let s8 := add_ctrl t e s7 in
                Some (if is_use e && incl then add_uses e s8 else s8)
              else Some s6
          end
      end
  end.

(* DynamicSlicer._setup_slicing_configuration *)
Definition init (t : cdgtab) (c : einstr) : option st :=
  match update_push init_frames (pushes c) false with
  | None => None
  | Some (fs1, _, _) =>
      match update_pop fs1 (pops c) c true with
      | None => None
      | Some fs2 => Some (add_ctrl t c (mkS [c] [] [] [] [] [] [] fs2 [] false true))
      end
  end.

Fixpoint run (t : cdgtab) (s : st) (flow : list einstr) : option st :=
  match flow with
  | [] => Some s
  | e :: r => match step t s e with None => None | Some s' => run t s' r end
  end.

(* "for i in reversed(instr_in_slice): if i not in instructions: ..." *)
Fixpoint dedup (seen : list Z) (l : list einstr) : list einstr :=
  match l with
  | [] => []
  | e :: r => if memZ (uid e) seen then dedup seen r else e :: dedup (uid e :: seen) r
  end.

Definition slice (t : cdgtab) (c : einstr) (flow : list einstr) : option (list einstr) :=
  match init t c with
  | None => None
  | Some s0 => match run t s0 flow with
               | None => None
               | Some s => Some (dedup [] (in_slice s))   (* in_slice is newest first = reversed(...) *)
               end
  end.

(* --- checked lines ------------------------------------------------------------------------------- *)
(* DynamicSlicer.map_instructions_to_lines; None = ValueError (line not registered) *)
Fixpoint map_lines (lt : linetab) (cur : option Z) (l : list einstr) : option (list Z) :=
  match l with
  | [] => Some []
  | e :: r =>
      if in_test e then map_lines lt cur r
      else if match cur with Some c => line e =? c | None => false end then map_lines lt cur r
      else match line_id lt (file e) (line e), map_lines lt (Some (line e)) r with
           | Some i, Some res => Some (addZ i res)
           | _, _ => None
           end
  end.

(* version.end_with_explicit_return_none(statement_slice[:-1]) and the line it removes *)
Definition cleanse_target (sl : list einstr) : option einstr :=
  match rev sl with
  | _ :: r1 :: r2 :: _ => if negb (line r2 =? line r1) && retnone r1 then Some r1 else None
  | _ => None
  end.

(* what compute_statement_checked_lines contributes for one statement slice; None = an exception
   (ValueError from the registry lookup, KeyError from set.remove) *)
Definition stmt_lines (lt : linetab) (sl : list einstr) : option (list Z) :=
  match map_lines lt None sl with
  | None => None
  | Some ls =>
      match cleanse_target sl with
      | None => Some ls
      | Some r => match line_id lt (file r) (line r) with
                  | None => None
                  | Some i => if memZ i ls then Some (remZ i ls) else None
                  end
      end
  end.

Definition union (a b : list Z) : list Z := fold_right addZ b a.

(* --- specification side: dependences of the straight-line fragment --------------------------------- *)
Section StackSpec.
  Context {A : Type} (po pu : A -> nat).
  (* backward simulation: the block stack (consumers, top first) after the instructions [tr]
     (given in execution order) were processed from the last to the first *)
  Fixpoint Bk (tr : list A) : list A :=
    match tr with
    | [] => []
    | e :: r => repeat e (po e) ++ skipn (pu e) (Bk r)
    end.
  (* the (consumer, producer) pairs it finds: the instruction pops one consumer per value it pushes *)
  Fixpoint Ed (tr : list A) : list (A * A) :=
    match tr with
    | [] => []
    | e :: r => combine (firstn (pu e) (Bk r)) (repeat e (pu e)) ++ Ed r
    end.
  (* forward semantics: an operand stack of producers; executing [e] consumes [po e] values and
     pushes [pu e] values produced by [e] *)
  Fixpoint Fw (S : list A) (tr : list A) : list (A * A) :=
    match tr with
    | [] => []
    | e :: r => combine (repeat e (po e)) (firstn (po e) S) ++ Fw (repeat e (pu e) ++ skipn (po e) S) r
    end.
  (* no underflow when started with [n] values on the stack *)
  Fixpoint wf_stack (n : nat) (tr : list A) : Prop :=
    match tr with
    | [] => True
    | e :: r => (po e <= n)%nat /\ wf_stack (n - po e + pu e) r
    end.
End StackSpec.

(* variable key of a memory instruction: (global?, name, scope) *)
Definition key (e : einstr) : option (bool * Z * Z) :=
  match mem e with MVar g n sc _ _ _ => Some (g, n, sc) | _ => None end.
Definition defs_key (e : einstr) (k : bool * Z * Z) : Prop := is_def e = true /\ key e = Some k.
Definition uses_key (e : einstr) (k : bool * Z * Z) : Prop := is_use e = true /\ key e = Some k.

(* straight-line fragment: one frame, no exception, no conditional or taken unconditional jump, no
   attribute/subscript store or non-method attribute access feeding the stack *)
Definition frag_instr (e : einstr) : bool :=
  negb (f_call e) && negb (f_ret e) && negb (f_exc e) && negb (is_cond e) && negb (ujump e) &&
  negb (is_store e) && negb (is_access e).

(* dynamic dependence on the executed trace [tr] (execution order, criterion last):
   def-use on local/global names (last definition before the use) and operand-stack
   producer/consumer pairs of the forward stack machine *)
Inductive ddep (tr : list einstr) : einstr -> einstr -> Prop :=
| dd_data pre i mid j post k :
    tr = pre ++ i :: mid ++ j :: post -> defs_key i k -> uses_key j k ->
    (forall x, In x mid -> ~ defs_key x k) -> ddep tr j i
| dd_stack j i : In (j, i) (Fw pops pushes [] tr) -> ddep tr j i.

Inductive ddep_star (tr : list einstr) : einstr -> einstr -> Prop :=
| dds_refl a : ddep_star tr a a
| dds_step a b c : ddep_star tr a b -> ddep tr b c -> ddep_star tr a c.

(* --- correspondence cases ------------------------------------------------------------------------ *)
(* packed instruction as the harness prints it *)
Definition bit (fl : Z) (k : Z) : bool := Z.testbit fl k.
Inductive pmem := PN | PV (name scope addr fl : Z) | PA (name src addr fl : Z).
Definition unpack_mem (m : pmem) : meminfo :=
  match m with
  | PN => MNone
  | PV n s a fl => MVar (bit fl 0) n s a (bit fl 1) (bit fl 2)
  | PA n s a fl => MAttr n s a (bit fl 0) (bit fl 1)
  end.
Definition I (u c n f l po pu fl : Z) (m : pmem) : einstr :=
  mkI u c n f l (bit fl 0) (Z.to_nat po) (Z.to_nat pu)
      (bit fl 1) (bit fl 2) (bit fl 3) (bit fl 4) (bit fl 5) (bit fl 6) (bit fl 7)
      (bit fl 8) (bit fl 9) (bit fl 10) (bit fl 11) (unpack_mem m).
(* flows are printed as index lists into a per-case table of distinct instruction states *)
Definition dflt : einstr := I 0 0 0 0 0 0 0 0 PN.
Definition sel (tab : list einstr) (ix : list Z) : list einstr :=
  map (fun i => nth (Z.to_nat i) tab dflt) ix.
Definition C (c n : Z) (d : list Z) (ct : bool) (lo su : list Z) : (Z * Z) * cdginfo :=
  ((c, n), mkC d ct lo su).

Fixpoint eq_list (a b : list Z) : bool :=
  match a, b with
  | [], [] => true
  | x :: r, y :: s => (x =? y) && eq_list r s
  | _, _ => false
  end.
Definition subsetZ (a b : list Z) : bool := forallb (fun x => memZ x b) a.
Definition same_set (a b : list Z) : bool := subsetZ a b && subsetZ b a.
Definition eq_optset (a b : option (list Z)) : bool :=
  match a, b with
  | None, None => true
  | Some x, Some y => same_set x y
  | _, _ => false
  end.

(* one criterion: kind (0 = statement criterion, 1 = assertion, 2 = extra), criterion, flow, the
   slice DynamicSlicer.slice returned (uids in order; None = it raised), the lines
   map_instructions_to_lines + cleanse gave for it (statement kind) / map_instructions_to_lines
   (others) *)
Record scase := mkSC {
  sc_kind : Z; sc_crit : einstr; sc_flow : list einstr;
  sc_slice : option (list Z); sc_lines : option (list Z) }.

Definition model_lines (lt : linetab) (k : Z) (sl : list einstr) : option (list Z) :=
  if k =? 0 then stmt_lines lt sl else map_lines lt None sl.

Definition check_scase (t : cdgtab) (lt : linetab) (c : scase) : bool :=
  match slice t (sc_crit c) (sc_flow c), sc_slice c with
  | None, None => true
  | Some sl, Some real =>
      eq_list (map uid sl) real && eq_optset (model_lines lt (sc_kind c) sl) (sc_lines c)
  | _, _ => false
  end.

(* union of the statement contributions = compute_statement_checked_lines;
   lines of the concatenated assertion slices = numerator of compute_assertion_checked_coverage *)
Fixpoint stmt_union (t : cdgtab) (lt : linetab) (cs : list scase) : option (list Z) :=
  match cs with
  | [] => Some []
  | c :: r =>
      if sc_kind c =? 0 then
        match slice t (sc_crit c) (sc_flow c) with
        | None => None
        | Some sl => match stmt_lines lt sl, stmt_union t lt r with
                     | Some a, Some b => Some (union a b)
                     | _, _ => None
                     end
        end
      else stmt_union t lt r
  end.
Fixpoint assert_concat (t : cdgtab) (cs : list scase) : option (list einstr) :=
  match cs with
  | [] => Some []
  | c :: r =>
      if sc_kind c =? 1 then
        match slice t (sc_crit c) (sc_flow c), assert_concat t r with
        | Some sl, Some rest => Some (sl ++ rest)
        | _, _ => None
        end
      else assert_concat t r
  end.
Definition assert_lines (t : cdgtab) (lt : linetab) (cs : list scase) : option (list Z) :=
  match assert_concat t cs with None => None | Some l => map_lines lt None l end.

Record case := mkCase {
  c_cdg : cdgtab; c_lines : linetab; c_slices : list scase;
  c_stmt_result : option (list Z);    (* what compute_statement_checked_lines returned *)
  c_assert_count : option Z }.        (* |checked lines| of compute_assertion_checked_coverage *)

Definition check_case (c : case) : bool :=
  forallb (check_scase (c_cdg c) (c_lines c)) (c_slices c) &&
  eq_optset (stmt_union (c_cdg c) (c_lines c) (c_slices c)) (c_stmt_result c) &&
  match c_assert_count c, assert_lines (c_cdg c) (c_lines c) (c_slices c) with
  | Some n, Some l => Z.of_nat (length l) =? n
  | None, None => true
  | _, _ => false
  end.

End C09.
