(* C34 — several ordered-set objects at once: a store of objects, constructors that build one
   object from another (OrderedSet(x), FrozenOrderedSet(x), copy, freeze) and operations applied to
   one object.  The single-object model Models/C34.v treats a set as a value; this file states what
   "value" means for the real, mutable objects: no operation on one object is visible through
   another one, and a frozen object never changes. *)
From Coq Require Import List ZArith Bool.
From Verif Require Import Models.C34.
Import ListNotations.
Open Scope Z_scope.

Module C34H.
Import C34.

Record obj := { frozen : bool; items : list Z }.
Definition heap := list obj.

Inductive hop :=
| HNewFrom (i : nat) (fr : bool)        (* OrderedSet(o_i) / FrozenOrderedSet(o_i) / copy / freeze *)
| HNewIter (xs : list Z) (fr : bool)    (* constructor from a plain iterable *)
| HApply (i : nat) (o : op).            (* o_i.<operation> *)

Inductive hout := HOut (o : out) | HAttributeError | HNoObject.

(* methods that only MutableSet / OrderedSet provide: a FrozenOrderedSet has no such attribute *)
Definition mutator_method (o : op) : bool :=
  match o with
  | Add _ | Discard _ | Remove _ | Pop | Clear | Update _ | DifferenceUpdate _
  | IntersectionUpdate _ | SymDiffUpdate _ => true
  | _ => false
  end.

(* `f |= x` on a frozen set: Python falls back to `f = f | x`, which builds a new frozen object
   through _from_iterable and leaves the old one untouched; the value of the new object *)
Definition rebind_value (l : list Z) (o : op) : option (list Z) :=
  match o with
  | IOr it => Some (add_all l (union_all (traverse_all [it])))
  | IAnd it => Some (keep_in l (inter_all (traverse_all [it])))
  | ISub it => Some (drop_in l (fst (traverse it)))
  | IXor it => Some (symdiff l it)
  | _ => None
  end.

Fixpoint set_nth (h : heap) (i : nat) (x : obj) : heap :=
  match h, i with
  | [], _ => []
  | _ :: r, O => x :: r
  | y :: r, S k => y :: set_nth r k x
  end.

Definition hstep (h : heap) (o : hop) : heap * hout :=
  match o with
  | HNewFrom i fr =>
      match nth_error h i with
      | Some ob => (h ++ [{| frozen := fr; items := from_iter (items ob) |}], HOut OUnit)
      | None => (h, HNoObject)
      end
  | HNewIter xs fr => (h ++ [{| frozen := fr; items := from_iter xs |}], HOut OUnit)
  | HApply i o =>
      match nth_error h i with
      | None => (h, HNoObject)
      | Some ob =>
          if frozen ob then
            if mutator_method o then (h, HAttributeError)
            else match rebind_value (items ob) o with
                 | Some l => (h ++ [{| frozen := true; items := from_iter l |}], HOut OUnit)
                 | None => let '(l, r) := step (items ob) o in
                           (set_nth h i {| frozen := true; items := l |}, HOut r)
                 end
          else let '(l, r) := step (items ob) o in
               (set_nth h i {| frozen := false; items := l |}, HOut r)
      end
  end.

Definition hrun (h : heap) (ops : list hop) : heap := fold_left (fun h o => fst (hstep h o)) ops h.

(* operations of a history that act on object j *)
Fixpoint proj (j : nat) (ops : list hop) : list op :=
  match ops with
  | [] => []
  | HApply i o :: r => if Nat.eqb i j then o :: proj j r else proj j r
  | _ :: r => proj j r
  end.

(* ---- correspondence: the harness records, after every step, the content of every object ---- *)
Definition hout_eqb (a b : hout) : bool :=
  match a, b with
  | HOut x, HOut y => out_eqb x y
  | HAttributeError, HAttributeError | HNoObject, HNoObject => true
  | _, _ => false
  end.

Definition obj_eqb (a : obj) (b : bool * list Z) : bool := Bool.eqb (frozen a) (fst b) && list_eqb (items a) (snd b).

Fixpoint heap_eqb (h : heap) (w : list (bool * list Z)) : bool :=
  match h, w with
  | [], [] => true
  | a :: r, b :: s => obj_eqb a b && heap_eqb r s
  | _, _ => false
  end.

Definition hobs := (list (bool * list Z) * hout)%type.

Fixpoint hrun_check (h : heap) (hist : list (hop * hobs)) : bool :=
  match hist with
  | [] => true
  | (o, (w, r)) :: rest =>
      let '(h1, r1) := hstep h o in
      heap_eqb h1 w && hout_eqb r1 r && hrun_check h1 rest
  end.

Definition hcase := list (hop * hobs).
Definition check_hcase (c : hcase) : bool := hrun_check [] c.

End C34H.
