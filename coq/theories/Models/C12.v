(* C12 — executable model of pynguin.ga.computation_cache.ComputationCache together with the
   `changed` flag of Chromosome, TestCaseChromosomeComputation._run_test_case_chromosome and
   TestSuiteChromosomeComputation._run_test_suite_chromosome (after the repair of _check_cache:
   the flag is cleared only when values were computed).  Definitions only; proofs in Proofs/C12.v.

   A cached object ("chromosome") is a body B, the dirty flag, the registered fitness / coverage
   functions (integer ids) and three dict caches.  Executing the body yields a result R; fitness,
   covered verdicts and coverage are deterministic functions of (function id, result).
   Test case: body = (content code, last execution result = code of the content executed), R = Z.
   Test suite: body = list of test-case chromosomes, R = list of results. *)
From Coq Require Import List ZArith Bool.
Import ListNotations.
Open Scope Z_scope.

Module C12.

(* ---- dicts with insertion order ---- *)
Section Assoc.
Context {V : Type}.
Fixpoint lookup (k : Z) (l : list (Z * V)) : option V :=
  match l with
  | [] => None
  | (k', v) :: r => if Z.eqb k k' then Some v else lookup k r
  end.
Definition has (k : Z) (l : list (Z * V)) : bool :=
  match lookup k l with Some _ => true | None => false end.
Fixpoint put (k : Z) (v : V) (l : list (Z * V)) : list (Z * V) :=
  match l with
  | [] => [(k, v)]
  | (k', v') :: r => if Z.eqb k k' then (k, v) :: r else (k', v') :: put k v r
  end.
Definition keys (l : list (Z * V)) : list Z := map fst l.
End Assoc.

Definition zsum (l : list Z) : Z := fold_right Z.add 0 l.
Definition len {A} (l : list A) : Z := Z.of_nat (length l).

Inductive err := KeyError | StatisticsError | OtherError.
Inductive out := OUnit | OVal (v : Z) | OBool (b : bool) | OMean (sum n : Z) | OErr (e : err).

Record cobj (B : Type) := mk {
  body : B; changed : bool;
  funcs : list Z; cfuncs : list Z;
  fit : list (Z * Z); isc : list (Z * bool); cov : list (Z * Z) }.
Arguments mk {B}. Arguments body {B}. Arguments changed {B}. Arguments funcs {B}.
Arguments cfuncs {B}. Arguments fit {B}. Arguments isc {B}. Arguments cov {B}.

Inductive which := WFit | WIsc | WCov.

(* operations of the Chromosome / ComputationCache interface *)
Inductive gop (B : Type) :=
  | Edit (b : B) (flag : bool)         (* any operator: new body, new value of `changed` *)
  | Clone
  | AddFit (f : Z) | AddCov (c : Z)
  | GetFitness | GetFitnessFor (f : Z) | GetIsCovered (f : Z)
  | GetCoverage | GetCoverageFor (c : Z)
  | Invalidate
  | SetFit (f v : Z) | SetCov (c v : Z).
Arguments Edit {B}. Arguments Clone {B}. Arguments AddFit {B}. Arguments AddCov {B}.
Arguments GetFitness {B}. Arguments GetFitnessFor {B}. Arguments GetIsCovered {B}.
Arguments GetCoverage {B}. Arguments GetCoverageFor {B}. Arguments Invalidate {B}.
Arguments SetFit {B}. Arguments SetCov {B}.

Section Cache.
Variables B R : Type.
(* executing the chromosome: body, flag |-> new body, new flag, result *)
Variable run : B -> bool -> (B * bool) * R.
Variable F : Z -> R -> Z.
Variable K : Z -> R -> bool.
Variable C : Z -> R -> Z.

Definition with_exec (o : cobj B) (b : B) (ch : bool) : cobj B :=
  mk b ch (funcs o) (cfuncs o) (fit o) (isc o) (cov o).
Definition with_caches (o : cobj B) fi isv co : cobj B :=
  mk (body o) (changed o) (funcs o) (cfuncs o) fi isv co.
Definition with_funcs (o : cobj B) fs cs : cobj B :=
  mk (body o) (changed o) fs cs (fit o) (isc o) (cov o).

Definition exec (o : cobj B) : cobj B * R :=
  let '((b, ch), r) := run (body o) (changed o) in (with_exec o b ch, r).

(* loop bodies of _compute_fitness / _compute_is_covered / _compute_coverage *)
Definition one (w : which) (o : cobj B) (f : Z) : cobj B :=
  match w with
  | WFit => if has f (fit o) then o else
      let (o1, r) := exec o in
      with_caches o1 (put f (F f r) (fit o1)) (put f (F f r =? 0) (isc o1)) (cov o1)
  | WIsc => if has f (isc o) then o else
      let (o1, r) := exec o in
      with_caches o1 (fit o1) (put f (K f r) (isc o1)) (cov o1)
  | WCov => if has f (cov o) then o else
      let (o1, r) := exec o in
      with_caches o1 (fit o1) (isc o1) (put f (C f r) (cov o1))
  end.

Definition registered (w : which) (o : cobj B) : list Z :=
  match w with WCov => cfuncs o | _ => funcs o end.
Definition cache_len (w : which) (o : cobj B) : Z :=
  match w with WFit => len (fit o) | WIsc => len (isc o) | WCov => len (cov o) end.

Definition comp (w : which) (only : option Z) (o : cobj B) : cobj B :=
  fold_left (one w) (match only with None => registered w o | Some f => [f] end) o.

Definition invalidate (o : cobj B) : cobj B := with_caches o [] [] [].

(* ComputationCache._check_cache *)
Definition check_cache (w : which) (only : option Z) (o : cobj B) : cobj B :=
  if changed o then
    let o1 := comp w only (invalidate o) in
    if 0 <? cache_len w o1 then with_exec o1 (body o1) false else o1
  else if negb (cache_len w o =? len (registered w o)) then comp w only o
  else o.

Definition get {V} (k : Z) (l : list (Z * V)) (mkout : V -> out) : out :=
  match lookup k l with Some v => mkout v | None => OErr KeyError end.

Definition step (o : cobj B) (op : gop B) : cobj B * out :=
  match op with
  | Edit b flag => (with_exec o b flag, OUnit)
  | Clone => (o, OUnit)
  | AddFit f => (with_funcs o (funcs o ++ [f]) (cfuncs o), OUnit)
  | AddCov c => (with_funcs o (funcs o) (cfuncs o ++ [c]), OUnit)
  | GetFitness => let o1 := check_cache WFit None o in (o1, OVal (zsum (map snd (fit o1))))
  | GetFitnessFor f => let o1 := check_cache WFit (Some f) o in (o1, get f (fit o1) OVal)
  | GetIsCovered f => let o1 := check_cache WIsc (Some f) o in (o1, get f (isc o1) OBool)
  | GetCoverage => let o1 := check_cache WCov None o in
      (o1, match cov o1 with [] => OErr StatisticsError
           | _ => OMean (zsum (map snd (cov o1))) (len (cov o1)) end)
  | GetCoverageFor c => let o1 := check_cache WCov (Some c) o in (o1, get c (cov o1) OVal)
  | Invalidate => (invalidate o, OUnit)
  | SetFit f v => (with_caches o (put f v (fit o)) (isc o) (cov o), OUnit)
  | SetCov c v => (with_caches o (fit o) (isc o) (put c v (cov o)), OUnit)
  end.
End Cache.

Arguments with_exec {B}. Arguments with_caches {B}. Arguments with_funcs {B}.
Arguments exec {B R}. Arguments one {B R}. Arguments registered {B}. Arguments cache_len {B}.
Arguments comp {B R}. Arguments invalidate {B}. Arguments check_cache {B R}. Arguments step {B R}.

(* ---- deterministic stub oracles ---- *)
Record oracles := {
  tF : Z -> Z -> Z; tK : Z -> Z -> bool; tC : Z -> Z -> Z;
  sF : Z -> list Z -> Z; sK : Z -> list Z -> bool; sC : Z -> list Z -> Z }.

(* ---- test-case chromosomes ---- *)
Definition tbody := (Z * option Z)%type.        (* content code, last execution result *)
Definition tc := cobj tbody.
Definition content (t : tc) : Z := fst (body t).
Definition last (t : tc) : option Z := snd (body t).

(* TestCaseChromosomeComputation._run_test_case_chromosome (executing content c yields c) *)
Definition trun (b : tbody) (ch : bool) : (tbody * bool) * Z :=
  match snd b with
  | Some r => if ch then ((fst b, Some (fst b)), false, fst b) else (b, ch, r)
  | None => ((fst b, Some (fst b)), false, fst b)
  end.

Definition top := gop tbody.
Definition tstep (O : oracles) (t : tc) (op : top) : tc * out :=
  step trun (tF O) (tK O) (tC O) t op.
Definition tnew (c : Z) : tc := mk (c, None) true [] [] [] [] [].

(* ---- test-suite chromosomes ---- *)
Definition suite := cobj (list tc).

(* one member inside _run_test_suite_chromosome *)
Definition exec_member (t : tc) : tc * Z :=
  match last t with
  | Some r => if changed t then (invalidate (with_exec t (content t, Some (content t)) false), content t)
              else (t, r)
  | None => (invalidate (with_exec t (content t, Some (content t)) false), content t)
  end.
Definition srun (b : list tc) (ch : bool) : (list tc * bool) * list Z :=
  ((map (fun t => fst (exec_member t)) b, ch), map (fun t => snd (exec_member t)) b).

Inductive sop :=
  | SG (op : gop (list tc))
  | SMember (i : nat) (op : top) (sflag : bool).   (* operate on member i; sflag: also sets the suite flag *)

Fixpoint upd_nth {A} (i : nat) (x : A) (l : list A) : list A :=
  match l, i with
  | [], _ => []
  | _ :: r, O => x :: r
  | y :: r, S j => y :: upd_nth j x r
  end.

Definition sstep (O : oracles) (s : suite) (op : sop) : suite * out :=
  match op with
  | SG g => step srun (sF O) (sK O) (sC O) s g
  | SMember i top sf =>
      match nth_error (body s) i with
      | Some t => let (t', o) := tstep O t top in
                  (with_exec s (upd_nth i t' (body s)) (changed s || sf), o)
      | None => (s, OUnit)
      end
  end.
Definition snew : suite := mk [] true [] [] [] [] [].

(* ---- correspondence: the harness records the full state after every step ---- *)
Definition list_eqb {A} (e : A -> A -> bool) (a b : list A) : bool :=
  Nat.eqb (length a) (length b) && forallb (fun p => e (fst p) (snd p)) (combine a b).
Definition opt_eqb (a b : option Z) : bool :=
  match a, b with Some x, Some y => Z.eqb x y | None, None => true | _, _ => false end.
Definition zz_eqb (a b : Z * Z) := Z.eqb (fst a) (fst b) && Z.eqb (snd a) (snd b).
Definition zb_eqb (a b : Z * bool) := Z.eqb (fst a) (fst b) && Bool.eqb (snd a) (snd b).
Definition out_eqb (a b : out) : bool :=
  match a, b with
  | OUnit, OUnit => true
  | OVal x, OVal y => Z.eqb x y
  | OBool x, OBool y => Bool.eqb x y
  | OMean s n, OMean s' n' => Z.eqb s s' && Z.eqb n n'
  | OErr KeyError, OErr KeyError | OErr StatisticsError, OErr StatisticsError => true
  | _, _ => false
  end.
Definition cobj_eqb {B} (e : B -> B -> bool) (a b : cobj B) : bool :=
  e (body a) (body b) && Bool.eqb (changed a) (changed b)
  && list_eqb Z.eqb (funcs a) (funcs b) && list_eqb Z.eqb (cfuncs a) (cfuncs b)
  && list_eqb zz_eqb (fit a) (fit b) && list_eqb zb_eqb (isc a) (isc b) && list_eqb zz_eqb (cov a) (cov b).
Definition tbody_eqb (a b : tbody) := Z.eqb (fst a) (fst b) && opt_eqb (snd a) (snd b).
Definition tc_eqb : tc -> tc -> bool := cobj_eqb tbody_eqb.
Definition suite_eqb : suite -> suite -> bool := cobj_eqb (list_eqb tc_eqb).

(* table-driven oracles: tab f c; suite functions fold the table over the results in order *)
Definition tab (t : list (list Z)) (f c : Z) : Z :=
  nth (Z.to_nat c) (nth (Z.to_nat f) t []) 0.
Definition sfold (t : list (list Z)) (salt : Z) (f : Z) (rs : list Z) : Z :=
  fold_left (fun acc r => (acc * 3 + tab t f r + salt) mod 5) rs 0.
Record tables := { ftab : list (list Z); ktab : list (list Z); ctab : list (list Z); scons : bool }.
Definition mk_oracles (T : tables) : oracles := {|
  tF := tab (ftab T); tK := fun f c => tab (ktab T) f c =? 1; tC := tab (ctab T);
  sF := sfold (ftab T) 1;
  sK := fun f rs => if scons T then sfold (ftab T) 1 f rs =? 0
                    else existsb (fun r => tab (ktab T) f r =? 1) rs;
  sC := sfold (ctab T) 2 |}.

Fixpoint trun_check (O : oracles) (t : tc) (h : list (top * (tc * out))) : bool :=
  match h with
  | [] => true
  | (op, (t', o')) :: rest =>
      let (t1, o1) := tstep O t op in
      tc_eqb t1 t' && out_eqb o1 o' && trun_check O t1 rest
  end.
Fixpoint srun_check (O : oracles) (s : suite) (h : list (sop * (suite * out))) : bool :=
  match h with
  | [] => true
  | (op, (s', o')) :: rest =>
      let (s1, o1) := sstep O s op in
      suite_eqb s1 s' && out_eqb o1 o' && srun_check O s1 rest
  end.

Definition tcase := (tables * (Z * list (top * (tc * out))))%type.   (* tables, initial content, history *)
Definition check_tcase (c : tcase) : bool :=
  trun_check (mk_oracles (fst c)) (tnew (fst (snd c))) (snd (snd c)).
Definition scase := (tables * list (sop * (suite * out)))%type.
Definition check_scase (c : scase) : bool :=
  srun_check (mk_oracles (fst c)) snew (snd c).

(* whole histories *)
Definition trun_hist (O : oracles) (t : tc) (ops : list top) : tc :=
  fold_left (fun t op => fst (tstep O t op)) ops t.
Definition srun_hist (O : oracles) (s : suite) (ops : list sop) : suite :=
  fold_left (fun s op => fst (sstep O s op)) ops s.

End C12.
