(* C31 — thin orchestration model of SubprocessTestCaseExecutor
   (src/pynguin/testcase/subprocess_executor.py: execute_multiple, _process_subprocess_results,
   _fallback_on_failure, _fix_result_for_pickle, _fix_assertion_trace / _create_variable_binding).
   Definitions only; proofs in Proofs/C31.v.

   The in-process executor is a black box [E : test -> res]; what a subprocess does to a batch is the
   adversary's choice: the batch subprocess either returns its results or fails (crash, timeout, broken
   pipe), and then every test case is re-executed in a subprocess of its own, which again returns or
   fails.  A result is a list of items, each picklable or not; transport drops the unpicklable ones.
   Everything below the orchestration (pickling, multiprocess, fork) is outside the model. *)
From Coq Require Import List ZArith Bool.
Import ListNotations.
Open Scope Z_scope.

Module C31.

Section Orchestration.
  Context {test item : Type}.
  Variable E : test -> list item.            (* in-process execution: the items of the result *)
  Variable picklable : item -> bool.

  Inductive res := Timeout | Items (l : list item).

  (* _fix_result_for_pickle + pipe: unpicklable items are dropped, the rest arrives unchanged, in order *)
  Definition transport (l : list item) : list item := filter picklable l.

  Definition via_subprocess (t : test) : res := Items (transport (E t)).

  (* one subprocess per test (fallback): ok = the subprocess returned a result *)
  Definition single (t : test) (ok : bool) : res := if ok then via_subprocess t else Timeout.

  Fixpoint fallback (ts : list test) (oks : list bool) : list res :=
    match ts with
    | [] => []
    | t :: r => single t (hd false oks) :: fallback r (tl oks)
    end.

  (* execute_multiple: batch_ok = the batch subprocess returned; singles = outcome of each fallback run *)
  Definition execute_multiple (ts : list test) (batch_ok : bool) (singles : list bool) : list res :=
    match ts with
    | [] => []
    | _ =>
        if batch_ok then map via_subprocess ts
        else match ts with
             | [_] => [Timeout]                      (* a failed single-test batch is not retried *)
             | _ => fallback ts singles
             end
    end.

  Definition in_process (ts : list test) : list res := map (fun t => Items (E t)) ts.
End Orchestration.

Arguments Timeout {item}.
Arguments Items {item} l.

(* ---- _fix_assertion_trace ------------------------------------------------------------------------
   bindings: statement position -> variable name (a dict: keys unique); names are numbers here.
   memo = {new_name : old[position]}; every assertion source is renamed through memo, names that are
   not in memo are kept (Assertion.clone: memo.get(source, source)). *)
Definition bindings := list (Z * Z).

Fixpoint lookup (b : bindings) (k : Z) : option Z :=
  match b with
  | [] => None
  | (k', v) :: r => if Z.eqb k k' then Some v else lookup r k
  end.

(* dict comprehension: a later entry with the same key wins; None = KeyError (position missing in old) *)
Fixpoint memo_of (old new : bindings) (acc : bindings) : option bindings :=
  match new with
  | [] => Some acc
  | (p, nw) :: r =>
      match lookup old p with
      | Some o => memo_of old r ((nw, o) :: acc)
      | None => None
      end
  end.

Definition rename (memo : bindings) (v : Z) : Z :=
  match lookup memo v with Some o => o | None => v end.

(* an assertion trace: position -> list of (assertion kind/value code, source variable) *)
Definition atrace := list (Z * list (Z * Z)).

Definition fix_trace (old new : bindings) (tr : atrace) : option atrace :=
  match memo_of old new [] with
  | Some memo => Some (map (fun pe => (fst pe, map (fun a => (fst a, rename memo (snd a))) (snd pe))) tr)
  | None => None
  end.

(* ---- correspondence: orchestration cases over tests identified by numbers -------------------------
   A case gives, per test, the items of its in-process result with their picklability, the adversary's
   choices, and what the real executor returned (None = timeout result, Some l = item codes). *)
Fixpoint eqb_listZ (a b : list Z) : bool :=
  match a, b with
  | [], [] => true
  | x :: a', y :: b' => Z.eqb x y && eqb_listZ a' b'
  | _, _ => false
  end.

Definition eqb_res (a : @res Z) (b : option (list Z)) : bool :=
  match a, b with
  | Timeout, None => true
  | Items l, Some l' => eqb_listZ l l'
  | _, _ => false
  end.

Fixpoint eqb_ress (a : list (@res Z)) (b : list (option (list Z))) : bool :=
  match a, b with
  | [], [] => true
  | x :: a', y :: b' => eqb_res x y && eqb_ress a' b'
  | _, _ => false
  end.

Record case := {
  c_tests : list (list (Z * bool));      (* per test: its in-process items (code, picklable) *)
  c_batch_ok : bool; c_singles : list bool;
  c_observed : list (option (list Z)) }.

Definition check_case (c : case) : bool :=
  eqb_ress (map (fun r : @res (Z * bool) => match r with Timeout => Timeout | Items l => Items (map fst l) end)
                (execute_multiple (fun t : list (Z * bool) => t) (fun it => snd it)
                                  (c_tests c) (c_batch_ok c) (c_singles c)))
           (c_observed c).

Record fcase := { f_old : bindings; f_new : bindings; f_trace : atrace; f_observed : option atrace }.

Fixpoint eqb_pairs (a b : list (Z * Z)) : bool :=
  match a, b with
  | [], [] => true
  | (x, y) :: a', (x', y') :: b' => Z.eqb x x' && Z.eqb y y' && eqb_pairs a' b'
  | _, _ => false
  end.

Fixpoint eqb_atrace (a b : atrace) : bool :=
  match a, b with
  | [], [] => true
  | (p, l) :: a', (p', l') :: b' => Z.eqb p p' && eqb_pairs l l' && eqb_atrace a' b'
  | _, _ => false
  end.

Definition check_fcase (c : fcase) : bool :=
  match fix_trace (f_old c) (f_new c) (f_trace c), f_observed c with
  | None, None => true
  | Some a, Some b => eqb_atrace a b
  | _, _ => false
  end.

(* ---- time limits handed to the child process ---------------------------------------------------------
   Both executors give a test case of [size] statements the budget min(maximum, per_statement * size)
   (TestCaseExecutor.execute, SubprocessTestCaseExecutor._calculate_timeout).  The child-side executor is
   built from the two limits the parent passes through the process arguments. *)
Definition budget (mx per size : Z) : Z := Z.min mx (per * size).

Record lcase := {
  l_parent : Z * Z;              (* (maximum_test_execution_timeout, test_execution_time_per_statement) of the parent *)
  l_child : list (Z * Z);        (* the same two attributes of every TestCaseExecutor built in a child process *)
  l_sizes : list Z;
  l_budgets : list Z }.          (* parent-side _calculate_timeout for test cases of these sizes *)

Definition same_limits (a b : Z * Z) : bool := Z.eqb (fst a) (fst b) && Z.eqb (snd a) (snd b).

Definition check_lcase (c : lcase) : bool :=
  forallb (same_limits (l_parent c)) (l_child c)
  && eqb_listZ (map (budget (fst (l_parent c)) (snd (l_parent c))) (l_sizes c)) (l_budgets c).

End C31.
