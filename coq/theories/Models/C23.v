(* C23 — executable model of pynguin.testcase.literalgen (after the proposed fix
   C23-float-negzero): the renderers _int_to_cst / _float_to_cst / _complex_to_cst / literal_to_cst /
   _collection_to_cst, the parsers _parse_int / _parse_float / _parse_component / _parse_complex /
   _parse_primitive_literal / parse_literal (with ast.literal_eval on the fragment), and
   generate_literal / mutate_literal as functions of a draw oracle.  Definitions only.

   Tokens are abstract (Section variables): [repr_*] produce them, [parse_*] read them. *)
From Coq Require Import List ZArith NArith Bool String.
From Coq Require Import PrimFloat.
From Verif Require Import Base.PyExpr.
Import ListNotations.
Open Scope Z_scope.

Module C23.
Import PyExpr.

Inductive ty := TBool | TInt | TFloat | TComplex | TStr | TBytes | TList | TSet | TTuple | TDict | TNone.

Definition has_type (t : ty) (v : value) : bool :=
  match t, v with
  | TBool, VBool _ | TInt, VInt _ | TFloat, VFloat _ | TComplex, VComplex _ _ | TStr, VStr _
  | TBytes, VBytes _ | TList, VList _ | TSet, VSet _ | TTuple, VTuple _ | TDict, VDict _ | TNone, VNone => true
  | _, _ => false
  end.

(* isinstance(value, raw) as used by parse_literal for the collection types / raw = None *)
Definition isinstance_raw (t : ty) (v : value) : bool :=
  match t with
  | TNone => true
  | TInt => match v with VInt _ | VBool _ => true | _ => false end
  | _ => has_type t v
  end.

Definition scalar (t : ty) : bool :=
  match t with TList | TSet | TTuple | TDict => false | _ => true end.

(* element draws for collection literals: a primitive literal or a pooled reference (a name) *)
Inductive elem := ElBool (b : bool) | ElInt (z : Z) | ElFloat (f : float) | ElStr (s : pystr) | ElRef (n : string).

Record draws := {
  d_perturb : bool;            (* next_float() < random_perturbation *)
  d_bool : bool;
  d_int : Z;                   (* seeded / special / gaussian integer, or the mutation delta *)
  d_float : float;             (* seeded / gaussian float, the mutation delta, or a rounded component *)
  d_re : float; d_im : float;
  d_str : pystr; d_bytes : pystr;
  d_empty : bool;              (* next_bool(): empty collection / remove instead of append *)
  d_first : elem; d_rest : list elem;
  d_key : pystr; d_keys : list pystr;
  d_idx : nat;                 (* index drawn for removal *)
  d_choice : nat; d_which : bool    (* complex mutation: kind of change, component *)
}.

Section Atoms.
  Variables ftok itok stok btok : Type.
  Variable repr_float : float -> ftok.       (* repr(x), x finite with clear sign bit *)
  Variable repr_nat : Z -> itok.             (* str(n), n >= 0 *)
  Variable repr_str : pystr -> stok.         (* repr(s) of a str *)
  Variable repr_bytes : pystr -> btok.       (* repr(b) of a bytes *)
  Variable parse_float : ftok -> float.
  Variable parse_int : itok -> Z.
  Variable parse_str : stok -> pystr.
  Variable parse_bytes : btok -> pystr.
  Variable float_of_Z : Z -> float.          (* float(n) *)

  Notation expr := (PyExpr.expr ftok itok stok btok).
  Notation eval := (PyExpr.eval parse_float parse_int parse_str parse_bytes).

  (* ------------------------------------------------------------------------------------------ *)
  (* rendering *)
  Definition bool_name (b : bool) : expr := EName (if b then "True" else "False")%string.

  Definition int_to_cst (z : Z) : expr :=
    if z <? 0 then ENeg (EInt (repr_nat (Z.abs z))) else EInt (repr_nat z).

  Definition float_call (s : string) : expr := ECall (EName "float") [EStr (repr_str (s2l s))] [].

  (* abs_val = abs(value); not isfinite -> float('inf') / float('nan'), else Float(repr(abs_val));
     negative (value < 0 or value == 0 with the sign bit set) -> UnaryOperation(Minus, inner) *)
  Definition float_to_cst (f : float) : expr :=
    let a := PrimFloat.abs f in
    let inner := if ffinite a then EFloat (repr_float a)
                 else float_call (if fnan a then "nan" else "inf") in
    if fneg f then ENeg inner else inner.

  Definition complex_to_cst (re im : float) : expr :=
    ECall (EName "complex") [float_to_cst re; float_to_cst im] [].

  Definition set_call : expr := ECall (EName "set") [] [].

  Fixpoint literal_to_cst (v : value) : expr :=
    match v with
    | VBool b => bool_name b
    | VInt z => int_to_cst z
    | VFloat f => float_to_cst f
    | VComplex a b => complex_to_cst a b
    | VStr s => EStr (repr_str s)
    | VBytes s => EBytes (repr_bytes s)
    | VList l => EList (map literal_to_cst l)
    | VTuple l => ETuple (map literal_to_cst l)
    | VSet l => match l with [] => set_call | _ => ESet (map literal_to_cst l) end
    | VDict l => EDict (map (fun kv => (literal_to_cst (fst kv), literal_to_cst (snd kv))) l)
    | _ => EName "None"
    end.

  (* values that have a literal representation *)
  Fixpoint literal_value (v : value) : bool :=
    match v with
    | VNone | VBool _ | VInt _ | VFloat _ | VComplex _ _ | VStr _ | VBytes _ => true
    | VList l | VTuple l | VSet l => forallb literal_value l
    | VDict l => forallb (fun kv => literal_value (fst kv) && literal_value (snd kv)) l
    | _ => false
    end.

  (* ------------------------------------------------------------------------------------------ *)
  (* parsing *)
  Definition parse_int_e (e : expr) : option Z :=
    match e with
    | EInt t => Some (parse_int t)
    | ENeg (EInt t) => Some (- parse_int t)
    | _ => None
    end.

  Definition parse_float_e (e : expr) : option float :=
    match e with
    | EFloat t => Some (parse_float t)
    | ENeg (EFloat t) => Some (PrimFloat.opp (parse_float t))
    | _ => None
    end.

  Definition parse_component (e : expr) : option float :=
    match parse_float_e e with
    | Some f => Some f
    | None => match parse_int_e e with Some z => Some (float_of_Z z) | None => None end
    end.

  Definition parse_complex (e : expr) : option value :=
    match e with
    | ECall (EName "complex") args kw =>
        (* len(expr.args) == 2 counts keyword arguments too; their names are not looked at *)
        match args ++ map snd kw with
        | [a; b] => match parse_component a, parse_component b with
                    | Some x, Some y => Some (VComplex x y)
                    | _, _ => None
                    end
        | _ => None
        end
    | _ => None
    end.

  (* ast.literal_eval on the rendered fragment *)
  Fixpoint literal_eval (e : expr) : res value :=
    match e with
    | EName n => if String.eqb n "None" then Ok VNone
                 else if String.eqb n "True" then Ok (VBool true)
                 else if String.eqb n "False" then Ok (VBool false)
                 else Err ValueError
    | EFloat t => Ok (VFloat (parse_float t))
    | EInt t => Ok (VInt (parse_int t))
    | EStr t => Ok (VStr (parse_str t))
    | EBytes t => Ok (VBytes (parse_bytes t))
    | ENeg (EInt t) => Ok (VInt (- parse_int t))
    | ENeg (EFloat t) => Ok (VFloat (PrimFloat.opp (parse_float t)))
    | EList l => match mapM literal_eval l with Ok vs => Ok (VList vs) | Err x => Err x end
    | ETuple l => match mapM literal_eval l with Ok vs => Ok (VTuple vs) | Err x => Err x end
    | ESet l => match l with
                | [] => Err ValueError
                | _ => match mapM literal_eval l with
                       | Ok vs => if forallb hashable vs then Ok (VSet (set_build [] vs)) else Err TypeError
                       | Err x => Err x
                       end
                end
    | EDict l =>
        match mapM (fun p => match literal_eval (fst p) with
                             | Ok k => match literal_eval (snd p) with Ok v => Ok (k, v) | Err x => Err x end
                             | Err x => Err x
                             end) l with
        | Ok kvs => if forallb (fun kv => hashable (fst kv)) kvs then Ok (VDict (dict_build [] kvs)) else Err TypeError
        | Err x => Err x
        end
    | ECall (EName "set") [] [] => Ok (VSet [])
    | _ => Err ValueError
    end.

  Definition parse_literal (e : expr) (t : ty) : option value :=
    match t with
    | TComplex => parse_complex e
    | TBool => match e with
               | EName n => if String.eqb n "True" then Some (VBool true)
                            else if String.eqb n "False" then Some (VBool false) else None
               | _ => None
               end
    | TInt => option_map VInt (parse_int_e e)
    | TFloat => option_map VFloat (parse_float_e e)
    | TStr => match e with EStr t => Some (VStr (parse_str t)) | _ => None end
    | TBytes => match e with EBytes t => Some (VBytes (parse_bytes t)) | _ => None end
    | _ => match literal_eval e with
           | Ok v => if isinstance_raw t v then Some v else None
           | Err _ => None
           end
    end.

  (* values for which parse_literal inverts literal_to_cst: finite floats; complex only at top level
     (ast.literal_eval knows no calls except set()) *)
  Fixpoint plain (v : value) : bool :=
    match v with
    | VNone | VBool _ | VInt _ | VStr _ | VBytes _ => true
    | VFloat f => ffinite f
    | VList l | VTuple l | VSet l => forallb plain l
    | VDict l => forallb (fun kv => plain (fst kv) && plain (snd kv)) l
    | _ => false
    end.

  Definition parseable (t : ty) (v : value) : bool :=
    match t, v with
    | TComplex, VComplex a b => ffinite a && ffinite b
    | TComplex, _ => false
    | TNone, _ => plain v
    | _, _ => has_type t v && plain v
    end.

  (* ------------------------------------------------------------------------------------------ *)
  (* generation and mutation, as functions of the draws *)
  Definition elem_expr (d : elem) : expr :=
    match d with
    | ElBool b => bool_name b
    | ElInt z => int_to_cst z
    | ElFloat f => float_to_cst f
    | ElStr s => EStr (repr_str s)
    | ElRef n => EName n
    end.

  Definition gen_items (d : draws) : list (expr * expr) :=
    combine (map (fun k => EStr (repr_str k)) (d_key d :: d_keys d)) (map elem_expr (d_first d :: d_rest d)).

  Definition generate_literal (t : ty) (d : draws) : expr :=
    match t with
    | TBool => bool_name (d_bool d)
    | TInt => int_to_cst (d_int d)
    | TFloat => float_to_cst (d_float d)
    | TComplex => complex_to_cst (d_re d) (d_im d)
    | TStr => EStr (repr_str (d_str d))
    | TBytes => EBytes (repr_bytes (d_bytes d))
    | TList => if d_empty d then EList [] else EList (map elem_expr (d_first d :: d_rest d))
    | TSet => if d_empty d then set_call else ESet (map elem_expr (d_first d :: d_rest d))
    | TTuple => if d_empty d then ETuple [] else ETuple (map elem_expr (d_first d :: d_rest d))
    | TDict => if d_empty d then EDict [] else EDict (gen_items d)
    | TNone => EName "None"
    end.

  Definition remove_nth {A} (n : nat) (l : list A) : list A := firstn n l ++ skipn (S n) l.

  Definition mutate_seq (l : list expr) (d : draws) : list expr :=
    match l with
    | _ :: _ => if d_empty d then remove_nth (d_idx d) l else l ++ [elem_expr (d_first d)]
    | [] => [elem_expr (d_first d)]
    end.

  Definition dispatch_mutate (e : expr) (t : ty) (d : draws) : expr :=
    match t with
    | TBool => match e with
               | EName n => bool_name (negb (String.eqb n "True"))
               | _ => bool_name (d_bool d)
               end
    | TInt => match parse_int_e e with
              | Some c => int_to_cst (c + d_int d)
              | None => generate_literal TInt d
              end
    | TFloat => match parse_float_e e with
                | Some c => float_to_cst (PrimFloat.add c (d_float d))
                | None => generate_literal TFloat d
                end
    | TComplex => match parse_complex e with
                  | Some (VComplex a b) =>
                      (* choice 0/1: component + delta; choice 2: component re-rounded (the rounded
                         value is the draw) *)
                      let upd x := match d_choice d with
                                   | 0%nat | 1%nat => PrimFloat.add x (d_float d)
                                   | _ => d_float d
                                   end in
                      if d_which d then complex_to_cst (upd a) b else complex_to_cst a (upd b)
                  | _ => generate_literal TComplex d
                  end
    | TStr => match e with
              | EStr _ => EStr (repr_str (d_str d))         (* insert / delete / replace one character *)
              | _ => generate_literal TStr d
              end
    | TBytes => match e with
                | EBytes _ => EBytes (repr_bytes (d_bytes d))
                | _ => generate_literal TBytes d
                end
    | TList => match e with EList l => EList (mutate_seq l d) | _ => generate_literal TList d end
    | TTuple => match e with ETuple l => ETuple (mutate_seq l d) | _ => generate_literal TTuple d end
    | TDict => match e with
               | EDict l => match l with
                            | _ :: _ => if d_empty d then EDict (remove_nth (d_idx d) l)
                                        else EDict (l ++ [(EStr (repr_str (d_key d)), elem_expr (d_first d))])
                            | [] => EDict [(EStr (repr_str (d_key d)), elem_expr (d_first d))]
                            end
               | _ => generate_literal TDict d
               end
    | TSet => match e with
              | ECall _ _ _ => ESet [elem_expr (d_first d)]
              | ESet l => match l with
                          | _ :: _ => if d_empty d
                                      then match remove_nth (d_idx d) l with [] => set_call | l' => ESet l' end
                                      else ESet (l ++ [elem_expr (d_first d)])
                          | [] => ESet [elem_expr (d_first d)]
                          end
              | _ => generate_literal TSet d
              end
    | TNone => generate_literal TNone d
    end.

  Definition mutate_literal (e : expr) (t : ty) (d : draws) : expr :=
    if d_perturb d then generate_literal t d else dispatch_mutate e t d.

  (* ------------------------------------------------------------------------------------------ *)
  (* the shapes the generator stays in *)
  Definition is_call (e : expr) (name : string) : option (list expr * list (string * expr)) :=
    match e with
    | ECall (EName n) args kw => if String.eqb n name then Some (args, kw) else None
    | _ => None
    end.

  Definition float_inner_shape (e : expr) : bool :=
    match e with
    | EFloat _ => true
    | _ => match is_call e "float" with
           | Some ([EStr t], []) => pystr_eqb (parse_str t) (s2l "inf") || pystr_eqb (parse_str t) (s2l "nan")
           | _ => false
           end
    end.

  Definition float_shape (e : expr) : bool :=
    match e with ENeg a => float_inner_shape a | _ => float_inner_shape e end.

  Definition int_shape (e : expr) : bool :=
    match e with EInt _ | ENeg (EInt _) => true | _ => false end.

  Definition bool_shape (e : expr) : bool :=
    match e with EName n => String.eqb n "True" || String.eqb n "False" | _ => false end.

  Definition elem_shape (e : expr) : bool :=
    bool_shape e || int_shape e || float_shape e
    || match e with EStr _ => true | EName _ => true | _ => false end.

  Definition shape (t : ty) (e : expr) : bool :=
    match t with
    | TBool => bool_shape e
    | TInt => int_shape e
    | TFloat => float_shape e
    | TComplex => match is_call e "complex" with
                  | Some ([a; b], []) => float_shape a && float_shape b
                  | _ => false
                  end
    | TStr => match e with EStr _ => true | _ => false end
    | TBytes => match e with EBytes _ => true | _ => false end
    | TList => match e with EList l => forallb elem_shape l | _ => false end
    | TTuple => match e with ETuple l => forallb elem_shape l | _ => false end
    | TSet => match e with
              | ESet (x :: r) => forallb elem_shape (x :: r)
              | _ => match is_call e "set" with Some ([], []) => true | _ => false end
              end
    | TDict => match e with
               | EDict l => forallb (fun p => match fst p with EStr _ => true | _ => false end && elem_shape (snd p)) l
               | _ => false
               end
    | TNone => match e with EName n => String.eqb n "None" | _ => false end
    end.

  (* the names an expression refers to evaluate, to hashable objects where a set needs them *)
  Definition ref_ok (g : env) (need_hash : bool) (e : expr) : bool :=
    match e with
    | EName n => match eval g (EName n) with
                 | Ok v => if need_hash then hashable v else true
                 | Err _ => false
                 end
    | _ => true
    end.

  Definition refs_ok (g : env) (t : ty) (e : expr) : bool :=
    match t, e with
    | TList, EList l | TTuple, ETuple l => forallb (ref_ok g false) l
    | TSet, ESet l => forallb (ref_ok g true) l
    | TDict, EDict l => forallb (fun p => ref_ok g false (snd p)) l
    | _, _ => true
    end.

  Definition builtins_visible (g : env) : bool :=
    unshadowed g "float" && unshadowed g "complex" && unshadowed g "set".
End Atoms.

(* ---------------------------------------------------------------------------------------------- *)
(* The instance the correspondence evaluates: a token is represented by the value CPython reads from
   its text (the harness parses the real token), so [repr] and [parse] are identities. *)
Definition float_of_Z0 (z : Z) : float :=
  let a := PrimFloat.of_uint63 (Uint63.of_Z (Z.abs z)) in      (* exact rounding below 2^63 *)
  if z <? 0 then PrimFloat.opp a else a.

Definition expr0 := PyExpr.expr float Z pystr pystr.
Definition idf (x : float) := x. Definition idz (x : Z) := x. Definition ids (x : pystr) := x.
Definition eval0 := PyExpr.eval idf idz ids ids.
Definition expr_eqb0 := PyExpr.expr_eqb float_same Z.eqb pystr_eqb pystr_eqb.
Definition literal_to_cst0 := literal_to_cst float Z pystr pystr idf idz ids ids.
Definition parse_literal0 := parse_literal float Z pystr pystr idf idz ids ids float_of_Z0.
Definition shape0 := shape float Z pystr pystr ids.

Definition env_of (l : list (string * value)) : env :=
  fun p => match p with
           | [n] => match find (fun q => String.eqb (fst q) n) l with Some q => Some (snd q) | None => None end
           | _ => None
           end.

Definition opt_same (a b : option value) : bool :=
  match a, b with
  | Some x, Some y => same x y
  | None, None => true
  | Some VNone, None | None, Some VNone => true      (* parse_literal returns None for both *)
  | _, _ => false
  end.

Inductive case :=
  (* value, the expression the implementation rendered (None: it raised), what Python evaluates its
     text to, what parse_literal returns for it under the value's own type *)
  | CRender (v : value) (t : ty) (impl : option expr0) (evaluated : res value) (parsed : option value)
  (* an arbitrary expression through parse_literal *)
  | CParse (e : expr0) (t : ty) (parsed : option value)
  (* generate_literal / mutate_literal output for type t in a namespace, and what Python evaluates it to *)
  | CGen (t : ty) (names : list (string * value)) (out : expr0) (evaluated : res value).

Definition check_case (c : case) : bool :=
  match c with
  | CRender v t impl ev pa =>
      match impl with
      | None => false                                   (* the model never fails to render *)
      | Some e => expr_eqb0 (literal_to_cst0 v) e
                  && res_same (eval0 (env_of []) e) ev
                  && opt_same (parse_literal0 e t) pa
      end
  | CParse e t pa => opt_same (parse_literal0 e t) pa
  | CGen t names out ev => shape0 t out && res_same (eval0 (env_of names) out) ev
  end.

End C23.
