(* C29 — executable model of pynguin.utils.fs_isolation.FilesystemIsolation (after the proposed
   repairs fixes/C29-1-*.diff and fixes/C29-2-*.diff) running over a POSIX-like filesystem.
   Definitions only; proofs are in Proofs/C29.v.

   Paths are lists of name codes relative to the sandbox root ([] = the root directory, which
   always exists).  The filesystem is a function path -> option node; [dom] is a finite list that
   contains every path that may be present (needed to enumerate directory contents: emptiness
   tests and moving/removing subtrees).  [created] is FilesystemIsolation._created.

   Modelled wrappers (see _initialize_patches):
     open-like (builtins.open / io.open / Path.open / os.open / Path.write_text):  Open
     Path.touch: Touch;  os.mkdir / Path.mkdir(exist_ok): Mkdir;  os.makedirs / Path.mkdir(parents): Makedirs
     os.rename / os.replace / Path.rename / Path.replace: Rename
     shutil.copyfile: CopyFile;  shutil.copy / copy2: Copy;  shutil.move: Move
     os.remove / os.unlink / Path.unlink: Remove;  os.rmdir / Path.rmdir: Rmdir;  shutil.rmtree: Rmtree
   Results: ROk, RRefused (PermissionError raised by the isolation layer), RErr (any other error). *)
From Coq Require Import List ZArith Bool.
Import ListNotations.
Open Scope Z_scope.

Module C29.

Definition path := list Z.
Inductive node := File (c : list Z) | Dir.
Definition fsmap := path -> option node.

Fixpoint path_eqb (p q : path) : bool :=
  match p, q with
  | [], [] => true
  | a :: p', b :: q' => Z.eqb a b && path_eqb p' q'
  | _, _ => false
  end.

(* p is a (non-strict) prefix of q: q is p itself or lies below p *)
Fixpoint is_prefix (p q : path) : bool :=
  match p, q with
  | [], _ => true
  | a :: p', b :: q' => Z.eqb a b && is_prefix p' q'
  | _ :: _, [] => false
  end.

Definition parent (p : path) : path := removelast p.
Definition base (p : path) : Z := last p 0.
Definition mem (p : path) (l : list path) : bool := existsb (path_eqb p) l.

Definition content_eqb (a b : list Z) : bool := path_eqb a b.
Definition node_eqb (a b : node) : bool :=
  match a, b with
  | Dir, Dir => true
  | File c, File d => content_eqb c d
  | _, _ => false
  end.
Definition onode_eqb (a b : option node) : bool :=
  match a, b with
  | None, None => true
  | Some x, Some y => node_eqb x y
  | _, _ => false
  end.

Record state := { fs : fsmap; dom : list path; created : list path }.

Definition present (st : state) (p : path) : bool :=
  match fs st p with Some _ => true | None => false end.
Definition is_dir (st : state) (p : path) : bool :=
  match fs st p with Some Dir => true | _ => false end.

(* FilesystemIsolation._is_isolated: the path or one of its parents is recorded *)
Definition isolated (cr : list path) (q : path) : bool := existsb (fun r => is_prefix r q) cr.
(* FilesystemIsolation._is_foreign: exists already, but not created in isolation *)
Definition foreign (st : state) (p : path) : bool := present st p && negb (isolated (created st) p).

Definition has_child (st : state) (p : path) : bool :=
  existsb (fun q => is_prefix p q && negb (path_eqb p q) && present st q) (dom st).

(* ---- primitive state transformers ---- *)
Definition record (p : path) (st : state) : state :=
  {| fs := fs st; dom := dom st; created := p :: created st |}.
Definition record_unless (b : bool) (p : path) (st : state) : state := if b then st else record p st.
Definition forget (p : path) (st : state) : state :=
  {| fs := fs st; dom := dom st; created := filter (fun r => negb (path_eqb r p)) (created st) |}.

(* create or overwrite the entry p and record it *)
Definition write (p : path) (n : node) (st : state) : state :=
  {| fs := fun q => if path_eqb q p then Some n else fs st q;
     dom := p :: dom st;
     created := p :: created st |}.

(* remove p with everything below it, and forget p *)
Definition del_forget (p : path) (st : state) : state :=
  {| fs := fun q => if is_prefix p q then None else fs st q;
     dom := dom st;
     created := filter (fun r => negb (path_eqb r p)) (created st) |}.

Definition rebase (s d q : path) : path := d ++ skipn (length s) q.

(* rename(2) of s to d (s <> d, d not below s): the subtree moves; bookkeeping: forget s, record d *)
Definition mv (s d : path) (st : state) : state :=
  {| fs := fun q => if is_prefix d q then fs st (rebase d s q)
                    else if is_prefix s q then None else fs st q;
     dom := map (rebase s d) (filter (is_prefix s) (dom st)) ++ dom st;
     created := d :: filter (fun r => negb (path_eqb r s)) (created st) |}.

Inductive res := ROk | RRefused | RErr.
Inductive omode := MR | MW | MA | MX | MRP.
Definition writes (m : omode) : bool := match m with MR => false | _ => true end.

(* os.open flags: the access mode and the modifier bits the wrapper and the kernel look at *)
Inductive access := ARd | AWr | ARdWr.
Record oflags := { acc : access; o_creat : bool; o_excl : bool; o_trunc : bool; o_append : bool;
                   o_tmpfile : bool }.
Definition acc_writes (a : access) : bool := match a with ARd => false | _ => true end.
(* FilesystemIsolation._os_open_tracked: flags & (O_WRONLY|O_RDWR|O_CREAT|O_TRUNC|O_APPEND|O_TMPFILE);
   O_RDONLY is 0 and O_EXCL is not in the mask *)
Definition guarded (f : oflags) : bool :=
  acc_writes (acc f) || o_creat f || o_trunc f || o_append f || o_tmpfile f.

Inductive op :=
  | Open (p : path) (m : omode) (d : list Z)
  | OsOpen (p : path) (f : oflags) (d : list Z)
  | Touch (p : path)
  | Mkdir (p : path) (eo : bool)
  | Makedirs (p : path) (eo : bool)
  | Rename (s d : path)
  | CopyFile (s d : path)
  | Copy (s d : path)
  | Move (s d : path)
  | Remove (p : path)
  | Rmdir (p : path)
  | Rmtree (p : path).

(* ---- open-like wrappers: guard, native open + write + close, record ---- *)
Definition do_open (st : state) (p : path) (m : omode) (d : list Z) : state * res :=
  if writes m && foreign st p then (st, RRefused) else
  match fs st p with
  | Some Dir => (st, RErr)
  | Some (File c) =>
      match m with
      | MR => (st, ROk)
      | MX => (st, RErr)
      | MW => (write p (File d) st, ROk)
      | MA => (write p (File (c ++ d)) st, ROk)
      | MRP => (write p (File (d ++ skipn (length d) c)) st, ROk)
      end
  | None =>
      match m with
      | MR | MRP => (st, RErr)
      | _ => if is_dir st (parent p) then (write p (File d) st, ROk) else (st, RErr)
      end
  end.

(* os.open(p, flags) + os.write(fd, d) if the access mode allows + os.close, through the wrapper.
   Linux semantics: O_TRUNC truncates even with O_RDONLY; O_CREAT|O_EXCL fails on anything that exists;
   a directory can only be opened O_RDONLY without O_CREAT/O_TRUNC; O_TMPFILE (= __O_TMPFILE|O_DIRECTORY)
   needs a directory and write access and creates an unnamed file (no visible change). *)
Definition written (f : oflags) (c d : list Z) : list Z :=
  let c1 := if o_trunc f then [] else c in
  if acc_writes (acc f) then (if o_append f then c1 ++ d else d ++ skipn (length d) c1) else c1.

Definition do_os_open (st : state) (p : path) (f : oflags) (d : list Z) : state * res :=
  if guarded f && foreign st p then (st, RRefused) else
  if o_tmpfile f then
    match fs st p with
    | Some Dir => if acc_writes (acc f) then (record p st, ROk) else (st, RErr)
    | _ => (st, RErr)
    end
  else
  match fs st p with
  | Some Dir =>
      if o_creat f || o_trunc f || acc_writes (acc f) then (st, RErr)
      else (if guarded f then record p st else st, ROk)
  | Some (File c) =>
      if o_creat f && o_excl f then (st, RErr)
      else if guarded f then (write p (File (written f c d)) st, ROk) else (st, ROk)
  | None =>
      if o_creat f then
        if is_dir st (parent p) then (write p (File (written f [] d)) st, ROk) else (st, RErr)
      else (st, RErr)
  end.

Definition do_touch (st : state) (p : path) : state * res :=
  match fs st p with
  | Some _ => (record_unless (foreign st p) p st, ROk)          (* os.utime succeeds *)
  | None => if is_dir st (parent p) then (write p (File []) st, ROk) else (st, RErr)
  end.

Definition do_mkdir (st : state) (p : path) (eo : bool) : state * res :=
  match fs st p with
  | Some Dir => if eo then (record_unless (foreign st p) p st, ROk) else (st, RErr)
  | Some (File _) => (st, RErr)
  | None => if is_dir st (parent p) then (write p Dir st, ROk) else (st, RErr)
  end.

(* os.makedirs: every missing prefix is created (and recorded) through the patched mkdir/makedirs;
   a file on the way makes the deepest mkdir fail before anything is created *)
Fixpoint mk_chain (st : state) (pre : path) (rest : list Z) : option state :=
  match rest with
  | [] => Some st
  | n :: r =>
      let q := pre ++ [n] in
      match fs st q with
      | Some Dir => mk_chain st q r
      | Some (File _) => None
      | None => mk_chain (write q Dir st) q r
      end
  end.

Definition do_makedirs (st : state) (p : path) (eo : bool) : state * res :=
  match fs st p with
  | Some Dir => if eo then (record_unless (foreign st p) p st, ROk) else (st, RErr)
  | Some (File _) => (st, RErr)
  | None =>
      match mk_chain st [] p with Some st' => (st', ROk) | None => (st, RErr) end
  end.

(* rename(2) proper, after the wrapper's checks, with the wrapper's bookkeeping on success
   (forget s, then record d) *)
Definition native_rename (st : state) (s d : path) : state * res :=
  match fs st s with
  | None => (st, RErr)
  | Some ns =>
      if path_eqb s d then (record d (forget s st), ROk)
      else if is_prefix s d then (st, RErr)
      else if is_prefix d s then (st, RErr)
      else if negb (is_dir st (parent d)) then (st, RErr)
      else match ns, fs st d with
           | _, None => (mv s d st, ROk)
           | File _, Some (File _) => (mv s d st, ROk)
           | File _, Some Dir => (st, RErr)
           | Dir, Some (File _) => (st, RErr)
           | Dir, Some Dir => if has_child st d then (st, RErr) else (mv s d st, ROk)
           end
  end.

Definition do_rename (st : state) (s d : path) : state * res :=
  if negb (mem s (created st)) then (st, RRefused)
  else if foreign st d then (st, RRefused)
  else native_rename st s d.

(* shutil.copyfile through the patched builtins.open *)
Definition do_copyfile (st : state) (s d : path) : state * res :=
  if path_eqb s d then (st, RErr) else
  match fs st s with
  | Some (File c) =>
      if foreign st d then (st, RRefused) else
      match fs st d with
      | Some Dir => (st, RErr)
      | Some (File _) => (write d (File c) st, ROk)
      | None => if is_dir st (parent d) then (write d (File c) st, ROk) else (st, RErr)
      end
  | _ => (st, RErr)
  end.

Definition do_copy (st : state) (s d : path) : state * res :=
  let fd := foreign st d in
  let rd := if is_dir st d then d ++ [base s] else d in
  match do_copyfile st s rd with
  | (st', ROk) => (record_unless fd d st', ROk)
  | r => r
  end.

(* shutil.move on one filesystem: os.rename through the patched wrapper, with the fall-backs that
   cannot change anything.  (A directory moved to a destination whose parent is missing falls
   back to copytree+rmtree; that case is outside the model, see notes/C29.md.) *)
Definition move_finish (st : state) (s d : path) (fd : bool) (r : state * res) : state * res :=
  match r with
  | (st', ROk) => (record_unless fd d (forget s st'), ROk)     (* outer wrapper: forget s, record d *)
  | (_, _) => (st, RErr)
  end.

Definition do_move (st : state) (s d : path) : state * res :=
  if negb (mem s (created st)) then (st, RRefused) else
  let fd := foreign st d in
  if is_dir st d then
    if path_eqb s d then move_finish st s d fd (native_rename st s d)
    else
      let rd := d ++ [base s] in
      if present st rd then (st, RErr) else move_finish st s d fd (native_rename st s rd)
  else
    if foreign st d then
      match fs st s with Some (File _) => (st, RRefused) | _ => (st, RErr) end
    else move_finish st s d fd (native_rename st s d).

Definition do_remove (st : state) (p : path) : state * res :=
  if negb (mem p (created st)) then (st, RRefused) else
  match fs st p with
  | Some (File _) => (del_forget p st, ROk)
  | _ => (st, RErr)
  end.

Definition do_rmdir (st : state) (p : path) : state * res :=
  if negb (mem p (created st)) then (st, RRefused) else
  match fs st p with
  | Some Dir => if has_child st p then (st, RErr) else (del_forget p st, ROk)
  | _ => (st, RErr)
  end.

(* shutil.rmtree deletes entries through os.unlink/os.rmdir(name, dir_fd=...); the wrappers
   resolve the bare name against the working directory and refuse *)
Definition do_rmtree (st : state) (p : path) : state * res :=
  if negb (mem p (created st)) then (st, RRefused) else
  match fs st p with
  | Some Dir => if has_child st p then (st, RRefused) else (del_forget p st, ROk)
  | _ => (st, RErr)
  end.

Definition step (st : state) (o : op) : state * res :=
  match o with
  | Open p m d => do_open st p m d
  | OsOpen p f d => do_os_open st p f d
  | Touch p => do_touch st p
  | Mkdir p eo => do_mkdir st p eo
  | Makedirs p eo => do_makedirs st p eo
  | Rename s d => do_rename st s d
  | CopyFile s d => do_copyfile st s d
  | Copy s d => do_copy st s d
  | Move s d => do_move st s d
  | Remove p => do_remove st p
  | Rmdir p => do_rmdir st p
  | Rmtree p => do_rmtree st p
  end.

Definition run (st : state) (ops : list op) : state := fold_left (fun s o => fst (step s o)) ops st.

(* __enter__ / __exit__ *)
Definition enter (f0 : fsmap) (dom0 : list path) : state := {| fs := f0; dom := dom0; created := [] |}.
(* clean-up: every recorded path that still exists is removed with everything below it *)
Definition exit_fs (st : state) : fsmap :=
  fun q => if isolated (created st) q then None else fs st q.

(* ---- initial trees given as association lists (the root is implicit) ---- *)
Fixpoint lookup (l : list (path * node)) (q : path) : option node :=
  match l with
  | [] => None
  | (p, n) :: r => if path_eqb p q then Some n else lookup r q
  end.
Definition fs_of_list (l : list (path * node)) : fsmap :=
  fun q => match q with [] => Some Dir | _ => lookup l q end.

(* every entry's parent is the root or an entry that is a directory *)
Definition wf_initb (l : list (path * node)) : bool :=
  forallb (fun e => match fst e with
                    | [] => false
                    | _ => match fs_of_list l (parent (fst e)) with Some Dir => true | _ => false end
                    end) l.

(* ---- correspondence ---- *)
(* one observed step: the operation, the implementation's result, its _created set and the tree
   of the sandbox after the operation *)
Definition obs_step := (op * (res * (list path * list (path * node))))%type.
Definition case := (list (path * node) * (list obs_step * (list (path * node) * list path)))%type.

Definition res_eqb (a b : res) : bool :=
  match a, b with ROk, ROk | RRefused, RRefused | RErr, RErr => true | _, _ => false end.

Definition agree_on (u : list path) (f g : fsmap) : bool :=
  forallb (fun q => onode_eqb (f q) (g q)) u.
Definition created_agree (u : list path) (cr obs : list path) : bool :=
  forallb (fun q => Bool.eqb (mem q cr) (mem q obs)) u.

Fixpoint check_steps (extra : list path) (st : state) (steps : list obs_step) : option state :=
  match steps with
  | [] => Some st
  | (o, (r, (cr, tree))) :: rest =>
      let (st', r') := step st o in
      let u := dom st' ++ map fst tree ++ cr ++ created st' ++ extra in
      if res_eqb r r' && created_agree u (created st') cr && agree_on u (fs st') (fs_of_list tree)
      then check_steps extra st' rest else None
  end.

Definition check_case (c : case) : bool :=
  let '(init, (steps, (final, extra))) := c in
  wf_initb init &&
  match check_steps extra (enter (fs_of_list init) (map fst init)) steps with
  | None => false
  | Some st =>
      let u := dom st ++ map fst final ++ map fst init ++ extra in
      agree_on u (exit_fs st) (fs_of_list final)
  end.

End C29.
