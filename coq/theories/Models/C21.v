(* C21 — Kept assertions hold on the original module and preserve mutant kills.
   Executable model of src/pynguin/assertion/assertiongenerator.py:
     AssertionGenerator.__remove_non_holding_assertions      -> remove_non_holding
     _select_minimal_assertions (greedy cover + reverse prune) -> select
     MutationAnalysisAssertionGenerator.__compute_mutation_summary -> summary
     _MutationSummary.get_killed/get_timeout/get_survived, get_metrics -> is_killed ..., metrics
     _MutationMetrics.get_score                                 -> score (exact rational)
     __build_kill_map, __minimize_assertions, __remove_non_relevant_assertions
                                                                -> build_kill_map, minimize_test, relevant_test
     _handle_add_assertions (column collection)                 -> collect
   Definitions only; proofs are in Proofs/C21.v. *)
From Coq Require Import List ZArith Bool QArith Lia.
Import ListNotations.

Module C21.
Open Scope Z_scope.

(* ------------------------------------------------------------------------------------------ *)
(* keys (statement index, assertion index), sets of mutant indices, kill maps (dicts)          *)
Definition key := (Z * Z)%type.
Definition key_eqb (a b : key) : bool := (fst a =? fst b) && (snd a =? snd b).
Definition key_ltb (a b : key) : bool :=
  (fst a <? fst b) || ((fst a =? fst b) && (snd a <? snd b)).   (* tuple order of Python *)

Definition mset := list Z.
Definition kmap := list (key * mset).      (* a dict in insertion order: keys are distinct *)

Definition memZ (x : Z) (l : list Z) : bool := existsb (Z.eqb x) l.
Definition memK (k : key) (l : list key) : bool := existsb (key_eqb k) l.
Definition subsetb (a b : mset) : bool := forallb (fun x => memZ x b) a.

Fixpoint dedup (l : list Z) : list Z :=
  match l with
  | [] => []
  | x :: r => if memZ x r then dedup r else x :: dedup r
  end.

Definition nonemptyb {A} (l : list A) : bool := match l with [] => false | _ => true end.

(* sorted(candidates): insertion sort by key *)
Fixpoint insert (e : key * mset) (l : kmap) : kmap :=
  match l with
  | [] => [e]
  | x :: r => if key_ltb (fst e) (fst x) then e :: l else x :: insert e r
  end.
Fixpoint sortk (l : kmap) : kmap :=
  match l with [] => [] | x :: r => insert x (sortk r) end.

(* universe = union of all kill sets *)
Definition universe (km : kmap) : mset := dedup (concat (map snd km)).

(* len(candidates[key] & uncovered); [unc] is duplicate free *)
Definition cover (kills unc : mset) : nat := length (filter (fun u => memZ u kills) unc).

(* the inner for loop: first key (in sorted order) with the strictly largest cover *)
Fixpoint best (cands : kmap) (unc : mset) (bk : option (key * mset)) (bc : nat) : option (key * mset) :=
  match cands with
  | [] => bk
  | e :: r => let c := cover (snd e) unc in
              if (bc <? c)%nat then best r unc (Some e) c else best r unc bk bc
  end.

Definition remove_key (k : key) (l : kmap) : kmap := filter (fun e => negb (key_eqb (fst e) k)) l.
Definition minus (unc s : mset) : mset := filter (fun u => negb (memZ u s)) unc.

(* One iteration of `while uncovered:`; None = the loop is left. *)
Record gstate := { g_cands : kmap; g_unc : mset; g_keep : kmap }.
Definition gstep (st : gstate) : option gstate :=
  match g_unc st with
  | [] => None                                        (* while condition false *)
  | _ => match best (g_cands st) (g_unc st) None 0%nat with
         | None => None                               (* best_key is None: break *)
         | Some e => Some {| g_cands := remove_key (fst e) (g_cands st);
                             g_unc := minus (g_unc st) (snd e);
                             g_keep := e :: g_keep st |}
         end
  end.
Definition gmeasure (st : gstate) : nat := length (g_unc st).

(* iterate the loop body; None = fuel exhausted (proved impossible with fuel = |universe|) *)
Fixpoint giter (fuel : nat) (st : gstate) : option gstate :=
  match gstep st with
  | None => Some st
  | Some st' => match fuel with O => None | S f => giter f st' end
  end.

Definition others (keep : kmap) (k : key) : mset := concat (map snd (remove_key k keep)).
Fixpoint lookup (k : key) (l : kmap) : option mset :=
  match l with [] => None | e :: r => if key_eqb (fst e) k then Some (snd e) else lookup k r end.

(* `for key in sorted(keep, reverse=True)` *)
Fixpoint prune (order : list key) (keep : kmap) : kmap :=
  match order with
  | [] => keep
  | k :: r => match lookup k keep with
              | None => prune r keep
              | Some s => if subsetb s (others keep k) then prune r (remove_key k keep) else prune r keep
              end
  end.

Definition select_full (km : kmap) : option kmap :=
  let cands := sortk (filter (fun e => nonemptyb (snd e)) km) in
  match giter (length (universe km)) {| g_cands := cands; g_unc := universe km; g_keep := [] |} with
  | None => None
  | Some st => let keep := g_keep st in
               Some (sortk (prune (rev (map fst (sortk keep))) keep))
  end.
(* the returned set of keys, in ascending order *)
Definition select (km : kmap) : option (list key) := option_map (map fst) (select_full km).

(* the non-minimising variant keeps every assertion violated by some mutant *)
Definition relevant (km : kmap) : list key := map fst (filter (fun e => nonemptyb (snd e)) km).

(* ------------------------------------------------------------------------------------------ *)
(* removal of assertions from a statement: list.remove(value) = first equal element            *)
Fixpoint remove_first (a : Z) (l : list Z) : list Z :=
  match l with [] => [] | x :: r => if a =? x then r else x :: remove_first a r end.
Definition mem_nat (n : nat) (l : list nat) : bool := existsb (Nat.eqb n) l.

(* positions high to low; every position for which [drop] holds is removed by value *)
Definition remove_where (l : list Z) (drop : nat -> bool) : list Z :=
  fold_left (fun acc pos => if drop pos then match nth_error l pos with
                                              | Some a => remove_first a acc | None => acc end
                            else acc)
            (rev (seq 0 (length l))) l.

(* AssertionGenerator.__remove_non_holding_assertions on one statement: del = failed ∪ error *)
Definition remove_non_holding (l : list Z) (del : list nat) : list Z :=
  remove_where l (fun pos => mem_nat pos del).
(* the values at the positions in [del] *)
Definition vals_at (l : list Z) (del : list nat) : list Z :=
  flat_map (fun p => match nth_error l p with Some a => [a] | None => [] end) del.

(* ------------------------------------------------------------------------------------------ *)
(* per-test / per-mutant execution results                                                     *)
Record res := { r_timeout : bool; r_viol : list key; r_exc : bool }.
Definition cell := option res.                  (* None: padded / not executed *)
Definition info := (list Z * list Z)%type.      (* (timed_out_by, killed_by) of one mutant *)

(* __compute_mutation_summary: one test row updates every mutant's info *)
Definition upd (test_num : Z) (i : info) (c : cell) : info :=
  match c with
  | None => i
  | Some r => if nonemptyb (fst i) then i
              else if r_timeout r then (fst i ++ [test_num], snd i)
              else if nonemptyb (r_viol r) || r_exc r then (fst i, snd i ++ [test_num])
              else i
  end.
Fixpoint zipw {A B C} (f : A -> B -> C) (a : list A) (b : list B) : list C :=
  match a, b with x :: ra, y :: rb => f x y :: zipw f ra rb | _, _ => [] end.
Fixpoint summary_rows (rows : list (list cell)) (n : Z) (infos : list info) : list info :=
  match rows with
  | [] => infos
  | row :: r => summary_rows r (n + 1) (zipw (upd n) infos row)
  end.
Definition summary (nmut : nat) (rows : list (list cell)) : list info :=
  summary_rows rows 0 (repeat ([], []) nmut).

Definition is_timeout (i : info) : bool := nonemptyb (fst i).
Definition is_killed (i : info) : bool := nonemptyb (snd i) && negb (nonemptyb (fst i)).
Definition is_survived (i : info) : bool := negb (nonemptyb (snd i)) && negb (nonemptyb (fst i)).
Definition count {A} (p : A -> bool) (l : list A) : Z := Z.of_nat (length (filter p l)).

(* (num_created_mutants, num_killed_mutants, num_timeout_mutants) *)
Definition metrics (infos : list info) : Z * Z * Z :=
  (Z.of_nat (length infos), count is_killed infos, count is_timeout infos).

(* _MutationMetrics.get_score as an exact rational (numerator, denominator) *)
Definition score_nd (m : Z * Z * Z) : Z * Z :=
  let '(created, killed, timeout) := m in
  let divisor := created - timeout in
  if divisor =? 0 then (1, 1) else (killed, divisor).
Definition score (m : Z * Z * Z) : Q :=
  let '(n, d) := score_nd m in Qmake n (Z.to_pos d).

(* _handle_add_assertions: only valid mutants executed within the budget get a column; [cut] =
   number of mutants the generator delivered before the time budget ended the enumeration *)
Definition collect {A} (cut : nat) (stream : list (option A)) : list A :=
  flat_map (fun o => match o with Some c => [c] | None => [] end) (firstn cut stream).

(* _abort_after_first_timeout: the in-process executor is lazy; after the first timed-out test the
   remaining test slots of that mutant are padded with None *)
Fixpoint abort_pad (col : list cell) : list cell :=
  match col with
  | [] => []
  | c :: r => match c with
              | Some x => if r_timeout x then c :: map (fun _ => None) r else c :: abort_pad r
              | None => c :: abort_pad r
              end
  end.

(* ------------------------------------------------------------------------------------------ *)
(* assertions of a test: per statement a list of assertion codes; negative = ExceptionAssertion *)
Definition stmt := list Z.
Definition only_exc (s : stmt) : bool := match s with [a] => a <? 0 | _ => false end.

Fixpoint kills_go (k : key) (row : list cell) (infos : list info) (j : Z) : mset :=
  match row, infos with
  | c :: rr, i :: ri =>
      let rest := kills_go k rr ri (j + 1) in
      match c with
      | Some r => if negb (nonemptyb (fst i)) && memK k (r_viol r) then j :: rest else rest
      | None => rest
      end
  | _, _ => []
  end.
(* mutants (indices) on which assertion k of this test is violated; timed-out mutants never count *)
Definition kills_of (k : key) (row : list cell) (infos : list info) : mset := kills_go k row infos 0.

Definition stmt_keys (sidx : Z) (s : stmt) : list key :=
  map (fun a => (sidx, Z.of_nat a)) (seq 0 (length s)).
Fixpoint enum_from {A} (i : Z) (l : list A) : list (Z * A) :=
  match l with [] => [] | x :: r => (i, x) :: enum_from (i + 1) r end.

(* __build_kill_map *)
Definition build_kill_map (test : list stmt) (row : list cell) (infos : list info) : kmap :=
  flat_map (fun p => if only_exc (snd p) then []
                     else map (fun k => (k, kills_of k row infos)) (stmt_keys (fst p) (snd p)))
           (enum_from 0 test).

(* __minimize_assertions on one test *)
Definition minimize_test (test : list stmt) (keep : list key) : list stmt :=
  map (fun p => if only_exc (snd p) then snd p
                else remove_where (snd p) (fun pos => negb (memK (fst p, Z.of_nat pos) keep)))
      (enum_from 0 test).

(* __remove_non_relevant_assertions without minimisation: drop what no (non-timed-out) mutant
   violates; exception-only statements are NOT skipped on this path *)
Definition violated_any (k : key) (row : list cell) (infos : list info) : bool :=
  nonemptyb (kills_of k row infos).
Definition relevant_test (test : list stmt) (row : list cell) (infos : list info) : list stmt :=
  map (fun p => remove_where (snd p) (fun pos => negb (violated_any (fst p, Z.of_nat pos) row infos)))
      (enum_from 0 test).

(* the cell a test would produce with only the kept assertions (assertion checks are independent) *)
Definition restrict (keep : list key) (c : cell) : cell :=
  match c with
  | None => None
  | Some r => Some {| r_timeout := r_timeout r; r_viol := filter (fun k => memK k keep) (r_viol r);
                      r_exc := r_exc r |}
  end.
Definition exc_keys (test : list stmt) : list key :=
  flat_map (fun p => if only_exc (snd p) then stmt_keys (fst p) (snd p) else []) (enum_from 0 test).
Definition reg_keys (test : list stmt) : list key :=
  flat_map (fun p => if only_exc (snd p) then [] else stmt_keys (fst p) (snd p)) (enum_from 0 test).
Definition all_keys (test : list stmt) : list key :=
  flat_map (fun p => stmt_keys (fst p) (snd p)) (enum_from 0 test).

(* ------------------------------------------------------------------------------------------ *)
(* correspondence cases: the implementation's recorded observations must be reproduced        *)
Fixpoint list_eqb {A} (eqb : A -> A -> bool) (a b : list A) : bool :=
  match a, b with
  | [], [] => true
  | x :: ra, y :: rb => eqb x y && list_eqb eqb ra rb
  | _, _ => false
  end.
Definition info_eqb (a b : info) : bool := list_eqb Z.eqb (fst a) (fst b) && list_eqb Z.eqb (snd a) (snd b).
Definition set_eqb (a b : mset) : bool := subsetb a b && subsetb b a.
Definition kmap_eqb (a b : kmap) : bool :=
  list_eqb (fun x y => key_eqb (fst x) (fst y) && set_eqb (snd x) (snd y)) a b.

(* the float the implementation returned, as exact ratio num/den, is the rational k/d rounded *)
Definition score_close (obs : Z * Z) (m : Z * Z * Z) : bool :=
  let '(n, d) := score_nd m in
  let '(on, od) := obs in
  (0 <? od) && (Z.abs (on * d - n * od) * 2 ^ 53 <=? od * d)
  && (0 <=? on) && (on <=? od)
  && Bool.eqb (on =? 0) (n =? 0) && Bool.eqb (on =? od) (n =? d).

Record run_case := {
  rc_tests : list (list stmt);         (* assertions before the mutation phase *)
  rc_stream : list (option (list cell)); (* per mutant: None = invalid module, else per-test cells *)
  rc_cut : nat;                        (* mutants delivered before the time budget *)
  rc_lazy : bool;                      (* in-process executor: _abort_after_first_timeout applies *)
  rc_minimize : bool;
  o_infos : list info;
  o_metrics : Z * Z * Z;
  o_score : Z * Z;
  o_kmaps : list kmap;                 (* kill maps passed to _select_minimal_assertions *)
  o_final : list (list stmt)           (* assertions afterwards *)
}.

(* test-major table from the mutant-major stream *)
Definition row_of (cols : list (list cell)) (i : nat) : list cell := map (fun c => nth i c None) cols.

Definition check_run (c : run_case) : bool :=
  let cols := map (fun col => if rc_lazy c then abort_pad col else col) (collect (rc_cut c) (rc_stream c)) in
  let ntests := length (rc_tests c) in
  let rows := map (row_of cols) (seq 0 ntests) in
  let infos := summary (length cols) rows in
  let m := metrics infos in
  list_eqb info_eqb infos (o_infos c)
  && (let '(a, b, d) := m in let '(a', b', d') := o_metrics c in (a =? a') && (b =? b') && (d =? d'))
  && score_close (o_score c) m
  && (if rc_minimize c then
        let kms := zipw (fun t row => build_kill_map t row infos) (rc_tests c) rows in
        list_eqb kmap_eqb kms (o_kmaps c)
        && list_eqb (list_eqb (list_eqb Z.eqb))
             (zipw (fun t km => match select km with
                                | Some keep => minimize_test t keep
                                | None => [[-1]] end) (rc_tests c) kms)
             (o_final c)
      else
        list_eqb (list_eqb (list_eqb Z.eqb))
             (zipw (fun t row => relevant_test t row infos) (rc_tests c) rows) (o_final c)).

Definition res_eqb (a b : res) : bool :=
  Bool.eqb (r_timeout a) (r_timeout b) && list_eqb key_eqb (r_viol a) (r_viol b) && Bool.eqb (r_exc a) (r_exc b).
Definition cell_eqb (a b : cell) : bool :=
  match a, b with Some x, Some y => res_eqb x y | None, None => true | _, _ => false end.

Inductive case :=
| CPad (col obs : list cell)                              (* _abort_after_first_timeout *)
| CSel (km : kmap) (obs : list key)                       (* _select_minimal_assertions *)
| CFilt (l : list Z) (del : list nat) (obs : list Z)      (* __remove_non_holding_assertions *)
| CRun (c : run_case).

Definition check_case (c : case) : bool :=
  match c with
  | CPad col obs => list_eqb cell_eqb (abort_pad col) obs
  | CSel km obs => match select km with Some ks => list_eqb key_eqb ks obs | None => false end
  | CFilt l del obs => list_eqb Z.eqb (remove_non_holding l del) obs
  | CRun rc => check_run rc
  end.

End C21.
