(* C11 — Adding tests never lowers coverage or raises fitness; merging traces is order independent.
   Additional definitions on top of Models/C10.v (trace, merge, merge_all, metric functions, valid):
   trace equivalence, merge trees (orders and groupings), and the correspondence checker.
   Definitions only. *)
From Coq Require Import List ZArith QArith Qabs Bool.
From Verif Require Import Models.C10.
Import ListNotations.
Import C10.
Open Scope Z_scope.

Module C11.

(* ---------- trace equivalence: equal as sets / as maps; distances compared up to Qeq ---------- *)
Definition set_equiv (a b : list Z) : Prop := forall x, memZ x a = memZ x b.
Definition dictZ_equiv (a b : dict Z) : Prop := forall k, dget a k = dget b k.

Definition dist_equiv (a b : dist) : Prop :=
  match a, b with
  | Fin x, Fin y => (x == y)%Q
  | Inf, Inf => True
  | _, _ => False
  end.
Definition odist_equiv (a b : option dist) : Prop :=
  match a, b with
  | Some x, Some y => dist_equiv x y
  | None, None => True
  | _, _ => False
  end.
Definition dictD_equiv (a b : dict dist) : Prop := forall k, odist_equiv (dget a k) (dget b k).

Record trace_equiv (a b : trace) : Prop := {
  te_code : set_equiv (exec_code a) (exec_code b);
  te_pred : dictZ_equiv (exec_pred a) (exec_pred b);
  te_true : dictD_equiv (true_d a) (true_d b);
  te_false : dictD_equiv (false_d a) (false_d b);
  te_cov : set_equiv (cov_lines a) (cov_lines b);
  te_chk : set_equiv (chk_lines a) (chk_lines b);
}.

(* Representation invariant of the containers: a Python dict / OrderedSet never holds a key twice.
   (Every trace built from real ExecutionTrace objects satisfies it; it does not restrict ids,
   distances or counts, so "malformed" traces are covered as well.) *)
Definition trace_wf (t : trace) : bool :=
  nodupb (exec_code t) && nodupb (cov_lines t) && nodupb (chk_lines t) &&
  nodupb (keys (exec_pred t)) && nodupb (keys (true_d t)) && nodupb (keys (false_d t)).

(* ---------- orders and groupings of merges ---------- *)
(* Node l r : evaluate l into a fresh trace object, evaluate r, then  l.merge(r).
   analyze_results [t1; ...; tn] is the left comb  Node (... (Node (Leaf empty_trace) t1) ...) tn. *)
Inductive mtree := Leaf (t : trace) | Node (l r : mtree).

Fixpoint eval (m : mtree) : trace :=
  match m with
  | Leaf t => t
  | Node l r => merge (eval l) (eval r)
  end.

Fixpoint leaves (m : mtree) : list trace :=
  match m with
  | Leaf t => [t]
  | Node l r => leaves l ++ leaves r
  end.

(* ---------- execution counts of a predicate in a trace / summed over a suite ---------- *)
Definition count_of (t : trace) (k : Z) : Z := match dget (exec_pred t) k with Some c => c | None => 0 end.
Definition total_count (ts : list trace) (k : Z) : Z := fold_right (fun t acc => count_of t k + acc) 0 ts.

(* ---------- the instruction part of ExecutionTrace.merge ---------- *)
(* executed_instructions (each instruction abstracted to a tag) and executed_assertions as
   (trace_position, assertion id).  merge appends the instructions and appends COPIES of the merged-in
   assertions shifted by len(self.executed_instructions); the merged-in trace is not changed (the model
   is a function; the correspondence checks it on the implementation by digests). *)
Record itrace := { instrs : list Z; asserts : list (Z * Z) }.
Definition ilen (t : itrace) : Z := Z.of_nat (length (instrs t)).
Definition shift_asserts (k : Z) (l : list (Z * Z)) : list (Z * Z) := map (fun pa => (fst pa + k, snd pa)) l.
Definition imerge (a b : itrace) : itrace :=
  {| instrs := instrs a ++ instrs b; asserts := asserts a ++ shift_asserts (ilen a) (asserts b) |}.
Definition iempty : itrace := {| instrs := []; asserts := [] |}.
Definition imerge_all (ts : list itrace) : itrace := fold_left imerge ts iempty.

Inductive itree := ILeaf (t : itrace) | INode (l r : itree).
Fixpoint ieval (m : itree) : itrace :=
  match m with ILeaf t => t | INode l r => imerge (ieval l) (ieval r) end.
Fixpoint ileaves (m : itree) : list itrace :=
  match m with ILeaf t => [t] | INode l r => ileaves l ++ ileaves r end.

(* every assertion position points into the instruction list *)
Definition iwf (t : itrace) : bool :=
  forallb (fun pa => (0 <=? fst pa) && (fst pa <? ilen t)) (asserts t).
(* the instruction an assertion points to (its slicing criterion) *)
Definition target (t : itrace) (pos : Z) : option Z := nth_error (instrs t) (Z.to_nat pos).

Definition itrace_eqb (a b : itrace) : bool :=
  Nat.eqb (length (instrs a)) (length (instrs b)) &&
  forallb (fun p => Z.eqb (fst p) (snd p)) (combine (instrs a) (instrs b)) &&
  Nat.eqb (length (asserts a)) (length (asserts b)) &&
  forallb (fun p => Z.eqb (fst (fst p)) (fst (snd p)) && Z.eqb (snd (fst p)) (snd (snd p)))
          (combine (asserts a) (asserts b)).

(* ---------- "b is at least as good as a" for every suite-level coverage and fitness function ---- *)
Definition improves (a b : trace) (r : registry) : Prop :=
  (branch_coverage a r <= branch_coverage b r)%Q /\
  (line_coverage a r <= line_coverage b r)%Q /\
  (checked_coverage a r <= checked_coverage b r)%Q /\
  (forall ex_code ex_true ex_false,
     (branch_fitness_ex b r ex_code ex_true ex_false <= branch_fitness_ex a r ex_code ex_true ex_false)%Q) /\
  line_fitness b r <= line_fitness a r /\
  checked_fitness b r <= checked_fitness a r /\
  (forall ex_code ex_true ex_false,
     branch_is_covered_ex a r ex_code ex_true ex_false = true ->
     branch_is_covered_ex b r ex_code ex_true ex_false = true) /\
  (line_is_covered a r = true -> line_is_covered b r = true) /\
  (checked_is_covered a r = true -> checked_is_covered b r = true).

(* ---------- correspondence: decidable trace equivalence (sets as sets, dicts as maps) ---------- *)
Definition set_eqb (a b : list Z) : bool :=
  subsetb a b && subsetb b a && Nat.eqb (length a) (length b).

Definition dist_eqb (a b : dist) : bool :=
  match a, b with
  | Fin x, Fin y => Qeq_bool x y
  | Inf, Inf => true
  | _, _ => false
  end.

Definition dictZ_eqb (a b : dict Z) : bool :=
  set_eqb (keys a) (keys b) &&
  forallb (fun k => match dget a k, dget b k with Some x, Some y => Z.eqb x y | _, _ => false end) (keys a).
Definition dictD_eqb (a b : dict dist) : bool :=
  set_eqb (keys a) (keys b) &&
  forallb (fun k => match dget a k, dget b k with Some x, Some y => dist_eqb x y | _, _ => false end) (keys a).

Definition trace_eqb (a b : trace) : bool :=
  set_eqb (exec_code a) (exec_code b) && dictZ_eqb (exec_pred a) (exec_pred b) &&
  dictD_eqb (true_d a) (true_d b) && dictD_eqb (false_d a) (false_d b) &&
  set_eqb (cov_lines a) (cov_lines b) && set_eqb (chk_lines a) (chk_lines b).

(* metric values observed on the implementation for the merged trace (valid traces only):
   floats are passed as the exact rationals they denote *)
Record metrics := {
  m_branch_fitness : Q;      (* compute_branch_distance_fitness with the exclusions of the case *)
  m_branch_covered : bool;
  m_branch_coverage : Q;
  m_line_fitness : Z;
  m_line_covered : bool;
  m_line_coverage : Q;
  m_checked_fitness : Z;
  m_checked_covered : bool;
  m_checked_coverage : Q;
}.

Definition Qclose (a b : Q) : bool :=                 (* |a - b| <= 1e-9 (float rounding) *)
  Qle_bool (Qabs (a - b)) (1 # 1000000000).

Record case := {
  c_reg : registry;
  c_ex_code : list Z; c_ex_true : list Z; c_ex_false : list Z;
  c_tree : mtree;
  c_itree : itree;                    (* the same script on the instruction parts of the leaves *)
  c_iobserved : itrace;               (* instruction tags and assertion positions of the merged trace *)
  c_observed : trace;                 (* projection of the implementation's merged trace *)
  c_valid : bool;                     (* harness-side claim: all leaves are valid for c_reg *)
  c_metrics : option metrics;
}.

Definition check_metrics (c : case) (t : trace) (m : metrics) : bool :=
  let r := c_reg c in
  Qclose (branch_fitness_ex t r (c_ex_code c) (c_ex_true c) (c_ex_false c)) (m_branch_fitness m) &&
  Bool.eqb (branch_is_covered_ex t r (c_ex_code c) (c_ex_true c) (c_ex_false c)) (m_branch_covered m) &&
  Qclose (branch_coverage t r) (m_branch_coverage m) &&
  Z.eqb (line_fitness t r) (m_line_fitness m) &&
  Bool.eqb (line_is_covered t r) (m_line_covered m) &&
  Qclose (line_coverage t r) (m_line_coverage m) &&
  Z.eqb (checked_fitness t r) (m_checked_fitness m) &&
  Bool.eqb (checked_is_covered t r) (m_checked_covered m) &&
  Qclose (checked_coverage t r) (m_checked_coverage m).

Definition check_case (c : case) : bool :=
  let t := eval (c_tree c) in
  trace_wf t && trace_wf (c_observed c) && trace_eqb t (c_observed c) &&
  itrace_eqb (ieval (c_itree c)) (c_iobserved c) &&
  (if forallb iwf (ileaves (c_itree c)) then iwf (c_iobserved c) else true) &&
  (* the harness's validity claim agrees with the model's [valid] on every leaf, and the merged
     trace of valid leaves is valid (what the theorems say) *)
  Bool.eqb (forallb (fun l => valid l (c_reg c)) (leaves (c_tree c))) (c_valid c) &&
  (if c_valid c then valid t (c_reg c) else true) &&
  match c_metrics c with
  | Some m => check_metrics c t m
  | None => true
  end.

End C11.
