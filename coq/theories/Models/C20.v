(* C20 — executable model of assertion rendering (after the proposed fixes C20-float-negzero,
   C20-complex-render, C20-complex-nan, C20-importable-types):
     pynguin.utils.type_utils.is_assertable,
     RemoteAssertionTraceObserver._check_value / _check_type_and_recurse (one value, no field recursion)
       and _is_type_importable,
     pynguin.assertion.assertion_to_ast: _make_float_literal, _value_to_cst, _name and the five
       assertion renderers.
   libcst's token validation is part of the model: building a Float token from a float that is not
   finite with clear sign bit, or an Integer token from a negative int, yields EBad (libcst raises
   CSTValidationError).  Definitions only. *)
From Coq Require Import List ZArith NArith Bool String.
From Coq Require Import PrimFloat.
From Verif Require Import Base.PyExpr.
Import ListNotations.
Open Scope Z_scope.

Module C20.
Import PyExpr.

(* is_assertable(obj, recursion_depth): fuel = 5 - recursion_depth *)
Fixpoint assertable (fuel : nat) (v : value) : bool :=
  match fuel with
  | O => false
  | S k =>
      match v with
      | VFloat _ => false
      | VComplex a b => negb (fnan a || fnan b)
      | VNone | VBool _ | VInt _ | VStr _ | VBytes _ | VEnum _ _ => true
      | VList l | VTuple l | VSet l => forallb (assertable k) l
      | VDict l => forallb (fun kv => assertable k (fst kv) && assertable k (snd kv)) l
      | _ => false
      end
  end.

Inductive assertion :=
  | AObject (x : string) (attrs : list string) (v : value)
  | AFloat (x : string) (attrs : list string) (f : float)
  | ATypeName (x : string) (attrs : list string) (m : string) (q : list string)
  | AIsInstance (x : string) (attrs : list string) (m : string) (q : list string)
  | ALength (x : string) (attrs : list string) (n : Z).

Section Atoms.
  Variables ftok itok stok btok : Type.
  Variable repr_float : float -> ftok.       (* str(x) *)
  Variable repr_nat : Z -> itok.             (* str(n) *)
  Variable repr_str : pystr -> stok.
  Variable repr_bytes : pystr -> btok.
  Variable parse_float : ftok -> float.
  Variable parse_int : itok -> Z.
  Variable parse_str : stok -> pystr.
  Variable parse_bytes : btok -> pystr.

  Notation expr := (PyExpr.expr ftok itok stok btok).
  Notation eval := (PyExpr.eval parse_float parse_int parse_str parse_bytes).

  (* cst.Float(text) / cst.Integer(text) with libcst's validation *)
  Definition mk_float (f : float) : expr := if ftok_ok f then EFloat (repr_float f) else EBad.
  Definition mk_int (z : Z) : expr := if 0 <=? z then EInt (repr_nat z) else EBad.

  Definition float_call (s : string) : expr := ECall (EName "float") [EStr (repr_str (s2l s))] [].

  Definition make_float_literal (f : float) : expr :=
    if fnan f then float_call "nan"
    else if finf f then float_call (if fneg f then "-inf" else "inf")
    else if fneg f then ENeg (mk_float (PrimFloat.opp f))
    else mk_float f.

  Definition int_literal (z : Z) : expr := if z <? 0 then ENeg (mk_int (- z)) else mk_int z.

  Fixpoint value_to_cst (v : value) : expr :=
    match v with
    | VNone => EName "None"
    | VBool b => EName (if b then "True" else "False")%string
    | VInt z => int_literal z
    | VFloat f => make_float_literal f
    | VStr s => EStr (repr_str s)
    | VBytes s => EBytes (repr_bytes s)
    | VComplex a b => ECall (EName "complex") [make_float_literal a; make_float_literal b] []
    | VEnum c m => EAttr (EName c) m
    | VList l => EList (map value_to_cst l)
    | VTuple l => ETuple (map value_to_cst l)
    | VSet l => match l with [] => ECall (EName "set") [] [] | _ => ESet (map value_to_cst l) end
    | VDict l => EDict (map (fun kv => (value_to_cst (fst kv), value_to_cst (snd kv))) l)
    | _ => EBad                    (* SimpleString(repr(obj)) of an arbitrary object *)
    end.

  (* _name: a variable or a dotted attribute path *)
  Definition name_expr (x : string) (attrs : list string) : expr := fold_left (fun e a => EAttr e a) attrs (EName x).

  (* the expression naming a type: builtins by bare name, SUT types through the module alias *)
  Definition type_expr (alias : string) (m : string) (q : list string) : expr :=
    if String.eqb m "builtins" then EName (String.concat "." q)
    else fold_left (fun e a => EAttr e a) q (EName alias).

  Definition kwf (n : string) (f : float) : string * expr := (n, make_float_literal f).

  Definition render (alias : string) (prec : float) (a : assertion) : expr :=
    match a with
    | AObject x attrs v =>
        match v with
        | VBool _ | VNone => EIs (name_expr x attrs) (value_to_cst v)
        | _ => EEq (name_expr x attrs) (value_to_cst v)
        end
    | AFloat x attrs f =>
        EEq (name_expr x attrs)
            (ECall (EAttr (EName "pytest") "approx") [make_float_literal f] [kwf "abs" prec; kwf "rel" prec])
    | ATypeName x attrs m q =>
        let ty := ECall (EName "type") [name_expr x attrs] [] in
        EEq (EFStr2 (EAttr ty "__module__") [46%N] (EAttr ty "__qualname__"))
            (EStr (repr_str (s2l m ++ [46%N] ++ qual_str q)))
    | AIsInstance x attrs m q =>
        ECall (EName "isinstance") [name_expr x attrs; type_expr alias m q] []
    | ALength x attrs n =>
        EEq (ECall (EName "len") [name_expr x attrs] []) (mk_int n)
    end.

  (* _is_type_importable (after C20-importable-types): the qualified name resolves to the type from
     the namespace of the test file (builtins, or the module under test through its alias) *)
  Definition importable (g : env) (alias sut : string) (m : string) (q : list string) : bool :=
    (String.eqb m "builtins" || String.eqb m sut)
    && res_same (eval g (type_expr alias m q)) (Ok (VType m q))
    && match q with [] => false | _ => true end.

  (* _check_value for one (source, value) pair *)
  Definition check_value (g : env) (alias sut : string) (x : string) (attrs : list string) (v : value) : list assertion :=
    match v with
    | VFloat f => [AFloat x attrs f]
    | _ =>
        if assertable 5 v then [AObject x attrs v]
        else
          let (m, q) := type_of v in
          (if importable g alias sut m q then [AIsInstance x attrs m q] else [ATypeName x attrs m q])
          ++ match len_of v with Some n => [ALength x attrs n] | None => [] end
    end.

  (* every enum member occurring in the value is reachable as ClassName.MEMBER *)
  Fixpoint enums_bound (g : env) (v : value) : bool :=
    match v with
    | VEnum c m => res_same (Ok (VEnum c m)) (match g [c; m] with Some w => Ok w | None => Err NameError end)
    | VList l | VTuple l | VSet l => forallb (enums_bound g) l
    | VDict l => forallb (fun kv => enums_bound g (fst kv) && enums_bound g (snd kv)) l
    | _ => true
    end.

  Definition builtins_visible (g : env) : bool :=
    unshadowed g "float" && unshadowed g "complex" && unshadowed g "set" && unshadowed g "len"
    && unshadowed g "type" && unshadowed g "isinstance".

  Definition is_nan_float (a : assertion) : bool :=
    match a with AFloat _ _ f => fnan f | _ => false end.
End Atoms.

(* ---------------------------------------------------------------------------------------------- *)
(* instance evaluated by the correspondence: a token is the value CPython reads from its text *)
Definition idf (x : float) := x. Definition idz (x : Z) := x. Definition ids (x : pystr) := x.
Definition expr0 := PyExpr.expr float Z pystr pystr.
Definition eval0 := PyExpr.eval idf idz ids ids.
Definition expr_eqb0 := PyExpr.expr_eqb float_same Z.eqb pystr_eqb pystr_eqb.
Definition render0 := render float Z pystr pystr idf idz ids ids.
Definition value_to_cst0 := value_to_cst float Z pystr pystr idf idz ids ids.
Definition make_float_literal0 := make_float_literal float Z pystr pystr idf ids.
Definition check_value0 := check_value float Z pystr pystr idf idz ids ids.

(* namespace given by dotted paths *)
Definition env_of (l : list (list string * value)) : env :=
  fun p => match find (fun q => strs_eqb (fst q) p) l with Some q => Some (snd q) | None => None end.

Definition assertion_eqb (a b : assertion) : bool :=
  match a, b with
  | AObject x p v, AObject x' p' v' => String.eqb x x' && strs_eqb p p' && same v v'
  | AFloat x p f, AFloat x' p' f' => String.eqb x x' && strs_eqb p p' && float_same f f'
  | ATypeName x p m q, ATypeName x' p' m' q' | AIsInstance x p m q, AIsInstance x' p' m' q' =>
      String.eqb x x' && strs_eqb p p' && String.eqb m m' && strs_eqb q q'
  | ALength x p n, ALength x' p' n' => String.eqb x x' && strs_eqb p p' && Z.eqb n n'
  | _, _ => false
  end.

Fixpoint list_eqb {A} (f : A -> A -> bool) (a b : list A) : bool :=
  match a, b with
  | [], [] => true
  | x :: r, y :: r' => f x y && list_eqb f r r'
  | _, _ => false
  end.

Inductive case :=
  (* an observed value: namespace, alias, module under test, source, the value, is_assertable's answer,
     the assertions the observer recorded, and for each the rendered expression (None: rendering
     raised) and what Python evaluates the rendered assertion to *)
  | CObserve (ns : list (list string * value)) (alias sut : string) (prec : float)
             (x : string) (attrs : list string) (v : value) (is_assertable : bool)
             (recorded : list (assertion * option expr0 * res value))
  (* _value_to_cst / _make_float_literal on an arbitrary value *)
  | CValue (ns : list (list string * value)) (v : value) (impl : option expr0) (evaluated : res value)
  (* == on two values, as Python answers it *)
  | CEq (a b : value) (r : bool)
  (* a name of the builtins module: is it bound to a class? *)
  | CBuiltin (n : string) (is_type : bool).

Definition opt_expr_eqb (m : expr0) (i : option expr0) : bool :=
  match i with
  | Some e => valid m && expr_eqb0 m e
  | None => negb (valid m)
  end.

Definition check_case (c : case) : bool :=
  match c with
  | CObserve ns alias sut prec x attrs v ia recorded =>
      let g := env_of ns in
      Bool.eqb (assertable 5 v) ia
      && list_eqb assertion_eqb (check_value0 g alias sut x attrs v) (map (fun r => fst (fst r)) recorded)
      && forallb (fun r => let '(a, e, ev) := r in
                           opt_expr_eqb (render0 alias prec a) e
                           && match e with Some e => res_same (eval0 g e) ev | None => true end) recorded
  | CValue ns v impl ev =>
      opt_expr_eqb (value_to_cst0 v) impl
      && match impl with Some e => res_same (eval0 (env_of ns) e) ev | None => true end
  | CEq a b r => Bool.eqb (py_eq a b) r
  | CBuiltin n t => Bool.eqb (is_builtin_type n) t
  end.

End C20.
