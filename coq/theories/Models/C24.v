(* C24 — executable model of the seed parser on Pynguin's own output
   (pynguin.large_language_model.parsing.deserializer: parse_assertion with its shape parsers,
   _RootNameCollector, CstStatementDeserializer._handle_assert / _handle_ordinary_statement, after
   the repairs "attribute names of call-rooted chains are not reads" and "a lifted assertion is
   attached to the statement it follows") and of the assertion renderer
   (pynguin.assertion.assertion_to_ast) on an abstract expression syntax.
   Literal text is atomic (value rendering is C20/C23).  Definitions only. *)
From Coq Require Import List NArith Bool.
Import ListNotations.

Module C24.

Inductive name := NAmbient (k : N) | NVar (v : N) | NUnknown (k : N).

(* ambient names: what CstStatementDeserializer._compute_ambient_names provides *)
Definition n_alias := NAmbient 0.
Definition n_pytest := NAmbient 1.
Definition n_type := NAmbient 2.
Definition n_isinstance := NAmbient 3.
Definition n_len := NAmbient 4.
Definition n_float := NAmbient 5.
Definition n_builtin_type (t : N) := NAmbient (100 + t).

(* literal atoms by what ast.literal_eval / is_assertable make of them *)
Inductive lit := LNoneBool | LPlain | LFloat | LDeep.

Inductive expr :=
  | EName (n : name)
  | EAttr (e : expr) (a : N)
  | ECall (f : expr) (args : list expr) (kw : bool)
  | EEq (l r : expr)
  | EIs (l r : expr)
  | ELit (c : lit)
  | EFStr (parts : list expr).

(* attribute ids used by the renderer *)
Definition a_approx : N := 1.
Definition a_module : N := 2.
Definition a_qualname : N := 3.

(* asserted reference: variable, attribute path on a variable, path on the module alias *)
Inductive src := SVar (v : N) | SDot (v : N) (a : N) | SAlias (a : N).

(* rendered value classes of ObjectAssertion *)
Inductive value :=
  | VNoneBool                 (* None / True / False: rendered with `is` *)
  | VPlain                    (* int, str, bytes, containers of those: a literal *)
  | VDeep                     (* a literal nested deeper than is_assertable accepts *)
  | VEnum (c m : N)           (* alias.Class.MEMBER after SUT-reference normalisation *)
  | VCall.                    (* float('inf'), complex(..): a call, not a literal *)

Inductive form :=
  | FObject (s : src) (v : value)
  | FFloat (s : src) (nonfinite : bool)
  | FTypeName (s : src)
  | FIsInstanceB (s : src) (t : N)                      (* isinstance(src, <builtin type>) *)
  | FIsInstanceM (s : src) (t : N) (inner : list N)     (* isinstance(src, alias.T[.Inner...]) *)
  | FLen (s : src).

Definition rsrc (s : src) : expr :=
  match s with
  | SVar v => EName (NVar v)
  | SDot v a => EAttr (EName (NVar v)) a
  | SAlias a => EAttr (EName n_alias) a
  end.

Definition rval (v : value) : expr :=
  match v with
  | VNoneBool => ELit LNoneBool
  | VPlain => ELit LPlain
  | VDeep => ELit LDeep
  | VEnum c m => EAttr (EAttr (EName n_alias) c) m
  | VCall => ECall (EName n_float) [ELit LPlain] false
  end.

Definition attrs (e : expr) (l : list N) : expr := fold_left EAttr l e.

Definition render (f : form) : expr :=
  match f with
  | FObject s VNoneBool => EIs (rsrc s) (rval VNoneBool)
  | FObject s v => EEq (rsrc s) (rval v)
  | FFloat s nf =>
      EEq (rsrc s)
        (ECall (EAttr (EName n_pytest) a_approx)
           [if nf then ECall (EName n_float) [ELit LPlain] false else ELit LFloat; ELit LFloat; ELit LFloat] true)
  | FTypeName s =>
      EEq (EFStr [EAttr (ECall (EName n_type) [rsrc s] false) a_module;
                  EAttr (ECall (EName n_type) [rsrc s] false) a_qualname]) (ELit LPlain)
  | FIsInstanceB s t => ECall (EName n_isinstance) [rsrc s; EName (n_builtin_type t)] false
  | FIsInstanceM s t inner =>
      ECall (EName n_isinstance) [rsrc s; attrs (EAttr (EName n_alias) t) inner] false
  | FLen s => EEq (ECall (EName n_len) [rsrc s] false) (ELit LPlain)
  end.

(* ------------------------------------------------------------------------------------------ *)
(* the parser *)
Section Parse.
Variable known : N -> bool.      (* variables bound so far (bound_types_by_orig) *)

(* _dotted_chain: root name and attribute path of a pure Name/Attribute chain *)
Fixpoint chain (e : expr) : option (name * list N) :=
  match e with
  | EName n => Some (n, [])
  | EAttr e' a => match chain e' with Some (r, p) => Some (r, p ++ [a]) | None => None end
  | _ => None
  end.

(* _resolve_type_ref *)
Definition resolve_type (e : expr) : option (bool * N * list N) :=
  match e with
  | EName (NAmbient k) => if N.leb 100 k then Some (true, (k - 100)%N, []) else None
  | EName _ => None
  | _ => match chain e with
         | Some (_, t :: inner) => Some (false, t, inner)
         | _ => None
         end
  end.

Definition parse_bare (e : expr) : option form :=
  match e with
  | EName (NVar v) => if known v then Some (FObject (SVar v) VNoneBool) else None
  | _ => None
  end.

Definition parse_isinstance (e : expr) : option form :=
  match e with
  | ECall (EName (NAmbient 3)) [EName (NVar v); t] _ =>
      if known v then
        match resolve_type t with
        | Some (true, t', _) => Some (FIsInstanceB (SVar v) t')
        | Some (false, t', inner) => Some (FIsInstanceM (SVar v) t' inner)
        | None => None
        end
      else None
  | _ => None
  end.

Definition parse_len (e : expr) : option form :=
  match e with
  | EEq (ECall (EName (NAmbient 4)) [EName (NVar v)] _) (ELit LPlain) =>
      if known v then Some (FLen (SVar v)) else None
  | _ => None
  end.

Definition parse_eq_lit (v : N) (r : expr) : option form :=
  if known v then
    match r with
    | ELit LFloat => Some (FFloat (SVar v) false)
    | ELit LNoneBool => Some (FObject (SVar v) VNoneBool)
    | ELit LPlain => Some (FObject (SVar v) VPlain)
    | _ => None
    end
  else None.

Definition parse_eq (e : expr) : option form :=
  match e with
  | EEq (EName (NVar v)) r => parse_eq_lit v r
  | EIs (EName (NVar v)) r => parse_eq_lit v r
  | _ => None
  end.

Definition orelse {A} (a b : option A) : option A := match a with Some _ => a | None => b end.

(* parse_assertion: the shape parsers in order *)
Definition parse (e : expr) : option form :=
  orelse (parse_bare e) (orelse (parse_isinstance e) (orelse (parse_len e) (parse_eq e))).

(* _RootNameCollector (repaired): attribute names are never reads *)
Fixpoint roots (e : expr) : list name :=
  match e with
  | EName n => [n]
  | EAttr e' _ => roots e'
  | ECall f args _ => roots f ++ flat_map roots args
  | EEq l r | EIs l r => roots l ++ roots r
  | ELit _ => []
  | EFStr parts => flat_map roots parts
  end.

Definition name_known (n : name) : bool :=
  match n with NAmbient _ => true | NVar v => known v | NUnknown _ => false end.

Inductive verdict := Lift (f : form) | Raw | Drop.

Definition classify (e : expr) : verdict :=
  match parse e with
  | Some f => Lift f
  | None => if forallb name_known (roots e) then Raw else Drop
  end.
End Parse.

(* ------------------------------------------------------------------------------------------ *)
(* deserialize_function on the items of an exported function body, and re-rendering *)
Inductive item :=
  | IStmt (id : N) (bind : option N) (uses : list name)   (* uses: root names read, own target removed *)
  | IAssert (f : form).

(* a statement of the parsed test case (an ordinary statement, or an assert kept raw) with the
   assertions lifted onto it, most recent first *)
Record pstmt := { p_item : item; p_rasserts : list form }.

Record state := { acc : list pstmt; vars : list N }.   (* acc: most recent statement first *)

Definition kn (st : state) (v : N) : bool := existsb (N.eqb v) (vars st).

Definition push (st : state) (it : item) (b : option N) : state :=
  {| acc := {| p_item := it; p_rasserts := [] |} :: acc st;
     vars := match b with Some v => v :: vars st | None => vars st end |}.

Definition attach (st : state) (f : form) : state :=
  match acc st with
  | [] => st
  | p :: r => {| acc := {| p_item := p_item p; p_rasserts := f :: p_rasserts p |} :: r; vars := vars st |}
  end.

Definition step (st : state) (it : item) : state :=
  match it with
  | IStmt _ b uses => if forallb (name_known (kn st)) uses then push st it b else st
  | IAssert f =>
      match classify (kn st) (render f) with
      | Lift f' => attach st f'
      | Raw => push st it None
      | Drop => st
      end
  end.

Definition deserialize (items : list item) : state := fold_left step items {| acc := []; vars := [] |}.

Definition out_stmt (p : pstmt) : list item := p_item p :: map IAssert (rev (p_rasserts p)).
Definition rerender (st : state) : list item := flat_map out_stmt (rev (acc st)).

(* every name an item reads is ambient or bound by an earlier statement of the function *)
Definition src_var (s : src) : option N := match s with SVar v | SDot v _ => Some v | SAlias _ => None end.
Definition form_src (f : form) : src :=
  match f with FObject s _ | FFloat s _ | FTypeName s | FIsInstanceB s _ | FIsInstanceM s _ _ | FLen s => s end.

Definition mem (v : N) (l : list N) : bool := existsb (N.eqb v) l.

Fixpoint closed (vs : list N) (items : list item) : bool :=
  match items with
  | [] => true
  | IStmt _ b uses :: r =>
      forallb (name_known (fun v => mem v vs)) uses
      && closed (match b with Some v => v :: vs | None => vs end) r
  | IAssert f :: r =>
      match src_var (form_src f) with Some v => mem v vs | None => true end
      && closed vs r
  end.

(* ------------------------------------------------------------------------------------------ *)
(* correspondence *)
Definition verdict_code (v : verdict) : N := match v with Lift _ => 0 | Raw => 1 | Drop => 2 end.

Definition lit_eqb (a b : lit) : bool :=
  match a, b with LNoneBool, LNoneBool | LPlain, LPlain | LFloat, LFloat | LDeep, LDeep => true | _, _ => false end.
Definition name_eqb (a b : name) : bool :=
  match a, b with
  | NAmbient x, NAmbient y | NVar x, NVar y | NUnknown x, NUnknown y => N.eqb x y
  | _, _ => false
  end.
Fixpoint list_eqb {A} (eqb : A -> A -> bool) (a b : list A) : bool :=
  match a, b with
  | [], [] => true
  | x :: r, y :: q => eqb x y && list_eqb eqb r q
  | _, _ => false
  end.
Definition src_eqb (a b : src) : bool :=
  match a, b with
  | SVar x, SVar y => N.eqb x y
  | SDot x p, SDot y q => N.eqb x y && N.eqb p q
  | SAlias p, SAlias q => N.eqb p q
  | _, _ => false
  end.
Definition value_eqb (a b : value) : bool :=
  match a, b with
  | VNoneBool, VNoneBool | VPlain, VPlain | VDeep, VDeep | VCall, VCall => true
  | VEnum c m, VEnum c' m' => N.eqb c c' && N.eqb m m'
  | _, _ => false
  end.
Definition form_eqb (a b : form) : bool :=
  match a, b with
  | FObject s v, FObject s' v' => src_eqb s s' && value_eqb v v'
  | FFloat s n, FFloat s' n' => src_eqb s s' && Bool.eqb n n'
  | FTypeName s, FTypeName s' => src_eqb s s'
  | FIsInstanceB s t, FIsInstanceB s' t' => src_eqb s s' && N.eqb t t'
  | FIsInstanceM s t i, FIsInstanceM s' t' i' => src_eqb s s' && N.eqb t t' && list_eqb N.eqb i i'
  | FLen s, FLen s' => src_eqb s s'
  | _, _ => false
  end.

(* form-level case: a form rendered by the real renderer and parsed by the real parse_assertion /
   name check with the source variable known or not; observed verdict and, if lifted, the form *)
Definition form_case := (form * bool * (N * option form))%type.
Definition check_form (k : form_case) : bool :=
  let '(f, kv, (code, lifted)) := k in
  let v := classify (fun _ => kv) (render f) in
  N.eqb (verdict_code v) code &&
  match v, lifted with
  | Lift f', Some g => form_eqb f' g
  | Lift _, None => false
  | _, None => true
  | _, Some _ => false
  end.

(* test-case-level case: the items of an exported function and what the real deserializer made of
   them: per parsed statement its item and the assertions attached to it (in order) *)
Definition item_eqb (a b : item) : bool :=
  match a, b with
  | IStmt i _ _, IStmt j _ _ => N.eqb i j
  | IAssert f, IAssert g => form_eqb f g
  | _, _ => false
  end.
Fixpoint all2 {A B} (p : A -> B -> bool) (a : list A) (b : list B) : bool :=
  match a, b with
  | [], [] => true
  | x :: r, y :: q => p x y && all2 p r q
  | _, _ => false
  end.
Definition tc_case := (list item * list (item * list form))%type.
Definition check_tc (k : tc_case) : bool :=
  let '(items, observed) := k in
  let st := deserialize items in
  all2 (fun p o => item_eqb (p_item p) (fst o) && list_eqb form_eqb (rev (p_rasserts p)) (snd o))
    (rev (acc st)) observed.

Inductive case := CForm (k : form_case) | CTc (k : tc_case).
Definition check_case (c : case) : bool := match c with CForm k => check_form k | CTc k => check_tc k end.

End C24.
