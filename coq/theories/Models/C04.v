(* C04 — executable model of the branch-distance computation of pynguin's ExecutionTracer
   (src/pynguin/instrumentation/tracer.py, after the repairs fixes/C04-1..3):

     executed_compare_predicate / executed_bool_predicate / executed_exception_match /
     executed_in_presence_predicate  ->  _branch_distances  ->  _untaken_distance  ->  _update_metrics

   and of the integer-valued string heuristics of src/pynguin/utils/type_utils.py
   (string_lt_distance / string_le_distance).  Definitions only; proofs are in Proofs/C04.v.

   What a pair of runtime values does is NOT modelled by a value universe: it is a parameter.
   [outcome] is whatever Python's own operator (and the truthiness of its result) does on the pair:
   it returns a truth value or raises.  [raw] is whatever the heuristic that estimates the distance
   to the branch not taken does on the pair: it returns a float (any float: NaN, negative, zero,
   infinite), or it raises / returns something float() rejects.  The theorems quantify over all of
   these, hence over ints > 2**53 or > 1e308, NaN, Decimal, user classes with partial comparison
   protocols, ... alike.  Floats are binary64 ([PrimFloat], evaluated natively by vm_compute). *)
From Coq Require Import List ZArith Bool PrimFloat.
Import ListNotations.

Module C04.

(* ---- the four tracer callbacks that record branch distances ---------------------------------- *)
Inductive cmp := EQ | NE | LT | LE | GT | GE | IN | NOT_IN | IS | IS_NOT.
Inductive kind :=
  | KCompare (c : cmp)      (* executed_compare_predicate *)
  | KBool                   (* executed_bool_predicate: truthiness *)
  | KExcMatch               (* executed_exception_match *)
  | KInPresence.            (* executed_in_presence_predicate: auxiliary `key in container` that the
                               subject under test does not evaluate itself (subscripts) *)

(* Python's own evaluation of the predicate on the pair of values *)
Inductive outcome := Ret (t : bool) | Raise (e : Z).        (* e: code of the exception class *)

(* behaviour of the heuristic for the branch that is not taken *)
Inductive raw := RFloat (f : float) | RRaise.

Inductive result :=
  | Recorded (dt df : float)     (* update_predicate_distances(distance_true, distance_false) *)
  | Raised (e : Z)               (* the callback raises into the subject under test *)
  | Skipped.                     (* nothing is recorded, nothing is raised *)

Definition assertion_error : Z := 4.

(* _untaken_distance: try float(heuristic(..)) except Exception -> inf; d if d > 0.0 else inf *)
Definition sanitise (r : raw) : float :=
  match r with
  | RFloat f => if ltb 0 f then f else infinity
  | RRaise => infinity
  end.

(* _branch_distances *)
Definition branch_distances (t : bool) (untaken : raw) : float * float :=
  if t then (0%float, sanitise untaken) else (sanitise untaken, 0%float).

(* _update_metrics: the three assertions, then the trace update *)
Definition valid (dt df : float) : bool :=
  leb 0 dt && leb 0 df && xorb (eqb dt 0) (eqb df 0).

Definition update_metrics (p : float * float) : result :=
  let (dt, df) := p in if valid dt df then Recorded dt df else Raised assertion_error.

Definition is_membership (k : kind) : bool :=
  match k with KCompare IN | KCompare NOT_IN | KInPresence => true | _ => false end.

(* The distances a callback computes, before _update_metrics.
   [one_shot]: the right operand is an iterator without __contains__ (a membership test would
   consume it).  [o]: Python's own outcome.  [untaken]: the heuristic's behaviour. *)
Definition distances (k : kind) (one_shot : bool) (o : outcome) (untaken : raw)
  : option (float * float) + Z :=          (* inl None = skipped; inr e = raises e *)
  if is_membership k && one_shot then inl None
  else match k, o with
       | KInPresence, Raise _ => inl (Some (branch_distances false untaken))
       | _, Raise e => inr e
       | KExcMatch, Ret t => inl (Some (if t then (0, 1) else (1, 0))%float)
       | _, Ret t => inl (Some (branch_distances t untaken))
       end.

Definition callback (k : kind) (one_shot : bool) (o : outcome) (untaken : raw) : result :=
  match distances k one_shot o untaken with
  | inl None => Skipped
  | inl (Some p) => update_metrics p
  | inr e => Raised e
  end.

(* ---- correspondence: the implementation's observations --------------------------------------- *)
(* bit-level equality of binary64 values (0.0 <> -0.0, NaN = NaN) *)
Definition feqb (a b : float) : bool :=
  (eqb a b && eqb (1 / a) (1 / b)) || (negb (eqb a a) && negb (eqb b b)).

(* what the harness saw of the heuristic at the real call site; [None]: the call site could not be
   observed (then only the sign of the recorded distance is compared) *)
Definition rawobs := option raw.

Definition result_matches (untaken : rawobs) (m obs : result) : bool :=
  match m, obs with
  | Recorded a b, Recorded a' b' =>
      match untaken with
      | Some _ => feqb a a' && feqb b b'
      | None =>   (* same zero side, other side positive *)
          (feqb a a' || (ltb 0 a && ltb 0 a')) && (feqb b b' || (ltb 0 b && ltb 0 b'))
      end
  | Raised e, Raised e' => Z.eqb e e'
  | Skipped, Skipped => true
  | _, _ => false
  end.

Record case := {
  ckind : kind; cone_shot : bool; cpy : outcome; cuntaken : rawobs; cobs : result
}.

Definition check_case (c : case) : bool :=
  let u := match cuntaken c with Some r => r | None => RRaise end in
  result_matches (cuntaken c) (callback (ckind c) (cone_shot c) (cpy c) u) (cobs c).

(* ---- string heuristics (type_utils.py), strings as lists of code points ------------------------ *)
Fixpoint lex_ltb (a b : list Z) : bool :=         (* Python's str.__lt__ *)
  match a, b with
  | _, [] => false
  | [], _ :: _ => true
  | x :: a', y :: b' => if Z.ltb x y then true else if Z.ltb y x then false else lex_ltb a' b'
  end.
Definition lex_leb (a b : list Z) : bool := negb (lex_ltb b a).     (* str.__le__ *)

(* for pos in range(min_length): if s1[pos] > s2[pos]: return ord(s1[pos]) - ord(s2[pos]) + off *)
Fixpoint first_greater (off : Z) (a b : list Z) : Z :=
  match a, b with
  | x :: a', y :: b' => if Z.ltb y x then x - y + off else first_greater off a' b'
  | _, _ => 1
  end.

Definition string_lt_distance (a b : list Z) : Z := if lex_ltb a b then 0 else first_greater 1 a b.
Definition string_le_distance (a b : list Z) : Z := if lex_leb a b then 0 else first_greater 0 a b.

Definition str_case := (list Z * list Z * (bool * bool * Z * Z))%type.   (* s1, s2, (<, <=, lt, le) *)
Definition check_str (c : str_case) : bool :=
  let '(a, b, (lt, le, dlt, dle)) := c in
  Bool.eqb (lex_ltb a b) lt && Bool.eqb (lex_leb a b) le &&
  Z.eqb (string_lt_distance a b) dlt && Z.eqb (string_le_distance a b) dle.

End C04.
