(* C25 — executable model of pynguin.analyses.typesystem: the class graph (TypeSystem._graph,
   is_subclass, get_shortest_path_length), TypeSystem.is_subtype / is_maybe_subtype
   (_SubtypeVisitor, _MaybeSubtypeVisitor and the pre-dispatch in the two methods) and
   TypeSystem.subtype_distance (_SubtypeDistanceVisitor, after fix C25-distance-ignores-class).
   Definitions only; proofs are in Proofs/C25.v.

   Classes are numbered (N); an edge (p, c) is nx edge super -> sub.  TupleType.unknown_size is
   dropped (no query looks at it).  Unsupported / StringSubtype proper types are outside the model
   (the visitors raise NotImplementedError on them). *)
From Coq Require Import List NArith Bool Arith.
Import ListNotations.

Module C25.

Definition cls := N.

Inductive ty : Type :=
| TAny
| TNone
| TInst (c : cls) (args : list ty)
| TTuple (args : list ty)
| TUnion (items : list ty).

(* ------------------------------------------------------------------------------------------ *)
(* class graph *)
Record graph := { nodes : list cls; edges : list (cls * cls); hgs : list (cls * nat) }.

Definition memN (x : N) (l : list N) : bool := existsb (N.eqb x) l.

Fixpoint lookup {A} (c : cls) (t : list (cls * A)) : option A :=
  match t with
  | [] => None
  | (k, v) :: r => if N.eqb c k then Some v else lookup c r
  end.

(* TypeInfo.num_hardcoded_generic_parameters *)
Definition hg (g : graph) (c : cls) : option nat := lookup c (hgs g).

Definition succs (g : graph) (c : cls) : list cls :=
  map snd (filter (fun e => N.eqb (fst e) c) (edges g)).

(* candidates not seen before, without duplicates *)
Fixpoint fresh (seen cands : list cls) : list cls :=
  match cands with
  | [] => []
  | c :: r => if memN c seen then fresh seen r else c :: fresh (c :: seen) r
  end.

(* breadth-first layers: the table maps every class found to its depth *)
Fixpoint bfs (g : graph) (fuel : nat) (frontier : list cls) (seen : list (cls * N)) (d : N)
  : list (cls * N) :=
  match fuel with
  | O => seen
  | S f =>
    match fresh (map fst seen) (flat_map (succs g) frontier) with
    | [] => seen
    | next => bfs g f next (seen ++ map (fun c => (c, N.succ d)) next) (N.succ d)
    end
  end.

Definition dists (g : graph) (a : cls) : list (cls * N) :=
  bfs g (length (nodes g)) [a] [(a, 0%N)] 0%N.

(* nx.shortest_path_length(graph, a, b) / None for NetworkXNoPath *)
Definition sp (g : graph) (a b : cls) : option N := lookup b (dists g a).

(* TypeSystem.is_subclass(left = c, right = d) = nx.has_path(graph, d, c) *)
Definition subcls (g : graph) (c d : cls) : bool :=
  match sp g d c with Some _ => true | None => false end.

(* closure certificate: the set found from every node is closed under successors *)
Definition closedb (g : graph) (l : list cls) : bool :=
  forallb (fun c => forallb (fun s => memN s l) (succs g c)) l.

Definition graph_ok (g : graph) : bool :=
  forallb (fun a => closedb g (map fst (dists g a))) (nodes g)
  && forallb (fun e => memN (fst e) (nodes g) && memN (snd e) (nodes g)) (edges g).

Definition opt_nat_eqb (a b : option nat) : bool :=
  match a, b with
  | Some x, Some y => Nat.eqb x y
  | None, None => true
  | _, _ => false
  end.

(* classes with hard-coded generic parameters (list, set, dict) are not separated by a class
   with a different parameter count: c <: m <: r, hg c = hg r = Some k  ==>  hg m = Some k *)
Definition hg_convexb (g : graph) : bool :=
  forallb (fun ck =>
    forallb (fun rk =>
      if Nat.eqb (snd ck) (snd rk) && subcls g (fst ck) (fst rk) then
        forallb (fun m =>
          if subcls g (fst ck) m && subcls g m (fst rk)
          then opt_nat_eqb (hg g m) (hg g (fst ck)) else true) (nodes g)
      else true) (hgs g)) (hgs g).

(* the hgs table is a function *)
Fixpoint nodup_keys {A} (t : list (cls * A)) : bool :=
  match t with
  | [] => true
  | (k, _) :: r => negb (memN k (map fst r)) && nodup_keys r
  end.

(* ------------------------------------------------------------------------------------------ *)
(* types *)
Fixpoint size (t : ty) : nat :=
  match t with
  | TAny | TNone => 1
  | TInst _ a => S (list_sum (map size a))
  | TTuple a => S (list_sum (map size a))
  | TUnion a => S (list_sum (map size a))
  end.

Definition forall2b {A B} (f : A -> B -> bool) : list A -> list B -> bool :=
  fix go (l : list A) (r : list B) : bool :=
  match l, r with
  | [], [] => true
  | x :: l', y :: r' => f x y && go l' r'
  | _, _ => false
  end.

(* Strict = is_subtype, Maybe = is_maybe_subtype, MaybeCov = is_maybe_subtype with the hard-coded
   generics read covariantly (what subtype_distance implements; specification device only) *)
Inductive mode := Strict | Maybe | MaybeCov.

Definition quant (m : mode) : (ty -> bool) -> list ty -> bool :=
  match m with Strict => @forallb ty | _ => @existsb ty end.

Definition back (m : mode) (b : bool) : bool :=
  match m with MaybeCov => true | _ => b end.

(* one unfolding of TypeSystem.is_subtype / is_maybe_subtype with the recursive calls abstracted *)
Definition sub_body (m : mode) (g : graph) (rec : ty -> ty -> bool) (l r : ty) : bool :=
  match r with
  | TAny => true                                     (* isinstance(right, AnyType) *)
  | _ =>
    match l with
    | TUnion ls => quant m (fun x => rec x r) ls     (* visit_union_type: all / any *)
    | _ =>
      match r with
      | TUnion rs => existsb (fun y => rec l y) rs   (* right Union, left not Union *)
      | _ =>
        match l, r with
        | TAny, _ => true                            (* visit_any_type *)
        | TNone, TNone => true                       (* visit_none_type *)
        | TInst c a, TInst c' a' =>                  (* visit_instance *)
            subcls g c c' &&
            match hg g c, hg g c' with
            | Some k, Some k' =>
                if Nat.eqb k k'
                then forall2b (fun x y => rec x y && back m (rec y x)) a a'
                else true
            | _, _ => true
            end
        | TTuple a, TTuple a' => forall2b rec a a'   (* visit_tuple_type *)
        | _, _ => false
        end
      end
    end
  end.

Fixpoint sub (m : mode) (g : graph) (fuel : nat) : ty -> ty -> bool :=
  match fuel with
  | O => fun _ _ => false
  | S f => sub_body m g (sub m g f)
  end.

Definition issub (m : mode) (g : graph) (l r : ty) : bool := sub m g (size l + size r) l r.

Definition is_subtype := issub Strict.
Definition is_maybe_subtype := issub Maybe.
Definition is_maybe_subtype_cov := issub MaybeCov.

(* ------------------------------------------------------------------------------------------ *)
(* subtype distance *)
Definition map2 {A B C} (f : A -> B -> C) : list A -> list B -> list C :=   (* map(f, l, r) *)
  fix go (l : list A) (r : list B) : list C :=
  match l, r with
  | x :: l', y :: r' => f x y :: go l' r'
  | _, _ => []
  end.

Fixpoint sum_opt (l : list (option N)) : option N :=   (* None if any is None, else the sum *)
  match l with
  | [] => Some 0%N
  | None :: _ => None
  | Some x :: r => match sum_opt r with Some s => Some (x + s)%N | None => None end
  end.

Fixpoint min_opt (l : list (option N)) : option N :=   (* min of the valid distances *)
  match l with
  | [] => None
  | None :: r => min_opt r
  | Some x :: r => match min_opt r with Some s => Some (N.min x s) | None => Some x end
  end.

Definition nonempty {A} (l : list A) : bool := match l with [] => false | _ => true end.

(* one unfolding of subtype_distance(supertype = T, subtype = S) *)
Definition dist_body (g : graph) (anyd : N) (rec : ty -> ty -> option N) (T S : ty) : option N :=
  match T with
  | TAny => Some anyd
  | TNone => None
  | TInst c a =>
      match S with
      | TInst c' a' =>
          match sp g c c' with
          | None => None
          | Some p =>
              if nonempty a && nonempty a'
              then match sum_opt (map2 rec a a') with Some s => Some (p + s)%N | None => None end
              else Some p
          end
      | TUnion ss => min_opt (map (fun e => rec T e) ss)
      | TAny => Some anyd
      | _ => None
      end
  | TTuple a =>
      match S with
      | TTuple a' =>
          if Nat.eqb (length a) (length a') then sum_opt (map2 rec a a') else None
      | _ => None
      end
  | TUnion ts => min_opt (map (fun e => rec e S) ts)
  end.

Fixpoint dist (g : graph) (anyd : N) (fuel : nat) : ty -> ty -> option N :=
  match fuel with
  | O => fun _ _ => None
  | S f => dist_body g anyd (dist g anyd f)
  end.

Definition distance (g : graph) (anyd : N) (T S : ty) : option N :=
  dist g anyd (size T + size S) T S.

(* ------------------------------------------------------------------------------------------ *)
(* well-formedness of proper types over a graph: classes are nodes, instances of list/set/dict
   carry exactly their hard-coded number of arguments (_fixup_known_generics), unions are
   non-empty (assertion in UnionType.__init__) *)
Fixpoint wf (g : graph) (t : ty) : bool :=
  match t with
  | TAny | TNone => true
  | TInst c a =>
      memN c (nodes g)
      && match hg g c with Some k => Nat.eqb (length a) k | None => true end
      && forallb (wf g) a
  | TTuple a => forallb (wf g) a
  | TUnion a => nonempty a && forallb (wf g) a
  end.

Fixpoint any_free (t : ty) : bool :=
  match t with
  | TAny => false
  | TNone => true
  | TInst _ a => forallb any_free a
  | TTuple a => forallb any_free a
  | TUnion a => forallb any_free a
  end.

(* no instance of a class with hard-coded generic parameters *)
Fixpoint hg_free (g : graph) (t : ty) : bool :=
  match t with
  | TAny | TNone => true
  | TInst c a => match hg g c with Some _ => false | None => forallb (hg_free g) a end
  | TTuple a => forallb (hg_free g) a
  | TUnion a => forallb (hg_free g) a
  end.

Definition is_inst (t : ty) : bool := match t with TInst _ _ => true | _ => false end.

(* types on which subtype_distance t t is 0: no Any, no None, every union has an instance member *)
Fixpoint refl_ok (t : ty) : bool :=
  match t with
  | TAny | TNone => false
  | TInst _ a => forallb refl_ok a
  | TTuple a => forallb refl_ok a
  | TUnion a => existsb (fun e => is_inst e && refl_ok e) a
  end.

(* ------------------------------------------------------------------------------------------ *)
(* correspondence cases: one generated hierarchy with the implementation's answers *)
Fixpoint ty_eqb (a b : ty) : bool :=
  match a, b with
  | TAny, TAny => true
  | TNone, TNone => true
  | TInst c x, TInst d y => N.eqb c d && forall2b ty_eqb x y
  | TTuple x, TTuple y => forall2b ty_eqb x y
  | TUnion x, TUnion y => forall2b ty_eqb x y
  | _, _ => false
  end.

Definition opt_N_eqb (a b : option N) : bool :=
  match a, b with
  | Some x, Some y => N.eqb x y
  | None, None => true
  | _, _ => false
  end.

(* set-valued queries, observed on a finite universe [univ] of classes:
   get_subclasses(c), get_superclasses(c), get_type_outside_of(ks) *)
Definition subclasses_in (g : graph) (univ : list cls) (c : cls) : list cls :=
  filter (fun d => subcls g d c) univ.
Definition superclasses_in (g : graph) (univ : list cls) (c : cls) : list cls :=
  filter (fun d => subcls g c d) univ.
Definition outside_in (g : graph) (univ : list cls) (ks : list cls) : list cls :=
  filter (fun d => negb (existsb (fun k => subcls g d k) ks)) univ.

Inductive query :=
| QSubclasses (univ : list cls) (c : cls) (ans : list cls)
| QSuperclasses (univ : list cls) (c : cls) (ans : list cls)
| QOutside (univ : list cls) (ks : list cls) (ans : list cls)
| QSubclass (c d : cls) (ans : bool)                 (* is_subclass(c, d) *)
| QPath (a b : cls) (ans : option N)                 (* get_shortest_path_length(a, b) *)
| QSub (l r : ty) (ans : bool)                       (* is_subtype(l, r) *)
| QMaybe (l r : ty) (ans : bool)                     (* is_maybe_subtype(l, r) *)
| QDist (t s : ty) (ans : option N).                 (* subtype_distance(t, s) *)

Definition check_query (g : graph) (anyd : N) (q : query) : bool :=
  match q with
  | QSubclasses u c ans => forall2b N.eqb (subclasses_in g u c) ans
  | QSuperclasses u c ans => forall2b N.eqb (superclasses_in g u c) ans
  | QOutside u ks ans => forall2b N.eqb (outside_in g u ks) ans
  | QSubclass c d ans => Bool.eqb (subcls g c d) ans
  | QPath a b ans => opt_N_eqb (sp g a b) ans
  | QSub l r ans => wf g l && wf g r && Bool.eqb (is_subtype g l r) ans
  | QMaybe l r ans => wf g l && wf g r && Bool.eqb (is_maybe_subtype g l r) ans
  | QDist t s ans => wf g t && wf g s && opt_N_eqb (distance g anyd t s) ans
  end.

(* decidable premises of the theorems, checked on every hierarchy the implementation produced *)
Definition premises (g : graph) : bool := graph_ok g && hg_convexb g && nodup_keys (hgs g).

Definition case := (graph * N * list query)%type.

Definition check_case (c : case) : bool :=
  let '(g, anyd, qs) := c in premises g && forallb (check_query g anyd) qs.

End C25.
