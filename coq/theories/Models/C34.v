(* C34 — executable model of pynguin.utils.orderedset (OrderedSet / FrozenOrderedSet and the
   Set / MutableSet / Sequence mixin methods they inherit).  Definitions only; proofs are in
   Proofs/C34.v.  Elements are integers (the harness maps every hashable test element to a code,
   distinct codes = values that are not ==). *)
From Coq Require Import List ZArith Bool.
Import ListNotations.
Open Scope Z_scope.

Module C34.

Definition mem (x : Z) (l : list Z) : bool := existsb (Z.eqb x) l.

(* dict semantics: `d[x] = None` appends the key iff it is new *)
Definition add (l : list Z) (x : Z) : list Z := if mem x l then l else l ++ [x].
Definition add_all (l xs : list Z) : list Z := fold_left add xs l.
Definition from_iter (xs : list Z) : list Z := add_all [] xs.          (* dict.fromkeys(xs) *)
Definition discard (l : list Z) (x : Z) : list Z := filter (fun y => negb (Z.eqb y x)) l.
Definition keep_in (l other : list Z) : list Z := filter (fun y => mem y other) l.
Definition drop_in (l other : list Z) : list Z := filter (fun y => negb (mem y other)) l.

(* Iterable arguments.  [content] is the sequence a traversal yields; a one-shot iterator yields it
   once and nothing afterwards.  [sized] = supports len(); [is_set] = collections.abc.Set instance
   (then content has no duplicates). *)
Inductive kind := KList | KSet | KIter.
Record iterable := { ikind : kind; content : list Z }.

Definition traverse (it : iterable) : list Z * iterable :=
  match ikind it with
  | KIter => (content it, {| ikind := KIter; content := [] |})
  | _ => (content it, it)
  end.

Definition sized (it : iterable) : bool := match ikind it with KIter => false | _ => true end.
Definition is_set (it : iterable) : bool := match ikind it with KSet => true | _ => false end.

(* set.union / set.intersection of several materialised arguments (membership only matters) *)
Fixpoint traverse_all (its : list iterable) : list (list Z) :=
  match its with [] => [] | it :: r => fst (traverse it) :: traverse_all r end.
Definition union_all (ls : list (list Z)) : list Z := concat ls.
Fixpoint inter_all (ls : list (list Z)) : list Z :=      (* ls non-empty in every use *)
  match ls with
  | [] => []
  | [l] => l
  | l :: r => keep_in l (inter_all r)
  end.

Inductive err := IndexError | KeyError | ValueError | TypeError.
Inductive out :=
  | OUnit | OBool (b : bool) | OInt (z : Z) | OList (l : list Z) | OErr (e : err).

Inductive op :=
  (* MutableSet part *)
  | Add (x : Z) | Discard (x : Z) | Remove (x : Z) | Pop | Clear
  | Update (it : iterable)
  | DifferenceUpdate (its : list iterable)
  | IntersectionUpdate (it : iterable)
  | SymDiffUpdate (it : iterable)
  | IOr (it : iterable) | IAnd (it : iterable) | ISub (it : iterable) | IXor (it : iterable)
  (* queries *)
  | GetItem (i : Z) | Index (x : Z) | Count (x : Z) | Contains (x : Z) | Len | Iter | Reversed
  | Union (its : list iterable) | Intersection (its : list iterable) | Difference (its : list iterable)
  | SymDiff (it : iterable)
  | IsSubset (it : iterable) | IsSuperset (it : iterable) | IsDisjoint (it : iterable)
  | EqOSet (other : list Z)                (* == with an ordered set of the same class *)
  | Le (other : list Z) | Lt (other : list Z) | Ge (other : list Z) | Gt (other : list Z)
  | Sub (it : iterable)                    (* Set.__sub__ mixin *)
  | Copy
  | IndexRange (x start : Z) (stop : option Z).   (* Sequence.index(value, start[, stop]) mixin *)

Definition len (l : list Z) : Z := Z.of_nat (length l).

(* __getitem__ (after the negative-index repair) *)
Definition getitem (l : list Z) (i : Z) : out :=
  let j := if i <? 0 then i + len l else i in
  if (0 <=? j) && (j <? len l) then
    match nth_error l (Z.to_nat j) with Some x => OInt x | None => OErr IndexError end
  else OErr IndexError.

Fixpoint index_from (l : list Z) (x : Z) (i : Z) : out :=
  match l with
  | [] => OErr ValueError
  | y :: r => if Z.eqb y x then OInt i else index_from r x (i + 1)
  end.

(* Sequence.index(value, start, stop): a negative start is clamped to max(len + start, 0), a negative
   stop gets len added once; the scan runs from start while i < stop and ends at the first
   IndexError of self[i] *)
Definition norm_start (n start : Z) : Z := if start <? 0 then Z.max (n + start) 0 else start.
Definition norm_stop (n : Z) (stop : option Z) : Z :=
  match stop with None => n | Some s => if s <? 0 then s + n else s end.
Definition index_range (l : list Z) (x start : Z) (stop : option Z) : out :=
  let a := norm_start (len l) start in
  let b := norm_stop (len l) stop in
  index_from (firstn (Z.to_nat (b - a)) (skipn (Z.to_nat a) l)) x a.

Definition list_eqb (a b : list Z) : bool :=
  (Nat.eqb (length a) (length b)) && forallb (fun p => Z.eqb (fst p) (snd p)) (combine a b).

Definition subset (a b : list Z) : bool := forallb (fun x => mem x b) a.

(* issubset: fast path on len() when the argument is sized, otherwise the argument is
   materialised once (repair) and membership is tested on the copy *)
Definition issubset (l : list Z) (it : iterable) : bool :=
  if sized it && (Z.of_nat (length (content it)) <? len l) then false
  else subset l (fst (traverse it)).

Definition issuperset (l : list Z) (it : iterable) : bool :=
  if is_set it && (len l <? Z.of_nat (length (content it))) then false
  else forallb (fun x => mem x l) (fst (traverse it)).

Definition symdiff (l : list Z) (it : iterable) : list Z :=
  let o := from_iter (fst (traverse it)) in
  add_all (drop_in l o) (drop_in o l).

Definition symdiff_update (l : list Z) (it : iterable) : list Z :=
  let o := from_iter (fst (traverse it)) in
  add_all (drop_in l o) (filter (fun y => negb (mem y l)) o).

(* MutableSet.__ixor__: for value in it: discard if present else add  (it is converted to an
   ordered set first unless it already is a Set) *)
Definition ixor (l : list Z) (it : iterable) : list Z :=
  let vs := if is_set it then fst (traverse it) else from_iter (fst (traverse it)) in
  fold_left (fun acc v => if mem v acc then discard acc v else add acc v) vs l.

Definition step (l : list Z) (o : op) : list Z * out :=
  match o with
  | Add x => (add l x, OUnit)
  | Discard x => (discard l x, OUnit)
  | Remove x => if mem x l then (discard l x, OUnit) else (l, OErr KeyError)
  | Pop => match l with [] => (l, OErr KeyError) | x :: r => (discard l x, OInt x) end
  | Clear => ([], OUnit)
  | Update it => (add_all l (fst (traverse it)), OUnit)
  | DifferenceUpdate its => (drop_in l (union_all (traverse_all its)), OUnit)
  | IntersectionUpdate it => (keep_in l (fst (traverse it)), OUnit)
  | SymDiffUpdate it => (symdiff_update l it, OUnit)
  | IOr it => (add_all l (fst (traverse it)), OUnit)
  | IAnd it => (keep_in l (fst (traverse it)), OUnit)
  | ISub it => (fold_left discard (fst (traverse it)) l, OUnit)
  | IXor it => (ixor l it, OUnit)
  | GetItem i => (l, getitem l i)
  | Index x => (l, index_from l x 0)
  | Count x => (l, OInt (if mem x l then 1 else 0))
  | Contains x => (l, OBool (mem x l))
  | Len => (l, OInt (len l))
  | Iter => (l, OList l)
  | Reversed => (l, OList (rev l))
  | Union its => (l, OList (add_all l (union_all (traverse_all its))))
  | Intersection its =>
      (l, OList (match its with [] => l | _ => keep_in l (inter_all (traverse_all its)) end))
  | Difference its => (l, OList (drop_in l (union_all (traverse_all its))))
  | SymDiff it => (l, OList (symdiff l it))
  | IsSubset it => (l, OBool (issubset l it))
  | IsSuperset it => (l, OBool (issuperset l it))
  | IsDisjoint it => (l, OBool (forallb (fun x => negb (mem x l)) (fst (traverse it))))
  | EqOSet other => (l, OBool (list_eqb l other))
  | Le other => (l, OBool ((Z.of_nat (length l) <=? Z.of_nat (length other)) && subset l other))
  | Lt other => (l, OBool ((Z.of_nat (length l) <? Z.of_nat (length other)) && subset l other))
  | Ge other => (l, OBool ((Z.of_nat (length other) <=? Z.of_nat (length l)) && subset other l))
  | Gt other => (l, OBool ((Z.of_nat (length other) <? Z.of_nat (length l)) && subset other l))
  | Sub it => (l, OList (drop_in l (fst (traverse it))))
  | Copy => (l, OList l)
  | IndexRange x start stop => (l, index_range l x start stop)
  end.

(* A history: the implementation's observations (state after the op, output) are recorded by the
   harness; the model must reproduce every one of them. *)
Definition obs := (list Z * out)%type.

Definition out_eqb (a b : out) : bool :=
  match a, b with
  | OUnit, OUnit => true
  | OBool x, OBool y => Bool.eqb x y
  | OInt x, OInt y => Z.eqb x y
  | OList x, OList y => list_eqb x y
  | OErr IndexError, OErr IndexError | OErr KeyError, OErr KeyError
  | OErr ValueError, OErr ValueError | OErr TypeError, OErr TypeError => true
  | _, _ => false
  end.

Fixpoint run_check (l : list Z) (h : list (op * obs)) : bool :=
  match h with
  | [] => true
  | (o, (l', r')) :: rest =>
      let '(l1, r1) := step l o in
      list_eqb l1 l' && out_eqb r1 r' && run_check l1 rest
  end.

Definition case := (list Z * list (op * obs))%type.   (* constructor argument, history *)
Definition check_case (c : case) : bool := run_check (from_iter (fst c)) (snd c).

Definition run (init : list Z) (ops : list op) : list Z := fold_left (fun l o => fst (step l o)) ops (from_iter init).

End C34.
