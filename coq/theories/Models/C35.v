(* C35 — Coverage reports agree with the computed coverage.
   Model of pynguin.utils.report: CoverageEntry arithmetic, _get_line_to_branch_coverage,
   _get_line_to_branchless_code_object_coverage, get_coverage_report (totals, per-line annotations),
   and what the two renderers show per line (Cobertura XML attributes, HTML span class / tool tip).
   Built on the registry / trace / metric functions of Models/C10.v.  Definitions only. *)
From Coq Require Import List ZArith QArith Bool.
From Verif Require Import Models.C10.
Import ListNotations.
Import C10.
Open Scope Z_scope.

Module C35.

(* ---------- CoverageEntry ---------- *)
Definition entry := (Z * Z)%type.                      (* (covered, existing) *)
Definition ezero : entry := (0, 0).
Definition eadd (a b : entry) : entry := (fst a + fst b, snd a + snd b).
Definition esum (l : list entry) : entry := fold_left eadd l ezero.      (* x += cov for cov in ... *)
Definition b2z (b : bool) : Z := if b then 1 else 0.
Definition get0 (d : dict entry) (k : Z) : entry := match dget d k with Some e => e | None => ezero end.

(* ---------- what the report reads from SubjectProperties ---------- *)
Record rreg := {
  r_branchless : list (Z * Z);   (* branch-less code objects: (id, co_firstlineno), registry order *)
  r_preds : list (Z * Z);        (* existing_predicates: (id, line_no) *)
  r_lines : dict Z;              (* existing_lines: id -> line_number *)
  r_nsource : Z;                 (* len(source) *)
}.

Definition to_registry (rr : rreg) : registry :=
  {| branchless := map fst (r_branchless rr); predicates := map fst (r_preds rr); lines := keys (r_lines rr) |}.

(* _get_line_to_branch_coverage *)
Definition pred_cov (rr : rreg) (t : trace) : dict entry :=
  fold_left (fun d pl =>
               dset d (snd pl) (eadd (get0 d (snd pl))
                                     (b2z (has_zero (true_d t) (fst pl)) + b2z (has_zero (false_d t) (fst pl)), 2)))
            (r_preds rr) [].

(* _get_line_to_branchless_code_object_coverage *)
Definition code_cov (rr : rreg) (t : trace) : dict entry :=
  fold_left (fun d cl => dset d (snd cl) (eadd (get0 d (snd cl)) (b2z (memZ (fst cl) (exec_code t)), 1)))
            (r_branchless rr) [].

(* SubjectProperties.lineids_to_linenos : OrderedSet of the line numbers *)
Definition lineno (rr : rreg) (id : Z) : Z := match dget (r_lines rr) id with Some n => n | None => 0 end.
Definition linenos (rr : rreg) (ids : list Z) : list Z := update_set [] (map (lineno rr) ids).

Definition seqZ (n : Z) : list Z := map Z.of_nat (seq 1 (Z.to_nat n)).       (* 1 .. n *)

Record annot := {
  a_line : Z;
  a_total : entry;
  a_branches : entry;
  a_branchless : entry;
  a_lines : entry;
}.

Record report := {
  rp_branches : entry;
  rp_branchless : entry;
  rp_lines : entry;
  rp_annots : list annot;
  rp_branch_cov : option Q;
  rp_line_cov : option Q;
}.

Definition annot_of (rr : rreg) (t : trace) (m_branch m_line : bool) (i : Z) : annot :=
  let bl := if m_branch then get0 (code_cov rr t) i else ezero in
  let br := if m_branch then get0 (pred_cov rr t) i else ezero in
  let ln := if m_line then (b2z (memZ i (linenos rr (cov_lines t))), b2z (memZ i (linenos rr (keys (r_lines rr)))))
            else ezero in
  {| a_line := i; a_total := eadd (eadd bl br) ln; a_branches := br; a_branchless := bl; a_lines := ln |}.

(* get_coverage_report *)
Definition get_report (rr : rreg) (t : trace) (m_branch m_line : bool) : report :=
  let reg := to_registry rr in
  {| rp_branches := if m_branch then esum (values (pred_cov rr t)) else ezero;
     rp_branchless := if m_branch then esum (values (code_cov rr t)) else ezero;
     rp_lines := if m_line then (Z.of_nat (length (linenos rr (cov_lines t))),
                                 Z.of_nat (length (linenos rr (keys (r_lines rr))))) else ezero;
     rp_annots := map (annot_of rr t m_branch m_line) (seqZ (r_nsource rr));
     rp_branch_cov := if m_branch then Some (branch_coverage t reg) else None;
     rp_line_cov := if m_line then Some (line_coverage t reg) else None |}.

(* ---------- what the renderers show ---------- *)
(* Cobertura XML <line>: emitted iff total.existing <> 0; (number, hits, branch, covered, existing) *)
Definition xml_hits (a : annot) : bool :=
  ((0 <? snd (a_lines a)) && (0 <? fst (a_lines a))) ||
  (((0 <? snd (a_branches a)) || (0 <? snd (a_branchless a))) &&
   (0 <? fst (a_branches a) + fst (a_branchless a))).
Definition xml_branch (a : annot) : bool := (0 <? snd (a_branches a)) || (0 <? snd (a_branchless a)).
Definition xml_line (a : annot) : Z * bool * bool * entry :=
  (a_line a, xml_hits a, xml_branch a,
   if xml_branch a then (fst (a_branches a) + fst (a_branchless a), snd (a_branches a) + snd (a_branchless a)) else ezero).
Definition xml_lines (rp : report) : list (Z * bool * bool * entry) :=
  map xml_line (filter (fun a => negb (snd (a_total a) =? 0)) (rp_annots rp)).
(* <coverage lines-covered lines-valid branches-covered branches-valid> *)
Definition xml_totals (rp : report) : Z * Z * Z * Z :=
  (fst (rp_lines rp), snd (rp_lines rp),
   fst (rp_branches rp) + fst (rp_branchless rp), snd (rp_branches rp) + snd (rp_branchless rp)).

(* HTML: class of the line-number span: 0 notRelevant, 1 notCovered, 2 partiallyCovered, 3 fullyCovered;
   and whether the tool tip says "Line n covered" (1), "Line n not covered" (0) or nothing (-1) *)
Definition html_class (a : annot) : Z :=
  if snd (a_total a) =? 0 then 0
  else if fst (a_total a) =? 0 then 1
  else if fst (a_total a) <? snd (a_total a) then 2 else 3.
Definition html_line_msg (a : annot) : Z :=
  if 0 <? snd (a_lines a) then (if fst (a_lines a) =? 1 then 1 else 0) else -1.

(* ---------- decidable premises checked on every run ---------- *)
Definition in_range (n x : Z) : bool := (1 <=? x) && (x <=? n).
(* every predicate line, code-object first line and registered line number lies within the source *)
Definition in_source (rr : rreg) : bool :=
  forallb (in_range (r_nsource rr)) (map snd (r_branchless rr)) &&
  forallb (in_range (r_nsource rr)) (map snd (r_preds rr)) &&
  forallb (in_range (r_nsource rr)) (values (r_lines rr)).
(* one file: distinct line ids have distinct line numbers (register_line guarantees it per file) *)
Definition linenos_distinct (rr : rreg) : bool := nodupb (values (r_lines rr)).

(* ---------- correspondence ---------- *)
Definition entry_eqb (a b : entry) : bool := (fst a =? fst b) && (snd a =? snd b).
Definition annot_eqb (a b : annot) : bool :=
  (a_line a =? a_line b) && entry_eqb (a_total a) (a_total b) && entry_eqb (a_branches a) (a_branches b) &&
  entry_eqb (a_branchless a) (a_branchless b) && entry_eqb (a_lines a) (a_lines b).
Fixpoint list_eqb {A} (eqb : A -> A -> bool) (l1 l2 : list A) : bool :=
  match l1, l2 with
  | [], [] => true
  | x :: r1, y :: r2 => eqb x y && list_eqb eqb r1 r2
  | _, _ => false
  end.
Definition oq_eqb (a b : option Q) : bool :=      (* the report stores the float returned by compute_* *)
  match a, b with
  | Some x, Some y => Qle_bool (x - y) (1 # 1000000000) && Qle_bool (y - x) (1 # 1000000000)
  | None, None => true
  | _, _ => false
  end.
Definition xml_eqb (a b : Z * bool * bool * entry) : bool :=
  match a, b with
  | (n1, h1, b1, e1), (n2, h2, b2, e2) => (n1 =? n2) && Bool.eqb h1 h2 && Bool.eqb b1 b2 && entry_eqb e1 e2
  end.

Record case := {
  c_rr : rreg;
  c_trace : trace;                 (* the merged trace (analyze_results of the suite; C11) *)
  c_branch : bool; c_line : bool;  (* metrics *)
  c_report : report;               (* observed CoverageReport *)
  c_xml : option (list (Z * bool * bool * entry) * (Z * Z * Z * Z));   (* parsed back from the XML file *)
  c_html : option (list (Z * Z * Z));                                  (* (line, class, message) from HTML *)
  c_premises : bool;               (* harness-side: valid trace, registry wf, in_source, linenos_distinct *)
}.

Definition check_case (c : case) : bool :=
  let rp := get_report (c_rr c) (c_trace c) (c_branch c) (c_line c) in
  let ob := c_report c in
  entry_eqb (rp_branches rp) (rp_branches ob) && entry_eqb (rp_branchless rp) (rp_branchless ob) &&
  entry_eqb (rp_lines rp) (rp_lines ob) && list_eqb annot_eqb (rp_annots rp) (rp_annots ob) &&
  oq_eqb (rp_branch_cov rp) (rp_branch_cov ob) && oq_eqb (rp_line_cov rp) (rp_line_cov ob) &&
  match c_xml c with
  | Some (ls, tot) =>
      list_eqb xml_eqb (xml_lines rp) ls &&
      (match xml_totals rp, tot with (a1, a2, a3, a4), (b1, b2, b3, b4) => (a1 =? b1) && (a2 =? b2) && (a3 =? b3) && (a4 =? b4) end)
  | None => true
  end &&
  match c_html c with
  | Some hs => list_eqb (fun a h => match a, h with (n1, c1, m1), (n2, c2, m2) => (n1 =? n2) && (c1 =? c2) && (m1 =? m2) end)
                        (map (fun a => (a_line a, html_class a, html_line_msg a)) (rp_annots rp)) hs
  | None => true
  end &&
  Bool.eqb (valid (c_trace c) (to_registry (c_rr c)) && registry_wf (to_registry (c_rr c)) &&
            in_source (c_rr c) && linenos_distinct (c_rr c)) (c_premises c).

End C35.
