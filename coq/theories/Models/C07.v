(* C07 — every branch goal is reachable in the DynaMOSA goal graph.  Executable model:
   (A) node removal with re-linking in InstrumentationTransformer._create_covered_cdg,
   (B) _BranchFitnessGraph._build_graph over the (pruned) CDGs and the predicate registry,
   (C) _GoalsManager.update as closure of the tracked goals under "children of covered goals".
   Definitions only. *)
From Coq Require Import List NArith Bool.
From Verif Require Import Base.Graph Models.C06.
Import ListNotations.

Module C07.
Import Graph C06.

(* ------------------------------------------------------------------ (A) pruning a CDG *)
Definition has_edge (C : list ledge) (a b : N) : bool :=
  existsb (fun e => N.eqb (src e) a && N.eqb (dst e) b) C.

(* cdg.graph.remove_node(n); for pred in preds: for succ in succs: cdg.graph.add_edge(pred, succ)
   (add_edge on an existing edge keeps its attributes; a new edge carries no branch value) *)
Definition remove_relink (C : list ledge) (n : N) : list ledge :=
  let preds := nodup N.eq_dec (map src (filter (fun e => N.eqb (dst e) n && negb (N.eqb (src e) n)) C)) in
  let succs := nodup N.eq_dec (map dst (filter (fun e => N.eqb (src e) n && negb (N.eqb (dst e) n)) C)) in
  let kept := filter (fun e => negb (N.eqb (src e) n) && negb (N.eqb (dst e) n)) C in
  kept ++ flat_map (fun a => flat_map (fun b => if has_edge kept a b then [] else [(a, None, b)]) succs) preds.

Definition prune (C : list ledge) (removed : list N) : list ledge := fold_left remove_relink removed C.

(* ------------------------------------------------------------------ (B) building the goal graph *)
Inductive goal := GL (co : N) | GB (co pid : N) (v : bool).

Definition goal_eqb (g h : goal) : bool :=
  match g, h with
  | GL a, GL b => N.eqb a b
  | GB a p v, GB b q w => N.eqb a b && N.eqb p q && Bool.eqb v w
  | _, _ => false
  end.

(* code object: id, (pruned) CDG, registered predicates as (node, predicate id) *)
Record codeobj := { co_id : N; co_cdg : list ledge; co_preds : list (N * N) }.
Record modul := { cos : list codeobj; goals : list goal }.

Inductive berr := EKey | ERuntime | EAssert.

Definition find_co (m : modul) (co : N) : option codeobj := find (fun c => N.eqb (co_id c) co) (cos m).
Definition node_of (c : codeobj) (pid : N) : option N :=
  option_map fst (find (fun np => N.eqb (snd np) pid) (co_preds c)).
Definition pid_of (c : codeobj) (node : N) : option N :=
  option_map snd (find (fun np => N.eqb (fst np) node) (co_preds c)).

Fixpoint index_of (g : goal) (gs : list goal) (i : N) : option N :=
  match gs with
  | [] => None
  | h :: r => if goal_eqb g h then Some i else index_of g r (N.succ i)
  end.

(* edges contributed by goal number i: one from every goal it depends on *)
Fixpoint dep_edges (m : modul) (c : codeobj) (co i : N) (ds : list (N * bool)) : berr + list edge :=
  match ds with
  | [] => inr []
  | (p, v) :: r =>
      match pid_of c p with
      | None => inl EKey
      | Some pid' =>
          match index_of (GB co pid' v) (goals m) 0%N with
          | None => inl ERuntime
          | Some j => match dep_edges m c co i r with
                      | inl e => inl e
                      | inr es => inr ((j, i) :: es)
                      end
          end
      end
  end.

Definition goal_node (m : modul) (g : goal) : option (codeobj * N) :=
  match g with
  | GL _ => None
  | GB co pid _ => match find_co m co with
                   | None => None
                   | Some c => option_map (fun n => (c, n)) (node_of c pid)
                   end
  end.

Definition goal_is_root (m : modul) (g : goal) : bool :=
  match g with
  | GL _ => true
  | GB _ _ _ => match goal_node m g with
                | Some (c, n) => is_root_model (co_cdg c) n
                | None => false
                end
  end.

Fixpoint all_edges (m : modul) (gs : list goal) (i : N) : berr + list edge :=
  match gs with
  | [] => inr []
  | g :: r =>
      let here := match g with
                  | GL _ => inr []
                  | GB co _ _ => match goal_node m g with
                                 | None => inl EKey
                                 | Some (c, n) => dep_edges m c co i (deps_model (co_cdg c) n)
                                 end
                  end in
      match here with
      | inl e => inl e
      | inr es => match all_edges m r (N.succ i) with
                  | inl e => inl e
                  | inr es' => inr (es ++ es')
                  end
      end
  end.

Fixpoint root_indices (m : modul) (gs : list goal) (i : N) : list N :=
  match gs with
  | [] => []
  | g :: r => (if goal_is_root m g then [i] else []) ++ root_indices m r (N.succ i)
  end.

Fixpoint indices {A} (l : list A) (i : N) : list N :=
  match l with [] => [] | _ :: r => i :: indices r (N.succ i) end.

Definition has_parent (E : list edge) (g : N) : bool := existsb (fun e => N.eqb (snd e) g) E.

(* sanity check of _build_graph: goals without incoming edge are root branches *)
Definition sanity (E : list edge) (roots gs : list N) : bool :=
  forallb (fun g => has_parent E g || memb g roots) gs.

Definition build (m : modul) : berr + (list edge * list N) :=
  match all_edges m (goals m) 0%N with
  | inl e => inl e
  | inr E => let roots := root_indices m (goals m) 0%N in
             if sanity E roots (indices (goals m) 0%N) then inr (E, roots) else inl EAssert
  end.

(* decidable premises under which building cannot fail (checked on every dumped module) *)
Definition goal_premise (m : modul) (g : goal) : bool :=
  match g with
  | GL _ => true
  | GB co _ _ =>
      match goal_node m g with
      | None => false
      | Some (c, n) =>
          reachb (uedges (co_cdg c)) AUG n && negb (N.eqb n AUG) &&
          forallb (fun d => match pid_of c (fst d) with
                            | None => false
                            | Some pid' => match index_of (GB co pid' (snd d)) (goals m) 0%N with
                                           | None => false | Some _ => true end
                            end) (deps_model (co_cdg c) n)
      end
  end.

Definition premisesb (m : modul) : bool := forallb (goal_premise m) (goals m).

(* ------------------------------------------------------------------ (C) goals manager *)
Record ggraph := { gnodes : list N; gedges : list edge; groots : list N }.

(* state: goals ever handed to the archive (tracked), covered goals; current = tracked - covered *)
Definition gstate := (list N * list N)%type.

Definition enabled (G : ggraph) (C tl : list N) : list edge :=
  filter (fun e => memb (fst e) C || memb (fst e) tl) (gedges G).

(* one call of _GoalsManager.update, where tl = goals the given solutions cover *)
Definition update (G : ggraph) (st : gstate) (tl : list N) : gstate :=
  let '(T, C) := st in
  let T' := reach_set (enabled G C tl) T in
  (T', C ++ filter (fun g => memb g tl && negb (memb g C)) T').

Definition init (G : ggraph) : gstate := (nodup N.eq_dec (groots G), []).
Definition run (G : ggraph) (hist : list (list N)) : gstate := fold_left (update G) hist (init G).
Definition current (st : gstate) : list N := filter (fun g => negb (memb g (snd st))) (fst st).

Definition ggraph_okb (G : ggraph) : bool :=
  forallb (fun g => has_parent (gedges G) g || memb g (groots G)) (gnodes G) &&
  forallb (fun e => memb (fst e) (gnodes G) && memb (snd e) (gnodes G)) (gedges G) &&
  forallb (fun r => memb r (gnodes G)) (groots G).

Definition root_reachableb (G : ggraph) : bool :=
  let R := reach_set (gedges G) (groots G) in forallb (fun g => memb g R) (gnodes G).

(* ------------------------------------------------------------------ correspondence *)
Definition nset_eqb (a b : list N) : bool :=
  forallb (fun x => memb x b) a && forallb (fun x => memb x a) b.

Definition edge_mem (e : edge) (l : list edge) : bool :=
  existsb (fun f => N.eqb (fst e) (fst f) && N.eqb (snd e) (snd f)) l.
Definition eset_eqb (a b : list edge) : bool :=
  forallb (fun x => edge_mem x b) a && forallb (fun x => edge_mem x a) b.

Definition berr_eqb (a b : berr) : bool :=
  match a, b with EKey, EKey | ERuntime, ERuntime | EAssert, EAssert => true | _, _ => false end.

(* pruning case: unpruned CDG, removed nodes in order, pruned CDG as found in the code object *)
Definition prune_case := (list ledge * list N * list ledge)%type.
Definition check_prune (c : prune_case) : bool :=
  let '(C, removed, C') := c in lset_eqb (prune C removed) C'.

(* build case: module, the real graph (edges, roots) or the kind of exception *)
Definition build_case := (modul * (berr + (list edge * list N)))%type.
Definition check_build_code (c : build_case) : N :=
  let '(m, r) := c in
  match build m, r with
  | inl e, inl e' => if berr_eqb e e' then 0%N else 1%N
  | inr (E, R), inr (E', R') =>
      if negb (eset_eqb E E') then 2%N
      else if negb (nset_eqb R R') then 3%N
      else if negb (premisesb m) then 4%N
      else if negb (root_reachableb {| gnodes := indices (goals m) 0%N; gedges := E; groots := R |}) then 5%N
      else 0%N
  | _, _ => 6%N
  end.
Definition check_build (c : build_case) : bool := N.eqb (check_build_code c) 0%N.

(* manager case: goal graph, history of covered sets, observed (current, covered) after init
   and after every update *)
Definition mgr_case := (ggraph * list (list N) * list (list N * list N))%type.

Fixpoint check_hist (G : ggraph) (st : gstate) (hist : list (list N)) (obs : list (list N * list N)) : bool :=
  match obs with
  | [] => match hist with [] => true | _ => false end
  | (cur, cov) :: obs' =>
      nset_eqb (current st) cur && nset_eqb (snd st) cov &&
      match hist with
      | [] => match obs' with [] => true | _ => false end
      | tl :: hist' => check_hist G (update G st tl) hist' obs'
      end
  end.

Definition check_mgr (c : mgr_case) : bool :=
  let '(G, hist, obs) := c in ggraph_okb G && check_hist G (init G) hist obs.

End C07.
