(* C30 — executable model of the process-global resources a test execution can touch and of the
   executor's bracket around the code under test (TestCaseExecutor._execute_test_case:
   _make_deterministic, OutputSuppressionContext.__enter__ / restore, after the proposed repairs
   fixes/C30-*.diff).  Definitions only; proofs are in Proofs/C30.v.

   sys.stdout / sys.stderr / sys.stdin refer to the interpreter's original object (Std:
   sys.__stdout__ / sys.__stderr__ / sys.__stdin__), to the shared null file of
   OutputSuppressionContext (Null) or to any other object (Other, with its closed flag: installed by
   the code under test, or by an application that embeds Pynguin).  restore() reinstalls
   sys.__stdout__ / sys.__stderr__ (not the previous objects: existing tests of the repository
   demand exactly that; recorded as a known finding) and the previous sys.stdin.  File descriptors 0..2
   are open or closed.  [logd] is logging.root.manager.disable.  A random generator is abstracted to
   (seed, number of draws since seeding); [low x k] tells whether draw k after seeding with x is
   below 0.5 (a table supplied by the harness; the theorems hold for every table). *)
From Coq Require Import List ZArith Bool.
Import ListNotations.
Open Scope Z_scope.

Module C30.

Inductive sref := Std | Null | Other (closed : bool).
Definition rng := (Z * nat)%type.

Record proc := {
  s_out : sref; s_err : sref; s_in : sref;
  nullw_closed : bool;           (* OutputSuppressionContext._null_file.closed *)
  nullr_closed : bool;           (* OutputSuppressionContext._null_input.closed *)
  fd0 : bool; fd1 : bool; fd2 : bool;
  logd : Z;
  mod_rng : rng;                 (* the module-level generator of `random` *)
  inst_rng : rng;                (* a random.Random instance of the module under test (tracked) *)
  pyn_rng : rng;                 (* pynguin.utils.randomness.RNG *)
  counter : Z;                   (* a global of the module under test (hidden state) *)
  log_cache : option bool        (* Logger._cache[ERROR] of the module's logger: the cached answer of
                                    isEnabledFor(ERROR), None = not cached *)
}.

Record env := { cfg_seed : Z; table : list (Z * list bool) }.

Fixpoint lookup (x : Z) (t : list (Z * list bool)) : list bool :=
  match t with
  | [] => []
  | (y, l) :: r => if Z.eqb x y then l else lookup x r
  end.
Definition low (e : env) (x : Z) (k : nat) : bool := nth k (lookup x (table e)) false.

Inductive exn := EValue | EOS | ERuntime | EKey.
Inductive outcome := Done | Exc (e : exn).

(* one call into the module under test *)
Inductive act :=
  | Print | PrintErr
  | CloseOut | CloseErr | CloseIn
  | SetOut
  | ReadIn
  | OsClose (fd : nat) | OsFstat (fd : nat)
  | LogDisable (l : Z) | LogCheck | LogEmit
  | Seed (x : Z) | SeedNone | Draw | DrawInst
  | Raise
  | Bump | ReadCounter.

Definition set_out v s := {| s_out := v; s_err := s_err s; s_in := s_in s; nullw_closed := nullw_closed s; nullr_closed := nullr_closed s; fd0 := fd0 s; fd1 := fd1 s; fd2 := fd2 s; logd := logd s; mod_rng := mod_rng s; inst_rng := inst_rng s; pyn_rng := pyn_rng s; counter := counter s; log_cache := log_cache s |}.
Definition set_err v s := {| s_out := s_out s; s_err := v; s_in := s_in s; nullw_closed := nullw_closed s; nullr_closed := nullr_closed s; fd0 := fd0 s; fd1 := fd1 s; fd2 := fd2 s; logd := logd s; mod_rng := mod_rng s; inst_rng := inst_rng s; pyn_rng := pyn_rng s; counter := counter s; log_cache := log_cache s |}.
Definition set_in v s := {| s_out := s_out s; s_err := s_err s; s_in := v; nullw_closed := nullw_closed s; nullr_closed := nullr_closed s; fd0 := fd0 s; fd1 := fd1 s; fd2 := fd2 s; logd := logd s; mod_rng := mod_rng s; inst_rng := inst_rng s; pyn_rng := pyn_rng s; counter := counter s; log_cache := log_cache s |}.
Definition set_nullw v s := {| s_out := s_out s; s_err := s_err s; s_in := s_in s; nullw_closed := v; nullr_closed := nullr_closed s; fd0 := fd0 s; fd1 := fd1 s; fd2 := fd2 s; logd := logd s; mod_rng := mod_rng s; inst_rng := inst_rng s; pyn_rng := pyn_rng s; counter := counter s; log_cache := log_cache s |}.
Definition set_nullr v s := {| s_out := s_out s; s_err := s_err s; s_in := s_in s; nullw_closed := nullw_closed s; nullr_closed := v; fd0 := fd0 s; fd1 := fd1 s; fd2 := fd2 s; logd := logd s; mod_rng := mod_rng s; inst_rng := inst_rng s; pyn_rng := pyn_rng s; counter := counter s; log_cache := log_cache s |}.
Definition set_fds a b c s := {| s_out := s_out s; s_err := s_err s; s_in := s_in s; nullw_closed := nullw_closed s; nullr_closed := nullr_closed s; fd0 := a; fd1 := b; fd2 := c; logd := logd s; mod_rng := mod_rng s; inst_rng := inst_rng s; pyn_rng := pyn_rng s; counter := counter s; log_cache := log_cache s |}.
Definition set_logd v s := {| s_out := s_out s; s_err := s_err s; s_in := s_in s; nullw_closed := nullw_closed s; nullr_closed := nullr_closed s; fd0 := fd0 s; fd1 := fd1 s; fd2 := fd2 s; logd := v; mod_rng := mod_rng s; inst_rng := inst_rng s; pyn_rng := pyn_rng s; counter := counter s; log_cache := log_cache s |}.
Definition set_mod v s := {| s_out := s_out s; s_err := s_err s; s_in := s_in s; nullw_closed := nullw_closed s; nullr_closed := nullr_closed s; fd0 := fd0 s; fd1 := fd1 s; fd2 := fd2 s; logd := logd s; mod_rng := v; inst_rng := inst_rng s; pyn_rng := pyn_rng s; counter := counter s; log_cache := log_cache s |}.
Definition set_inst v s := {| s_out := s_out s; s_err := s_err s; s_in := s_in s; nullw_closed := nullw_closed s; nullr_closed := nullr_closed s; fd0 := fd0 s; fd1 := fd1 s; fd2 := fd2 s; logd := logd s; mod_rng := mod_rng s; inst_rng := v; pyn_rng := pyn_rng s; counter := counter s; log_cache := log_cache s |}.
Definition set_pyn v s := {| s_out := s_out s; s_err := s_err s; s_in := s_in s; nullw_closed := nullw_closed s; nullr_closed := nullr_closed s; fd0 := fd0 s; fd1 := fd1 s; fd2 := fd2 s; logd := logd s; mod_rng := mod_rng s; inst_rng := inst_rng s; pyn_rng := v; counter := counter s; log_cache := log_cache s |}.
Definition set_counter v s := {| s_out := s_out s; s_err := s_err s; s_in := s_in s; nullw_closed := nullw_closed s; nullr_closed := nullr_closed s; fd0 := fd0 s; fd1 := fd1 s; fd2 := fd2 s; logd := logd s; mod_rng := mod_rng s; inst_rng := inst_rng s; pyn_rng := pyn_rng s; counter := v; log_cache := log_cache s |}.
Definition set_cache v s := {| s_out := s_out s; s_err := s_err s; s_in := s_in s; nullw_closed := nullw_closed s; nullr_closed := nullr_closed s; fd0 := fd0 s; fd1 := fd1 s; fd2 := fd2 s; logd := logd s; mod_rng := mod_rng s; inst_rng := inst_rng s; pyn_rng := pyn_rng s; counter := counter s; log_cache := v |}.

(* writing to / reading from the object a stream variable refers to *)
Definition use_w (r : sref) (s : proc) : outcome :=
  match r with
  | Std => Done
  | Null => if nullw_closed s then Exc EValue else Done
  | Other c => if c then Exc EValue else Done
  end.
Definition use_r (r : sref) (s : proc) : outcome :=
  match r with
  | Std => Done
  | Null => if nullr_closed s then Exc EValue else Done
  | Other c => if c then Exc EValue else Done
  end.

(* <stream>.close(): closes the object; the shared null file is shared by stdout and stderr *)
Definition close_w (r : sref) (s : proc) : sref * proc :=
  match r with
  | Std => (Std, s)                     (* not reachable inside the bracket *)
  | Null => (Null, set_nullw true s)
  | Other _ => (Other true, s)
  end.
Definition close_r (r : sref) (s : proc) : sref * proc :=
  match r with
  | Std => (Std, s)
  | Null => (Null, set_nullr true s)
  | Other _ => (Other true, s)
  end.

Definition fd_get (i : nat) (s : proc) : bool :=
  match i with O => fd0 s | S O => fd1 s | _ => fd2 s end.
Definition fd_set (i : nat) (v : bool) (s : proc) : proc :=
  match i with
  | O => set_fds v (fd1 s) (fd2 s) s
  | S O => set_fds (fd0 s) v (fd2 s) s
  | _ => set_fds (fd0 s) (fd1 s) v s
  end.

(* Logger.isEnabledFor(ERROR) of the module's logger (level INFO): the cached answer if there is one,
   otherwise computed from the disable level and cached.  logging.disable(...) clears the caches of all
   loggers; assigning logging.root.manager.disable does not. *)
Definition loud (l : Z) : bool := negb (40 <=? l).
Definition consult (s : proc) : proc * bool :=
  match log_cache s with
  | Some b => (s, b)
  | None => (set_cache (Some (loud (logd s))) s, loud (logd s))
  end.
Definition log_loud (s : proc) : bool := snd (consult s).
(* caches filled through the public API always agree with the disable level *)
Definition cache_ok (s : proc) : Prop :=
  match log_cache s with Some b => b = loud (logd s) | None => True end.

Definition act_step (e : env) (a : act) (s : proc) : proc * outcome :=
  match a with
  | Print => (s, use_w (s_out s) s)
  | PrintErr => (s, use_w (s_err s) s)
  | CloseOut => let (r, s') := close_w (s_out s) s in (set_out r s', Done)
  | CloseErr => let (r, s') := close_w (s_err s) s in (set_err r s', Done)
  | CloseIn => let (r, s') := close_r (s_in s) s in (set_in r s', Done)
  | SetOut => (set_out (Other false) s, Done)
  | ReadIn => (s, use_r (s_in s) s)
  | OsClose i => if fd_get i s then (fd_set i false s, Done) else (s, Exc EOS)
  | OsFstat i => (s, if fd_get i s then Done else Exc EOS)
  | LogDisable l => (set_cache None (set_logd l s), Done)
  | LogCheck => let (s', b) := consult s in (s', if b then Done else Exc ERuntime)
  | LogEmit => (fst (consult s), Done)
  | Seed x => (set_mod (x, O) s, Done)
  | SeedNone => (set_inst (cfg_seed e, O) s, Done)        (* R.seed(): _patch_random makes seed(None) use the configured seed *)
  | Draw => let (x, k) := mod_rng s in
            (set_mod (x, S k) s, if low e x k then Exc ERuntime else Done)
  | DrawInst => let (x, k) := inst_rng s in
            (set_inst (x, S k) s, if low e x k then Exc ERuntime else Done)
  | Raise => (s, Exc EKey)
  | Bump => (set_counter (counter s + 1) s, Done)
  | ReadCounter => (s, if Z.odd (counter s) then Exc ERuntime else Done)
  end.

(* the statements of a test case run in order; the first exception ends the execution *)
Fixpoint run_stmts (e : env) (t : list act) (s : proc) : proc * list outcome :=
  match t with
  | [] => (s, [])
  | a :: r =>
      match act_step e a s with
      | (s', Done) => let (s'', os) := run_stmts e r s' in (s'', Done :: os)
      | (s', Exc x) => (s', [Exc x])
      end
  end.

(* ---- the bracket ---- *)
Definition make_deterministic (e : env) (s : proc) : proc :=
  set_inst (cfg_seed e, O) (set_mod (cfg_seed e, O) s).

Record saved := { sv_in : sref; sv_logd : Z;
                  sv_fd0 : bool; sv_fd1 : bool; sv_fd2 : bool }.

(* OutputSuppressionContext.__enter__: dup the open descriptors, remember streams and logging
   level, reopen the null files if a previous execution closed them, redirect the streams *)
Definition save (s : proc) : saved :=
  {| sv_in := s_in s; sv_logd := logd s;
     sv_fd0 := fd0 s; sv_fd1 := fd1 s; sv_fd2 := fd2 s |}.
Definition enter (s : proc) : proc :=
  set_in Null (set_err Null (set_out Null (set_nullr false (set_nullw false s)))).

(* OutputSuppressionContext.restore (run by the execution thread when it leaves the context, or by
   the calling thread after the grace join on the time-out path): dup2 every saved descriptor back,
   install sys.__stdout__ / sys.__stderr__ and the previous sys.stdin *)
Definition osc_restore (sv : saved) (s : proc) : proc :=
  set_in (sv_in sv) (set_err Std (set_out Std
    (set_fds (if sv_fd0 sv then true else fd0 s)
             (if sv_fd1 sv then true else fd1 s)
             (if sv_fd2 sv then true else fd2 s) s))).
(* TestCaseExecutor.execute, calling thread, after the result / time-out handling: hand the previous
   logging.disable level back *)
Definition restore_logging (sv : saved) (s : proc) : proc := set_cache None (set_logd (sv_logd sv) s).
(* NOT the code's: assigning the attribute restores the number but leaves the loggers' caches stale *)
Definition restore_logging_level_only (sv : saved) (s : proc) : proc := set_logd (sv_logd sv) s.
Definition restore (sv : saved) (s : proc) : proc := restore_logging sv (osc_restore sv s).

Definition exec_test (e : env) (t : list act) (s : proc) : proc * list outcome :=
  let s1 := make_deterministic e s in
  let sv := save s1 in
  let (s3, os) := run_stmts e t (enter s1) in
  (restore sv s3, os).

Definition result (e : env) (t : list act) (s : proc) : list outcome := snd (exec_test e t s).

(* The time-out path of TestCaseExecutor.execute: the first join expires while the code under test has
   performed [t1]; the calling thread then waits in the grace join, during which the condemned thread
   still performs [t2]; only afterwards the calling thread runs OutputSuppressionContext.restore and
   hands the logging level back.  The result carries no outcomes (ExecutionResult(timeout=True)). *)
Definition exec_timeout (e : env) (t1 t2 : list act) (s : proc) : proc :=
  let s1 := make_deterministic e s in
  let sv := save s1 in
  let s2 := fst (run_stmts e t1 (enter s1)) in
  let s3 := fst (run_stmts e t2 s2) in
  restore_logging sv (osc_restore sv s3).

(* a different placement (NOT the code's): the logging level is handed back right after the first
   join, before the grace join *)
Definition exec_timeout_early_logging (e : env) (t1 t2 : list act) (s : proc) : proc :=
  let s1 := make_deterministic e s in
  let sv := save s1 in
  let s2 := restore_logging sv (fst (run_stmts e t1 (enter s1))) in
  let s3 := fst (run_stmts e t2 s2) in
  osc_restore sv s3.

(* what Pynguin does between executions: run another test (to completion or into a time-out), or
   use its own generator *)
Inductive item := Exec (t : list act) | ExecTimeout (t1 t2 : list act) | PynDraw.
Definition item_step (e : env) (s : proc) (i : item) : proc :=
  match i with
  | Exec t => fst (exec_test e t s)
  | ExecTimeout t1 t2 => exec_timeout e t1 t2 s
  | PynDraw => let (x, k) := pyn_rng s in set_pyn (x, S k) s
  end.
Definition run_items (e : env) (s : proc) (l : list item) : proc := fold_left (item_step e) l s.

(* Pynguin's view of the process: streams, descriptors, logging state, own random stream *)
Definition pyn_view (s : proc) :=
  (s_out s, s_err s, s_in s, (fd0 s, fd1 s, fd2 s), logd s, pyn_rng s).

Definition reads_hidden (t : list act) : bool :=
  existsb (fun a => match a with ReadCounter => true | _ => false end) t.

(* ---- correspondence ---- *)
Definition sref_eqb (a b : sref) : bool :=
  match a, b with
  | Std, Std | Null, Null => true
  | Other c, Other d => Bool.eqb c d
  | _, _ => false
  end.
Definition rng_eqb (a b : rng) : bool := Z.eqb (fst a) (fst b) && Nat.eqb (snd a) (snd b).
Definition proc_eqb (a b : proc) : bool :=
  sref_eqb (s_out a) (s_out b) && sref_eqb (s_err a) (s_err b) && sref_eqb (s_in a) (s_in b) &&
  Bool.eqb (nullw_closed a) (nullw_closed b) && Bool.eqb (nullr_closed a) (nullr_closed b) &&
  Bool.eqb (fd0 a) (fd0 b) && Bool.eqb (fd1 a) (fd1 b) && Bool.eqb (fd2 a) (fd2 b) &&
  Z.eqb (logd a) (logd b) && rng_eqb (mod_rng a) (mod_rng b) && rng_eqb (inst_rng a) (inst_rng b) &&
  rng_eqb (pyn_rng a) (pyn_rng b) && Z.eqb (counter a) (counter b) &&
  match log_cache a, log_cache b with
  | None, None => true
  | Some x, Some y => Bool.eqb x y
  | _, _ => false
  end.

Definition exn_eqb (a b : exn) : bool :=
  match a, b with EValue, EValue | EOS, EOS | ERuntime, ERuntime | EKey, EKey => true | _, _ => false end.
Definition outcome_eqb (a b : outcome) : bool :=
  match a, b with Done, Done => true | Exc x, Exc y => exn_eqb x y | _, _ => false end.
Fixpoint outcomes_eqb (a b : list outcome) : bool :=
  match a, b with
  | [], [] => true
  | x :: a', y :: b' => outcome_eqb x y && outcomes_eqb a' b'
  | _, _ => false
  end.

(* an observed step: the item, the outcomes the executor reported (empty for PynDraw) and the
   process state sampled afterwards *)
Definition obs_step := (item * (list outcome * proc))%type.
Definition case := (env * (proc * list obs_step))%type.

Fixpoint check_steps (e : env) (s : proc) (l : list obs_step) : bool :=
  match l with
  | [] => true
  | (i, (os, s_obs)) :: r =>
      let s' := item_step e s i in
      let os' := match i with Exec t => result e t s | _ => [] end in
      outcomes_eqb os os' && proc_eqb s' s_obs && check_steps e s' r
  end.

Definition check_case (c : case) : bool :=
  let '(e, (s0, steps)) := c in check_steps e s0 steps.

End C30.
