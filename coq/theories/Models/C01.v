(* C01 — instrumentation does not change behaviour.
   Model A : stack machine for the opcodes the 3.12 instruction generator emits.
   Model A' : placement of a snippet in a raw basic block that also holds pseudo-instructions.
   Definitions only; proofs in Proofs/C01.v. *)
From Coq Require Import List ZArith Bool Lia.
Import ListNotations.

Module C01.

(* ------------------------------------------------------------------------------------------ *)
(* Model A: values, instructions, events *)

(* V = the values of the program under test (universally quantified in every theorem). *)
Inductive sval (V : Type) : Type :=
| SUT (v : V)                       (* a cell that belongs to the subject *)
| KConst (k : N)                    (* pushed by the snippet's k-th LOAD_CONST *)
| KMeth (k : N)                     (* bound-method slot pushed by LOAD_ATTR(method) on constant k *)
| KSelf (k : N)                     (* self slot pushed by LOAD_ATTR(method) on constant k *)
| KVar                              (* value read from a variable of the subject *)
| KLocals
| KTuple (a b : sval V)
| KRes                              (* result of the tracer call *)
| KSum (a b : sval V)               (* result of BINARY_OP + applied to two cells *)
| KOrig (j : nat) (args : list (sval V)).   (* j-th result of the overridden instruction *)
Arguments SUT {V}. Arguments KConst {V}. Arguments KMeth {V}. Arguments KSelf {V}.
Arguments KVar {V}. Arguments KLocals {V}. Arguments KTuple {V}. Arguments KRes {V}.
Arguments KSum {V}. Arguments KOrig {V}.

Inductive instr : Type :=
| COPY (n : nat) | SWAP (n : nat) | POP_TOP
| LOAD_CONST (k : N)
| LOAD_METHOD                        (* LOAD_ATTR with the method flag *)
| LOAD_VAR                           (* LOAD_FAST(_CHECK) / LOAD_NAME / LOAD_GLOBAL / LOAD_DEREF *)
| LOAD_LOCALS | LOAD_FROM_DICT_OR_DEREF
| BUILD_TUPLE2
| BINARY_ADD
| CALL (n : nat)
| ORIG (pops pushes : nat).          (* the overridden original instruction *)

Inductive event (V : Type) : Type :=
| ECall (k : N) (args : list (sval V))   (* call of the method loaded from constant k *)
| EUserOp (a b : sval V)                 (* an operator applied to two cells *)
| EOrig (args : list (sval V))           (* the original instruction, operands deepest first *)
| ERead.                                 (* a variable of the subject was read *)
Arguments ECall {V}. Arguments EUserOp {V}. Arguments EOrig {V}. Arguments ERead {V}.

Definition stack V := list (sval V).     (* head = top of stack *)

Fixpoint set_nth {A} (l : list A) (n : nat) (x : A) : option (list A) :=
  match l, n with
  | [], _ => None
  | _ :: r, O => Some (x :: r)
  | y :: r, S m => option_map (cons y) (set_nth r m x)
  end.

Fixpoint results {V} (q : nat) (args : list (sval V)) : list (sval V) :=
  match q with O => [] | S m => KOrig m args :: results m args end.

Definition step {V} (i : instr) (st : stack V) : option (stack V * list (event V)) :=
  match i with
  | COPY n => match n with O => None | S m =>
                match nth_error st m with Some x => Some (x :: st, []) | None => None end end
  | SWAP n => match n, st with
              | S (S m), top :: _ =>
                  match nth_error st (S m) with
                  | Some x => match set_nth st (S m) top with
                              | Some (_ :: r) => Some (x :: r, [])
                              | _ => None end
                  | None => None end
              | _, _ => None end
  | POP_TOP => match st with _ :: r => Some (r, []) | [] => None end
  | LOAD_CONST k => Some (KConst k :: st, [])
  | LOAD_METHOD => match st with KConst k :: r => Some (KSelf k :: KMeth k :: r, []) | _ => None end
  | LOAD_VAR => Some (KVar :: st, [ERead])
  | LOAD_LOCALS => Some (KLocals :: st, [])
  | LOAD_FROM_DICT_OR_DEREF => match st with KLocals :: r => Some (KVar :: r, [ERead]) | _ => None end
  | BUILD_TUPLE2 => match st with b :: a :: r => Some (KTuple a b :: r, []) | _ => None end
  | BINARY_ADD => match st with b :: a :: r => Some (KSum a b :: r, [EUserOp a b]) | _ => None end
  | CALL n =>
      if Nat.ltb (length st) (n + 2) then None else
      match skipn n st with
      | KSelf k :: KMeth k' :: r =>
          if N.eqb k k' then Some (KRes :: r, [ECall k (rev (firstn n st))]) else None
      | _ => None end
  | ORIG p q =>
      if Nat.ltb (length st) p then None else
      let args := rev (firstn p st) in
      Some (results q args ++ skipn p st, [EOrig args])
  end.

Fixpoint exec {V} (code : list instr) (st : stack V) : option (stack V * list (event V)) :=
  match code with
  | [] => Some (st, [])
  | i :: r => match step i st with
              | None => None
              | Some (st1, e1) => match exec r st1 with
                                  | None => None
                                  | Some (st2, e2) => Some (st2, e1 ++ e2) end end
  end.

(* ------------------------------------------------------------------------------------------ *)
(* What a snippet is requested to do (the generator's contract) *)
Inductive action :=
| NO_ACTION | COPY_FIRST | COPY_FIRST_SHIFT_DOWN_TWO | COPY_SECOND | COPY_SECOND_SHIFT_DOWN_TWO
| COPY_SECOND_SHIFT_DOWN_THREE | COPY_THIRD_SHIFT_DOWN_THREE | COPY_THIRD_SHIFT_DOWN_FOUR
| COPY_FIRST_TWO | ADD_FIRST_TWO | ADD_FIRST_TWO_REVERSED.

Inductive arg := AConst | AStack (i : nat) (* 1 = FIRST, 2 = SECOND *) | AVar | AVarTuple.

Record snippet := {
  s_action : action;
  s_args : list arg;
  s_orig : option (nat * nat);      (* pops, pushes of the overridden instruction, if any *)
  s_code : list instr }.

Definition need_action (a : action) : nat :=
  match a with
  | NO_ACTION => 0 | COPY_FIRST => 1
  | COPY_FIRST_SHIFT_DOWN_TWO | COPY_SECOND | COPY_SECOND_SHIFT_DOWN_TWO | COPY_FIRST_TWO
  | ADD_FIRST_TWO | ADD_FIRST_TWO_REVERSED => 2
  | COPY_SECOND_SHIFT_DOWN_THREE | COPY_THIRD_SHIFT_DOWN_THREE => 3
  | COPY_THIRD_SHIFT_DOWN_FOUR => 4 end.

Definition need (s : snippet) : nat :=
  Nat.max (need_action (s_action s)) (match s_orig s with Some (p, _) => p | None => 0 end).

(* The cell of the ORIGINAL stack (at the probe point) that stack value FIRST/SECOND denotes for
   each setup action, as documented in InstrumentationSetupAction.  For the SHIFT_DOWN actions the
   copy is shifted below the operands of the overridden instruction, so after that instruction
   (which pushes [q] results) the copy is stack value number q+1. *)
Definition intended {V} (a : action) (q : nat) (i : nat) (st : stack V) : option (sval V) :=
  match a with
  | COPY_FIRST => if Nat.eqb i 1 then nth_error st 0 else None
  | COPY_FIRST_TWO => if Nat.eqb i 1 then nth_error st 0 else if Nat.eqb i 2 then nth_error st 1 else None
  | COPY_SECOND => if Nat.eqb i 1 then nth_error st 1 else None
  | COPY_FIRST_SHIFT_DOWN_TWO => if Nat.eqb i (S q) then nth_error st 0 else None
  | COPY_SECOND_SHIFT_DOWN_TWO | COPY_SECOND_SHIFT_DOWN_THREE => if Nat.eqb i (S q) then nth_error st 1 else None
  | COPY_THIRD_SHIFT_DOWN_THREE | COPY_THIRD_SHIFT_DOWN_FOUR => if Nat.eqb i (S q) then nth_error st 2 else None
  | ADD_FIRST_TWO =>
      if Nat.eqb i 1 then match st with b :: a :: _ => Some (KSum a b) | _ => None end else None
  | ADD_FIRST_TWO_REVERSED =>
      if Nat.eqb i 1 then match st with b :: a :: _ => Some (KSum b a) | _ => None end else None
  | NO_ACTION => None
  end.

(* constants are numbered in load order; constant 0 is the receiver of the call *)
Fixpoint expected_args {V} (a : action) (q : nat) (st : stack V) (args : list arg) (k : N)
  : option (list (sval V)) :=
  match args with
  | [] => Some []
  | x :: r =>
      match x with
      | AConst => option_map (cons (KConst k)) (expected_args a q st r (N.succ k))
      | AStack i => match intended a q i st with
                    | Some v => option_map (cons v) (expected_args a q st r k)
                    | None => None end
      | AVar => option_map (cons KVar) (expected_args a q st r k)
      | AVarTuple => option_map (cons (KTuple KVar KVar)) (expected_args a q st r k)
      end
  end.

Fixpoint reads {V} (args : list arg) : list (event V) :=
  match args with
  | [] => []
  | AVar :: r => ERead :: reads r
  | AVarTuple :: r => ERead :: ERead :: reads r
  | _ :: r => reads r
  end.

Definition user_ops {V} (a : action) (st : stack V) : list (event V) :=
  match a, st with
  | ADD_FIRST_TWO, b :: a :: _ => [EUserOp a b]
  | ADD_FIRST_TWO_REVERSED, b :: a :: _ => [EUserOp b a]
  | _, _ => [] end.

Definition pushes (s : snippet) : nat := match s_orig s with Some (_, q) => q | None => 0 end.

Definition orig_args {V} (s : snippet) (st : stack V) : list (sval V) :=
  match s_orig s with Some (p, _) => rev (firstn p st) | None => [] end.

Definition expected_stack {V} (s : snippet) (st : stack V) : stack V :=
  match s_orig s with
  | None => st
  | Some (p, q) => results q (rev (firstn p st)) ++ skipn p st end.

Definition expected_events {V} (s : snippet) (st : stack V) : option (list (event V)) :=
  match expected_args (s_action s) (pushes s) st (s_args s) 1%N with
  | None => None
  | Some l =>
      Some (user_ops (s_action s) st
            ++ (match s_orig s with Some _ => [EOrig (orig_args s st)] | None => [] end)
            ++ reads (s_args s) ++ [ECall 0%N l])
  end.

(* The contract, for ALL subject value types, ALL stack contents and ALL depths >= need. *)
Definition snippet_ok (s : snippet) : Prop :=
  forall (V : Type) (st : stack V), need s <= length st ->
    exists evs, expected_events s st = Some evs /\ exec (s_code s) st = Some (expected_stack s st, evs).

Definition is_user_op {V} (e : event V) : bool := match e with EUserOp _ _ => true | _ => false end.
Definition is_call {V} (e : event V) : bool := match e with ECall _ _ => true | _ => false end.
Definition adds (a : action) : bool :=
  match a with ADD_FIRST_TWO | ADD_FIRST_TWO_REVERSED => true | _ => false end.

(* K2: concrete run on the stack [SUT 0; SUT 1; ...] compared with what CPython did.
   Observed cells are coded: 0.. = sentinel i (a subject cell), 1000+k = constant k, 2000 = variable
   value, 3000 = tuple of two variable values, 4000 = call result, 5000+j = j-th result of the
   original instruction. *)
Definition code_of {V} (f : V -> Z) (v : sval V) : Z :=
  match v with
  | SUT x => f x | KConst k => 1000 + Z.of_N k | KVar => 2000 | KTuple _ _ => 3000
  | KRes => 4000 | KOrig j _ => 5000 + Z.of_nat j | KSum _ _ => 6000
  | KMeth _ => 7000 | KSelf _ => 7001 | KLocals => 7002 end%Z.

Definition sentinels (n : nat) : stack Z := map (fun i => SUT (Z.of_nat i)) (seq 0 n).

Definition obs_event (e : event Z) : option (Z * list Z) :=
  match e with
  | ECall k args => Some (Z.of_N k, map (code_of (fun z => z)) args)
  | EOrig args => Some ((-1)%Z, map (code_of (fun z => z)) args)
  | EUserOp a b => Some ((-2)%Z, [code_of (fun z => z) a; code_of (fun z => z) b])
  | ERead => None end.

Fixpoint filter_map {A B} (f : A -> option B) (l : list A) : list B :=
  match l with [] => [] | x :: r => match f x with Some y => y :: filter_map f r | None => filter_map f r end end.

(* case: code, depth of sentinels, observed final stack (top first), observed calls *)
Definition case := (list instr * nat * list Z * list (Z * list Z))%type.

Definition zlist_eqb (a b : list Z) : bool :=
  Nat.eqb (length a) (length b) && forallb (fun p => Z.eqb (fst p) (snd p)) (combine a b).

Definition check_case (c : case) : bool :=
  let '(code, n, ostack, ocalls) := c in
  match exec code (sentinels n) with
  | None => false
  | Some (st, evs) =>
      zlist_eqb (map (code_of (fun z => z)) st) ostack &&
      let calls := filter_map obs_event evs in
      Nat.eqb (length calls) (length ocalls) &&
      forallb (fun p => Z.eqb (fst (fst p)) (fst (snd p)) && zlist_eqb (snd (fst p)) (snd (snd p)))
              (combine calls ocalls)
  end.

(* ------------------------------------------------------------------------------------------ *)
(* Model A': a raw basic block holds real instructions and pseudo-instructions (TryBegin/TryEnd).
   Indices handed out by BasicBlockNode count real instructions only. *)
Inductive relem (A : Type) := RI (a : A) | RP (p : nat).
Arguments RI {A}. Arguments RP {A}.

Fixpoint instrs {A} (l : list (relem A)) : list A :=
  match l with [] => [] | RI a :: r => a :: instrs r | RP _ :: r => instrs r end.

(* raw position of the n-th real instruction: BasicBlockNode._basic_block_position *)
Fixpoint pos {A} (l : list (relem A)) (n : nat) : option nat :=
  match l with
  | [] => None
  | RP _ :: r => option_map S (pos r n)
  | RI _ :: r => match n with O => Some O | S m => option_map S (pos r m) end
  end.

(* Python index normalisation: negative indices count from the end *)
Definition norm (len : nat) (i : Z) : option nat :=
  if (0 <=? i)%Z then (if (i <? Z.of_nat len)%Z then Some (Z.to_nat i) else None)
  else (if (- Z.of_nat len <=? i)%Z then Some (Z.to_nat (Z.of_nat len + i)) else None).

Definition pos_z {A} (l : list (relem A)) (i : Z) : option nat :=
  match norm (length (instrs l)) i with Some n => pos l n | None => None end.

Definition splice {A} (l : list A) (a b : nat) (x : list A) : list A := firstn a l ++ x ++ skipn b l.

(* node.basic_block[node.before(i)] = snip, ... after ..., ... override ... *)
Definition insert_before {A} (l : list (relem A)) (i : Z) (snip : list A) : option (list (relem A)) :=
  option_map (fun p => splice l p p (map RI snip)) (pos_z l i).
Definition insert_after {A} (l : list (relem A)) (i : Z) (snip : list A) : option (list (relem A)) :=
  option_map (fun p => splice l (S p) (S p) (map RI snip)) (pos_z l i).
Definition override {A} (l : list (relem A)) (i : Z) (snip : list A) : option (list (relem A)) :=
  option_map (fun p => splice l p (S p) (map RI snip)) (pos_z l i).

(* the unrepaired code used the instruction index as a raw position *)
Definition insert_before_raw {A} (l : list (relem A)) (n : nat) (snip : list A) : list (relem A) :=
  splice l n n (map RI snip).

(* K2 for A': (kinds of the raw block: true = real, index, observed slice start/stop or None) *)
Definition pcase := (list bool * Z * option (nat * nat) * option (nat * nat) * option (nat * nat))%type.
Definition block_of (ks : list bool) : list (relem unit) := map (fun b : bool => if b then RI tt else RP 0) ks.
Definition opt_pair_eqb (a b : option (nat * nat)) : bool :=
  match a, b with
  | None, None => true
  | Some (x, y), Some (u, v) => Nat.eqb x u && Nat.eqb y v
  | _, _ => false end.
Definition check_pcase (c : pcase) : bool :=
  let '(ks, i, ob, oa, oo) := c in
  let p := pos_z (block_of ks) i in
  opt_pair_eqb (option_map (fun p => (p, p)) p) ob &&
  opt_pair_eqb (option_map (fun p => (S p, S p)) p) oa &&
  opt_pair_eqb (option_map (fun p => (p, S p)) p) oo.

(* ------------------------------------------------------------------------------------------ *)
(* Model B' (callback purity of the seeding side): the three entry points of DynamicConstantProvider
   that instrumented code calls.  A runtime value is abstracted to its class; "Sub" = instance of a
   subclass (its methods and operators may be user-defined), VOther = any other object. *)
Inductive vclass := VStr | VBytes | VNum | VSubStr | VSubBytes | VSubNum | VOther.
Definition user_defined (c : vclass) : bool :=
  match c with VStr | VBytes | VNum => false | _ => true end.

Inductive entry := EAddValue | EAddForStrings | EAddConcat.

(* which operands get an operator / method applied by the provider *)
Definition touches (e : entry) (a b : vclass) : list vclass :=
  match e with
  | EAddValue => []                                        (* type(value) in ConstantTypes: no method call *)
  | EAddForStrings => match a with VStr => [VStr] | _ => [] end   (* value.isX()/upper()/lower(), exact str only *)
  | EAddConcat => match a, b with
                  | VStr, VStr => [VStr; VStr]
                  | VBytes, VBytes => [VBytes; VBytes]
                  | _, _ => [] end                        (* first + second, same exact string type only *)
  end.

Definition stores (e : entry) (a b : vclass) : bool :=
  match e with
  | EAddValue => negb (user_defined a) | EAddForStrings => match a with VStr => true | _ => false end
  | EAddConcat => match touches EAddConcat a b with [] => false | _ => true end end.

(* observation of the real provider: (something was added to the pool, a user-defined method ran, it raised) *)
Definition pvcase := (entry * vclass * vclass * (bool * bool * bool))%type.
Definition check_pvcase (c : pvcase) : bool :=
  let '(e, a, b, (st, usr, rs)) := c in
  Bool.eqb st (stores e a b) && Bool.eqb usr (existsb user_defined (touches e a b)) && negb rs.

End C01.
