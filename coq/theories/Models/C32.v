(* C32 — interleaving model of ExecutionTracer's thread handling
   (src/pynguin/instrumentation/tracer.py: TracerLocalState, __enter__/__exit__/stop/check, _early_return)
   and of the way TestCaseExecutor.execute abandons a thread (src/pynguin/testcase/execution.py).
   Definitions only; proofs are in Proofs/C32.v.

   Shared state: the identity of the thread that is allowed to trace ([current], i.e.
   _current_thread_identifier) and the import trace.  Per thread (threading.local): enabled flag and
   trace.  One [action] is one call of a tracer method by a thread (or by the main thread); a schedule is
   an ARBITRARY list of actions — every interleaving the interpreter can produce is one of them, and the
   theorems quantify over all lists, not only over those that respect program order.  Actions a real
   thread cannot perform in its state (probing after it has exited, initialising twice) are no-ops.

   [guard] selects the behaviour of __exit__: false = stop() unconditionally (the code as it is), true =
   stop() only when the exiting thread is the current one.  All theorems hold for both. *)
From Coq Require Import List ZArith Bool Arith.
Import ListNotations.
Open Scope Z_scope.

Module C32.

Definition tid := nat.

Inductive status :=
  | Fresh        (* thread not started *)
  | Live         (* executing its test case *)
  | InHook       (* inside a predicate callback, past the gate, running an operator of the code under test
                    with tracing temporarily disabled; the recording is still to come *)
  | Aborting     (* TracingAbortedException raised, propagating to the with-block's __exit__ *)
  | Finished     (* left the with-block normally, result put into its queue *)
  | Done.        (* left the with-block after an abort: no result *)

Record tlocal := { st : status; enabled : bool; trace : list Z }.

Inductive result := ROk (events : list Z) | RTimeout.

Record state := {
  guard : bool;
  imp : list Z;                       (* import trace, merged into every fresh trace by init_trace *)
  current : option tid;               (* _current_thread_identifier *)
  loc : tid -> tlocal;                (* threading.local *)
  results : tid -> option result }.   (* what TestCaseExecutor.execute returned for the test run by thread t *)

Inductive action :=
  | Init (t : tid)                    (* thread t starts: _before_test_case_execution -> init_trace *)
  | Enter (t : tid)                   (* with tracer: __enter__ *)
  | Probe (t : tid) (e : Z)           (* an @_early_return callback from instrumented code *)
  | Check (t : tid)                   (* bare check() before/after a statement *)
  | Disable (t : tid) | Enable (t : tid)
  | Exit (t : tid)                    (* __exit__ of the with-block (normal or while aborting) *)
  | Stop                              (* main thread: tracer.stop() after the join timed out *)
  | Harvest (t : tid)                 (* main thread: build the ExecutionResult for thread t's test *)
  | HookBegin (t : tid)               (* a predicate callback starts: _early_return gate, then temporarily_disable *)
  | HookEnd (t : tid) (e : Z).        (* the operator returned: enable again, record into the thread's OWN trace *)

Definition upd {A} (f : tid -> A) (t : tid) (v : A) : tid -> A :=
  fun u => if Nat.eqb u t then v else f u.

Definition is_current (s : state) (t : tid) : bool :=
  match current s with Some c => Nat.eqb c t | None => false end.

Definition set_loc (s : state) (t : tid) (l : tlocal) : state :=
  {| guard := guard s; imp := imp s; current := current s; loc := upd (loc s) t l; results := results s |}.
Definition set_current (s : state) (c : option tid) : state :=
  {| guard := guard s; imp := imp s; current := c; loc := loc s; results := results s |}.
Definition set_result (s : state) (t : tid) (r : result) : state :=
  {| guard := guard s; imp := imp s; current := current s; loc := loc s; results := upd (results s) t (Some r) |}.

Definition is_live (l : tlocal) : bool := match st l with Live => true | _ => false end.

Definition step (s : state) (a : action) : state :=
  match a with
  | Init t =>
      let l := loc s t in
      match st l with
      | Fresh => set_loc s t {| st := Live; enabled := enabled l; trace := imp s |}
      | _ => s
      end
  | Enter t => if is_live (loc s t) then set_current s (Some t) else s
  | Probe t e =>
      let l := loc s t in
      if is_live l then
        if enabled l then
          if is_current s t then set_loc s t {| st := Live; enabled := true; trace := trace l ++ [e] |}
          else set_loc s t {| st := Aborting; enabled := enabled l; trace := trace l |}
        else s
      else s
  | Check t =>
      let l := loc s t in
      if is_live l then
        if is_current s t then s
        else set_loc s t {| st := Aborting; enabled := enabled l; trace := trace l |}
      else s
  | Disable t =>
      let l := loc s t in
      if is_live l then set_loc s t {| st := Live; enabled := false; trace := trace l |} else s
  | Enable t =>
      let l := loc s t in
      if is_live l then set_loc s t {| st := Live; enabled := true; trace := trace l |} else s
  | Exit t =>
      let l := loc s t in
      let stop_it (s' : state) :=
        if guard s then (if is_current s t then set_current s' None else s') else set_current s' None in
      match st l with
      | Live => stop_it (set_loc s t {| st := Finished; enabled := enabled l; trace := trace l |})
      | Aborting => stop_it (set_loc s t {| st := Done; enabled := enabled l; trace := trace l |})
      | _ => s
      end
  | HookBegin t =>
      let l := loc s t in
      if is_live l then
        if enabled l then
          if is_current s t then set_loc s t {| st := InHook; enabled := false; trace := trace l |}
          else set_loc s t {| st := Aborting; enabled := enabled l; trace := trace l |}
        else s
      else s
  | HookEnd t e =>
      let l := loc s t in
      match st l with
      | InHook => set_loc s t {| st := Live; enabled := true; trace := trace l ++ [e] |}
      | _ => s
      end
  | Stop => set_current s None
  | Harvest t =>
      match results s t with
      | Some _ => s
      | None =>
          match st (loc s t) with
          | Finished => set_result s t (ROk (trace (loc s t)))
          | _ => set_result s t RTimeout
          end
      end
  end.

Definition run (s : state) (sched : list action) : state := fold_left step sched s.

(* does the action raise TracingAbortedException in this state? *)
Definition raises (s : state) (a : action) : bool :=
  match a with
  | Probe t _ => is_live (loc s t) && enabled (loc s t) && negb (is_current s t)
  | Check t => is_live (loc s t) && negb (is_current s t)
  | HookBegin t => is_live (loc s t) && enabled (loc s t) && negb (is_current s t)
  | _ => false
  end.

Fixpoint raised (s : state) (sched : list action) : list bool :=
  match sched with
  | [] => []
  | a :: r => raises s a :: raised (step s a) r
  end.

Definition actor (a : action) : option tid :=
  match a with
  | Init t | Enter t | Probe t _ | Check t | Disable t | Enable t | Exit t | HookBegin t | HookEnd t _ => Some t
  | Stop | Harvest _ => None
  end.

Definition init_state (g : bool) (im : list Z) : state :=
  {| guard := g; imp := im; current := None;
     loc := fun _ => {| st := Fresh; enabled := true; trace := [] |};
     results := fun _ => None |}.

(* ---- model time of TestCaseExecutor.execute ------------------------------------------------------
   tmo = min(maximum_test_execution_timeout, per_statement * size), maxT = maximum_test_execution_timeout,
   fin = Some d if the test's thread terminates d time units after its start, None if it never does
   (once stopped it may die earlier: d is then the time of its death). *)
Definition exec_timeout (tmo : Z) (fin : option Z) : bool :=
  match fin with Some d => tmo <? d | None => true end.
Definition exec_duration (tmo maxT : Z) (fin : option Z) : Z :=
  match fin with
  | Some d => if tmo <? d then tmo + Z.min (d - tmo) maxT else d
  | None => tmo + maxT
  end.

(* ---- correspondence ----------------------------------------------------------------------------- *)
Definition status_code (x : status) : Z :=
  match x with Fresh => 0 | Live => 1 | Aborting => 2 | Finished => 3 | Done => 4 | InHook => 5 end.

Fixpoint eqb_listZ (a b : list Z) : bool :=
  match a, b with
  | [], [] => true
  | x :: a', y :: b' => Z.eqb x y && eqb_listZ a' b'
  | _, _ => false
  end.

Fixpoint eqb_listb (a b : list bool) : bool :=
  match a, b with
  | [], [] => true
  | x :: a', y :: b' => Bool.eqb x y && eqb_listb a' b'
  | _, _ => false
  end.

(* events >= 1000000 are predicate events (kept in a separate container by the real trace) *)
Definition is_pred (e : Z) : bool := 1000000 <=? e.
Definition lines_of (l : list Z) : list Z := filter (fun e => negb (is_pred e)) l.
Definition preds_of (l : list Z) : list Z := filter is_pred l.

(* a harvested result is compared on its line events *)
Definition eqb_result (a b : option result) : bool :=
  match a, b with
  | None, None => true
  | Some RTimeout, Some RTimeout => true
  | Some (ROk x), Some (ROk y) => eqb_listZ (lines_of x) y
  | _, _ => false
  end.

(* The real ExecutionTrace keeps covered lines and executed predicates in two containers; events >= 1000000
   are predicate events.  Per thread: status code, enabled flag, line events, predicate events, result. *)
Definition tobs := (Z * bool * list Z * list Z * option result)%type.

Fixpoint check_threads (s : state) (t : nat) (obs : list tobs) : bool :=
  match obs with
  | [] => true
  | (c, en, tr, pr, r) :: rest =>
      let l := loc s t in
      Z.eqb (status_code (st l)) c && Bool.eqb (enabled l) en && eqb_listZ (lines_of (trace l)) tr
      && eqb_listZ (preds_of (trace l)) pr
      && eqb_result (results s t) r && check_threads s (S t) rest
  end.

Record case := {
  c_guard : bool; c_imp : list Z; c_sched : list action;
  c_raised : list bool;               (* per action: did the real call raise TracingAbortedException *)
  c_current : option nat;             (* final _current_thread_identifier, as a thread number *)
  c_threads : list tobs }.

Definition check_case (c : case) : bool :=
  let s0 := init_state (c_guard c) (c_imp c) in
  let s := run s0 (c_sched c) in
  eqb_listb (raised s0 (c_sched c)) (c_raised c)
  && match current s, c_current c with
     | None, None => true
     | Some a, Some b => Nat.eqb a b
     | _, _ => false
     end
  && check_threads s 0 (c_threads c).

End C32.
