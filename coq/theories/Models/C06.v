(* C06 — control-dependence graphs match the post-dominance definition (Ferrante et al.).
   Executable model: definitions only.  Node identifiers: AUG = 0 (augmented entry of the
   control-dependence graph), ENTRY = 1, EXIT = 2, basic block i = i + 3. *)
From Coq Require Import List NArith Bool.
From Verif Require Import Base.Graph.
Import ListNotations.

Module C06.
Import Graph.

Definition AUG : N := 0%N.
Definition ENTRY : N := 1%N.
Definition EXIT : N := 2%N.

(* labelled edge: source, branch outcome (None = unconditional/unlabelled), target *)
Notation ledge := (N * option bool * N)%type.

Definition src (e : ledge) : N := fst (fst e).
Definition lab (e : ledge) : option bool := snd (fst e).
Definition dst (e : ledge) : N := snd e.

Record cfg := { nodes : list N; edges : list ledge }.

Definition uedges (L : list ledge) : list edge := map (fun e => (src e, dst e)) L.

(* ------------------------------------------------------------------ post-dominance *)
(* Path-based definition: b post-dominates x iff every walk from x to the exit passes b. *)
Definition postdom (E : list edge) (ex b x : N) : Prop :=
  forall p, walk E x p ex -> In b p.

(* Nodes from which the exit can be reached by a walk that avoids b. *)
Definition escape_set (E : list edge) (ex b : N) : list N :=
  if N.eqb b ex then [] else reach_set (rev_edges (avoid E b)) [ex].

Definition postdomb (E : list edge) (ex b x : N) : bool := negb (memb x (escape_set E ex b)).

(* ------------------------------------------------------------------ control dependence *)
(* Ferrante, Ottenstein, Warren: b is control dependent on a with outcome v iff b post-dominates
   the v-successor of a and does not strictly post-dominate a. *)
Definition cd_spec (L : list ledge) (ex a : N) (v : option bool) (b : N) : Prop :=
  exists s, In (a, v, s) L /\ postdom (uedges L) ex b s /\
            ~ (b <> a /\ postdom (uedges L) ex b a).

Definition cd_for (L : list ledge) (ex b : N) : list ledge :=
  let R := escape_set (uedges L) ex b in
  map (fun e => (src e, lab e, b))
      (filter (fun e => negb (memb (dst e) R) && (N.eqb b (src e) || memb (src e) R)) L).

Definition cdg_full (Ns : list N) (L : list ledge) (ex : N) : list ledge :=
  flat_map (cd_for L ex) Ns.

(* The augmented graph of ControlDependenceGraph.compute, and removal of ENTRY/EXIT. *)
Definition aug_nodes (g : cfg) : list N := AUG :: nodes g.
Definition aug_edges (g : cfg) : list ledge := (AUG, None, ENTRY) :: (AUG, None, EXIT) :: edges g.

Definition artificial (n : N) : bool := N.eqb n ENTRY || N.eqb n EXIT.

Definition cdg_model (g : cfg) : list ledge :=
  filter (fun e => negb (artificial (src e)) && negb (artificial (dst e)))
         (cdg_full (aug_nodes g) (aug_edges g) EXIT).

(* ------------------------------------------------------------------ well-formed CFG *)
Definition cfg_wfb (g : cfg) : bool :=
  memb ENTRY (nodes g) && memb EXIT (nodes g) && negb (memb AUG (nodes g)) &&
  forallb (fun e => memb (src e) (nodes g) && memb (dst e) (nodes g) &&
                    negb (N.eqb (dst e) ENTRY) && negb (N.eqb (src e) EXIT)) (edges g) &&
  Nat.eqb (length (filter (fun e => N.eqb (src e) ENTRY) (edges g))) 1 &&
  (let R := reach_set (uedges (edges g)) [ENTRY] in forallb (fun n => memb n R) (nodes g)) &&
  (let R := reach_set (rev_edges (uedges (edges g))) [EXIT] in forallb (fun n => memb n R) (nodes g)).

Record wf (g : cfg) : Prop := {
  wf_entry : In ENTRY (nodes g);
  wf_exit : In EXIT (nodes g);
  wf_aug : ~ In AUG (nodes g);
  wf_edges : forall a v b, In (a, v, b) (edges g) -> In a (nodes g) /\ In b (nodes g);
  wf_entry_no_pred : forall a v, ~ In (a, v, ENTRY) (edges g);
  wf_exit_no_succ : forall v b, ~ In (EXIT, v, b) (edges g);
  wf_entry_one_succ : forall v b v' b', In (ENTRY, v, b) (edges g) -> In (ENTRY, v', b') (edges g) ->
                                         (v, b) = (v', b');
  wf_from_entry : forall n, In n (nodes g) -> reach (uedges (edges g)) ENTRY n;
  wf_to_exit : forall n, In n (nodes g) -> reach (uedges (edges g)) n EXIT
}.

(* ------------------------------------------------------------------ queries on a CDG *)
(* get_control_dependencies / is_control_dependent_on_root walk backwards over unlabelled
   edges (and edges leaving the augmented entry). *)
Definition unlabelled (e : ledge) : bool :=
  match lab e with None => true | Some _ => N.eqb (src e) AUG end.

Definition unl (C : list ledge) : list edge := uedges (filter unlabelled C).

(* nodes x with x ->* n over unlabelled edges *)
Definition back_closure (C : list ledge) (n : N) : list N := reach_set (rev_edges (unl C)) [n].

Definition deps_model (C : list ledge) (n : N) : list (N * bool) :=
  let B := back_closure C n in
  flat_map (fun e => match lab e with
                     | Some v => if negb (unlabelled e) && memb (dst e) B then [(src e, v)] else []
                     | None => []
                     end) C.

Definition is_root_model (C : list ledge) (n : N) : bool :=
  let B := back_closure C n in
  existsb (fun e => N.eqb (src e) AUG && memb (dst e) B) C.

(* ------------------------------------------------------------------ correspondence *)
Definition ledge_eqb (e f : ledge) : bool :=
  N.eqb (src e) (src f) && N.eqb (dst e) (dst f) &&
  match lab e, lab f with
  | None, None => true
  | Some x, Some y => Bool.eqb x y
  | _, _ => false
  end.

Definition lmem (e : ledge) (l : list ledge) : bool := existsb (ledge_eqb e) l.
Definition lset_eqb (l1 l2 : list ledge) : bool :=
  forallb (fun e => lmem e l2) l1 && forallb (fun e => lmem e l1) l2.

Definition dep_eqb (d e : N * bool) : bool := N.eqb (fst d) (fst e) && Bool.eqb (snd d) (snd e).
Definition dmem (d : N * bool) (l : list (N * bool)) : bool := existsb (dep_eqb d) l.
Definition dset_eqb (l1 l2 : list (N * bool)) : bool :=
  forallb (fun d => dmem d l2) l1 && forallb (fun d => dmem d l1) l2.

(* observation of the implementation per CDG node: (node, control dependencies, root?) *)
Definition obs := (N * list (N * bool) * bool)%type.

(* A case: the CFG Pynguin built, the CDG edge triples it computed from it, and the answers of
   get_control_dependencies / is_control_dependent_on_root for every CDG node. *)
Definition case := (cfg * list ledge * list obs)%type.

Definition check_obs (C : list ledge) (o : obs) : bool :=
  let '(n, ds, r) := o in
  dset_eqb (deps_model C n) ds && Bool.eqb (is_root_model C n) r.

(* result code: 0 = agrees; 1 = CFG not well-formed; 2 = CDG differs from the definition;
   3 = a query (dependencies / root) differs *)
Definition check_code (c : case) : N :=
  let '(g, C, os) := c in
  if negb (cfg_wfb g) then 1%N
  else let M := cdg_model g in
       if negb (lset_eqb M C) then 2%N
       else if negb (forallb (check_obs M) os) then 3%N
       else 0%N.

Definition check_case (c : case) : bool := N.eqb (check_code c) 0%N.

End C06.
