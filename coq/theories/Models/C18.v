(* C18 — executable model of the test-suite writer (pynguin.testcase.export.TestSuiteWriter.write
   and _build_test_function, after the repair "import pytest whenever a function mentions it").
   An abstract suite (per statement: bound names, free names, the exception its re-execution
   raised, whether the callable declares it, its assertions by kind) is mapped to an abstract
   module: import header (ordered top-level statements) and one function per test case with its
   xfail flag and body items.  Definitions only; proofs are in Proofs/C18.v. *)
From Coq Require Import List NArith Bool.
Import ListNotations.

Module C18.

(* Identifiers.  Builtin k: a name of the builtins module (always bound).  Var/Glob: any other
   identifier, by code (the harness keeps the dictionary). *)
Inductive name :=
  | Pytest | Sys | Random | Alias | SutRoot
  | Builtin (k : N) | Var (k : N) | Glob (k : N).

Definition name_eqb (a b : name) : bool :=
  match a, b with
  | Pytest, Pytest | Sys, Sys | Random, Random | Alias, Alias | SutRoot, SutRoot => true
  | Builtin x, Builtin y | Var x, Var y | Glob x, Glob y => N.eqb x y
  | _, _ => false
  end.

Definition mem (n : name) (l : list name) : bool := existsb (name_eqb n) l.
Definition is_builtin (n : name) : bool := match n with Builtin _ => true | _ => false end.

(* fixed builtin codes used by rendered assertions *)
Definition b_type := Builtin 0.
Definition b_isinstance := Builtin 1.
Definition b_len := Builtin 2.

(* exception class raised by a statement: its __name__, its module unless it lives in builtins, and
   whether it is a BaseException that is not an Exception (SystemExit, KeyboardInterrupt,
   GeneratorExit, user subclasses of BaseException).  The writer records every kind alike. *)
Record exc := { e_name : name; e_mod : option N; e_base : bool }.

Inductive akind :=
  | AFloat                    (* assert src == pytest.approx(v, abs=.., rel=..) *)
  | AObject                   (* assert src == v   /  assert src is v *)
  | ATypeName                 (* assert f"{type(src).__module__}.{type(src).__qualname__}" == '...' *)
  | AIsInstance (t : name)    (* assert isinstance(src, T) / isinstance(src, alias.T): t = root name *)
  | ALen                      (* assert len(src) == n *)
  | AExc.                     (* ExceptionAssertion: not rendered *)

(* a_src: root name of the asserted reference; a_vals: free names of the rendered value (enum
   class names, float/set calls); a_holds: the assertion is true when the test runs *)
Record assertion := { a_kind : akind; a_src : name; a_vals : list name; a_holds : bool }.

Record stmt := {
  s_id : N;
  s_bind : list name;
  s_uses : list name;
  s_exc : option exc;          (* exception type observed by _per_statement_exceptions *)
  s_expected : bool;           (* declared by the callable (expected_exceptions) *)
  s_asserts : list assertion }.

Definition testcase := list stmt.

Record cfg := {
  no_xfail : bool;
  seed : bool;                 (* a seed fixture is emitted *)
  publics : list name }.       (* public names of the SUT module (from SUT import ...) *)

Inductive item :=
  | IStmt (w : option name) (s : stmt)     (* w = Some E: wrapped in `with pytest.raises(E):` *)
  | IAssert (a : assertion)
  | IPass.

Record func := { f_xfail : bool; f_body : list item }.

Inductive top :=
  | TImport (n : name)                     (* import n *)
  | TAlias                                 (* alias = sys.modules['sut'] *)
  | TFromSut (ns : list name)              (* from sut import publics *)
  | TExcImports (l : list (N * name))      (* from mod import Exc ... (all exception imports) *)
  | TPatch                                 (* random.Random.seed patch *)
  | TFixture.                              (* @pytest.fixture(autouse=True) reseed fixture *)

Record pymodule := { header : list top; funcs : list func }.

(* ------------------------------------------------------------------------------------------ *)
Definition rendered (a : assertion) : bool := match a_kind a with AExc => false | _ => true end.

Definition uses_assert (a : assertion) : list name :=
  match a_kind a with
  | AFloat => a_src a :: Pytest :: a_vals a
  | AObject => a_src a :: a_vals a
  | ATypeName => [a_src a; b_type]
  | AIsInstance t => [a_src a; b_isinstance; t]
  | ALen => [a_src a; b_len]
  | AExc => []
  end.

Definition handled (c : cfg) (s : stmt) : bool := no_xfail c || s_expected s.

(* the exception a statement is wrapped for *)
Definition wrapped (c : cfg) (s : stmt) : option exc :=
  match s_exc s with
  | Some e => if handled c s then Some e else None
  | None => None
  end.

Definition unexpected (c : cfg) (s : stmt) : bool :=
  match s_exc s with
  | Some _ => negb (handled c s)
  | None => false
  end.

Definition items_of (c : cfg) (s : stmt) : list item :=
  IStmt (option_map e_name (wrapped c s)) s :: map IAssert (filter rendered (s_asserts s)).

Definition or_pass (b : list item) : list item := match b with [] => [IPass] | _ => b end.

Definition body_of (c : cfg) (tc : testcase) : list item := or_pass (flat_map (items_of c) tc).

Definition func_of (c : cfg) (tc : testcase) : func :=
  {| f_xfail := existsb (unexpected c) tc; f_body := body_of c tc |}.

Definition uses_item (it : item) : list name :=
  match it with
  | IStmt None s => s_uses s
  | IStmt (Some e) s => Pytest :: e :: s_uses s
  | IAssert a => uses_assert a
  | IPass => []
  end.

Definition binds_item (it : item) : list name :=
  match it with IStmt _ s => s_bind s | _ => [] end.

Definition func_mentions_pytest (f : func) : bool :=
  f_xfail f || existsb (fun it => mem Pytest (uses_item it)) (f_body f).

Definition raises_any (tc : testcase) : bool :=
  existsb (fun s => match s_exc s with Some _ => true | None => false end) tc.

Definition needs_pytest (c : cfg) (suite : list testcase) : bool :=
  seed c || existsb raises_any suite || existsb func_mentions_pytest (map (func_of c) suite).

Definition used_excs (c : cfg) (suite : list testcase) : list exc :=
  flat_map (fun tc => flat_map (fun s => match wrapped c s with Some e => [e] | None => [] end) tc) suite.

Definition exc_imports (c : cfg) (suite : list testcase) : list (N * name) :=
  flat_map (fun e => match e_mod e with Some m => [(m, e_name e)] | None => [] end) (used_excs c suite).

Definition sut_block (c : cfg) : list top :=
  [TImport Sys; TImport SutRoot; TAlias] ++ match publics c with [] => [] | ps => [TFromSut ps] end.

Definition exc_block (c : cfg) (suite : list testcase) : list top :=
  match exc_imports c suite with [] => [] | l => [TExcImports l] end.

Definition empty_func : func := {| f_xfail := false; f_body := [IPass] |}.

Definition write (c : cfg) (suite : list testcase) : pymodule :=
  {| header :=
       if seed c then
         [TImport Random; TImport Pytest; TPatch] ++ exc_block c suite ++ sut_block c ++ [TFixture]
       else
         (if needs_pytest c suite then [TImport Pytest] else []) ++ sut_block c ++ exc_block c suite;
     funcs := match suite with [] => [empty_func] | _ => map (func_of c) suite end |}.

(* ------------------------------------------------------------------------------------------ *)
(* Name binding of the emitted module *)
Definition uses_top (t : top) : list name :=
  match t with
  | TAlias => [Sys]
  | TPatch => [Random]
  | TFixture => [Pytest]          (* the fixture imports random locally under a private name *)
  | _ => []
  end.

Definition binds_top (t : top) : list name :=
  match t with
  | TImport n => [n]
  | TAlias => [Alias]
  | TFromSut ns => ns
  | TExcImports l => map snd l
  | TPatch | TFixture => []
  end.

Definition ok_name (G : list name) (n : name) : bool := is_builtin n || mem n G.

Fixpoint closed_header (G : list name) (h : list top) : bool :=
  match h with
  | [] => true
  | t :: r => forallb (ok_name G) (uses_top t) && closed_header (binds_top t ++ G) r
  end.

Fixpoint closed_body (G : list name) (b : list item) : bool :=
  match b with
  | [] => true
  | it :: r => forallb (ok_name G) (uses_item it) && closed_body (binds_item it ++ G) r
  end.

Definition globals (m : pymodule) : list name := flat_map binds_top (header m).

Definition closed_func (G : list name) (f : func) : bool :=
  (if f_xfail f then mem Pytest G else true) && closed_body G (f_body f).

Definition closed_module (m : pymodule) : bool :=
  closed_header [] (header m) && forallb (closed_func (globals m)) (funcs m).

(* Well-scoped input: what a test case may mention *)
Definition ambient (c : cfg) (n : name) : bool :=
  is_builtin n || name_eqb n Alias || name_eqb n Pytest || mem n (publics c).

Definition wf_exc (e : exc) : bool :=
  match e_mod e with None => is_builtin (e_name e) | Some _ => true end.

Definition wf_stmt (c : cfg) (L : list name) (s : stmt) : bool :=
  forallb (fun n => ambient c n || mem n L) (s_uses s)
  && forallb (fun a => forallb (fun n => ambient c n || mem n (s_bind s ++ L)) (uses_assert a))
       (filter rendered (s_asserts s))
  && match s_exc s with Some e => wf_exc e | None => true end.

Fixpoint wf_tc (c : cfg) (L : list name) (tc : testcase) : bool :=
  match tc with
  | [] => true
  | s :: r => wf_stmt c L s && wf_tc c (s_bind s ++ L) r
  end.

Definition wf_suite (c : cfg) (suite : list testcase) : bool := forallb (wf_tc c []) suite.

(* ------------------------------------------------------------------------------------------ *)
(* Running an emitted function under pytest, for a deterministic SUT: a statement raises what its
   re-execution during export raised; `with pytest.raises(E)` passes iff E is raised inside. *)
Inductive outcome := Pass | Fail.

Fixpoint run_body (b : list item) : outcome :=
  match b with
  | [] => Pass
  | IStmt None s :: r => match s_exc s with Some _ => Fail | None => run_body r end
  | IStmt (Some n) s :: r =>
      match s_exc s with
      | Some e => if name_eqb (e_name e) n then run_body r else Fail
      | None => Fail
      end
  | IAssert a :: r => if a_holds a then run_body r else Fail
  | IPass :: r => run_body r
  end.

Inductive report := Passed | Failed | XFailed | XPassedStrict.

Definition pytest_report (f : func) : report :=
  match f_xfail f, run_body (f_body f) with
  | false, Pass => Passed
  | false, Fail => Failed
  | true, Fail => XFailed
  | true, Pass => XPassedStrict
  end.

Definition all_hold (tc : testcase) : bool :=
  forallb (fun s => forallb a_holds (filter rendered (s_asserts s))) tc.

(* ------------------------------------------------------------------------------------------ *)
(* Correspondence: what the harness extracts from a file written by the real writer *)
Inductive oitem :=
  | OStmt (w : option name) (id : N) (uses binds : list name)
  | OAssert (uses : list name)
  | OPass
  | OUnknown.

Record otop := { o_top : top; o_uses : list name; o_binds : list name }.  (* builtins removed *)
Record ofunc := { o_xfail : bool; o_body : list oitem }.

Definition subset (a b : list name) : bool := forallb (fun n => mem n b) a.
Definition seteq (a b : list name) : bool := subset a b && subset b a.
Definition nonbuiltin (l : list name) : list name := filter (fun n => negb (is_builtin n)) l.

Definition pair_eqb (p q : N * name) : bool := N.eqb (fst p) (fst q) && name_eqb (snd p) (snd q).
Definition psubset (a b : list (N * name)) : bool := forallb (fun p => existsb (pair_eqb p) b) a.

Definition opt_name_eqb (a b : option name) : bool :=
  match a, b with
  | None, None => true
  | Some x, Some y => name_eqb x y
  | _, _ => false
  end.

Definition top_match (t : top) (o : otop) : bool :=
  (match t, o_top o with
   | TImport a, TImport b => name_eqb a b
   | TAlias, TAlias | TPatch, TPatch | TFixture, TFixture => true
   | TFromSut a, TFromSut b => seteq a b
   | TExcImports a, TExcImports b => psubset a b && psubset b a
   | _, _ => false
   end)
  && seteq (nonbuiltin (uses_top t)) (o_uses o) && seteq (nonbuiltin (binds_top t)) (o_binds o).

Definition item_match (it : item) (o : oitem) : bool :=
  match it, o with
  | IStmt w s, OStmt w' id u b =>
      opt_name_eqb w w' && N.eqb (s_id s) id && seteq (uses_item it) u && seteq (s_bind s) b
  | IAssert a, OAssert u => seteq (uses_assert a) u
  | IPass, OPass => true
  | _, _ => false
  end.

Fixpoint all2 {A B} (p : A -> B -> bool) (a : list A) (b : list B) : bool :=
  match a, b with
  | [], [] => true
  | x :: r, y :: q => p x y && all2 p r q
  | _, _ => false
  end.

Definition func_match (f : func) (o : ofunc) : bool :=
  Bool.eqb (f_xfail f) (o_xfail o) && all2 item_match (f_body f) (o_body o).

Definition case := (cfg * list testcase * (list otop * list ofunc))%type.

Definition check_case (k : case) : bool :=
  let '(c, suite, (oh, ofs)) := k in
  let m := write c suite in
  all2 top_match (header m) oh && all2 func_match (funcs m) ofs.

End C18.
