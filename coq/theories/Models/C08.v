(* C08 — executable model of the coverage-exclusion logic of
   pynguin.instrumentation.transformer (ModuleAstInfo / AstInfo, after the proposed fixes
   C08-*.diff) and of the way the instrumentation consults it.  Definitions only.

   Syntax trees are rose trees with explicit line ranges.  Real `ast` nodes are [KOther], [KScope],
   [KIf], [KLoop] (For/While), [KTry], [KMatch], [KHandler] (ExceptHandler), [KCase] (match_case);
   [KArm a] is a synthetic, position-less node that groups the statements of one arm (body / orelse
   / finalbody), children are in `ast.iter_child_nodes` order.  Position-less nodes have s > e. *)
From Coq Require Import List ZArith Bool.
Import ListNotations.
Open Scope Z_scope.

Module C08.

Inductive arm := ABody | AOrelse | AFinal.
Inductive kind :=
  | KOther
  | KScope (ismod isdef : bool) (first name : Z)   (* first = co_firstlineno (first decorator) *)
  | KIf (elif special : bool)   (* elif: orelse is one If in the same column; special: main / TYPE_CHECKING *)
  | KLoop | KTry | KMatch | KHandler | KCase
  | KArm (a : arm).
Inductive node := Node (k : kind) (s e : Z) (kids : list node).

Definition nkind n := let 'Node k _ _ _ := n in k.
Definition nstart n := let 'Node _ s _ _ := n in s.
Definition nend n := let 'Node _ _ e _ := n in e.
Definition nkids n := let 'Node _ _ _ ks := n in ks.

Definition mem (x : Z) (l : list Z) : bool := existsb (Z.eqb x) l.

(* preorder list of all nodes (nodes_of_class walks exactly this order) *)
Fixpoint flatten (n : node) : list node :=
  let 'Node _ _ _ ks := n in n :: flat_map flatten ks.

Definition arm_eqb (a b : arm) : bool :=
  match a, b with ABody, ABody | AOrelse, AOrelse | AFinal, AFinal => true | _, _ => false end.

(* the statement list of an arm of a compound node *)
Definition arm_of (a : arm) (n : node) : list node :=
  flat_map (fun c => match nkind c with KArm a' => if arm_eqb a a' then nkids c else [] | _ => [] end) (nkids n).

Definition is_scope n := match nkind n with KScope _ _ _ _ => true | _ => false end.
Definition is_module n := match nkind n with KScope m _ _ _ => m | _ => false end.
Definition is_def n := match nkind n with KScope _ d _ _ => d | _ => false end.
Definition is_if n := match nkind n with KIf _ _ => true | _ => false end.
Definition has_elif n := match nkind n with KIf el _ => el | _ => false end.
Definition is_special n := match nkind n with KIf _ sp => sp | _ => false end.
Definition is_loop n := match nkind n with KLoop => true | _ => false end.
Definition is_try n := match nkind n with KTry => true | _ => false end.
Definition is_match n := match nkind n with KMatch => true | _ => false end.
Definition is_handler n := match nkind n with KHandler => true | _ => false end.
Definition is_case n := match nkind n with KCase => true | _ => false end.
Definition first_line n := match nkind n with KScope _ _ f _ => f | _ => nstart n end.

Definition handlers n := filter is_handler (nkids n).
Definition cases n := filter is_case (nkids n).

(* AstInfo._in_body *)
Definition in_body (body : list node) (l : Z) : bool :=
  match body with
  | [] => false
  | b :: _ => (nstart b <=? l) && (l <=? nend (last body b))
  end.

(* any(x in no_cover for x in AstInfo._inter_lines(prev, after)) *)
Definition between_marked (no : list Z) (prev after : list node) : bool :=
  match prev, after with
  | p :: _, a :: _ => existsb (fun x => (nend (last prev p) + 1 <=? x) && (x <? nstart a)) no
  | _, _ => false
  end.
(* lineno in AstInfo._inter_lines(prev, after) *)
Definition in_between (l : Z) (prev after : list node) : bool :=
  match prev, after with
  | p :: _, a :: _ => (nend (last prev p) + 1 <=? l) && (l <? nstart a)
  | _, _ => false
  end.

Definition last_handler_body (n : node) : option (list node) :=
  match rev (handlers n) with h :: _ => Some (arm_of ABody h) | [] => None end.
(* _try_else_lines / _try_finally_lines: the arm that precedes else / finally *)
Definition try_else_prev n := match last_handler_body n with Some b => b | None => arm_of ABody n end.
Definition try_final_prev n :=
  match arm_of AOrelse n with
  | _ :: _ => arm_of AOrelse n
  | [] => try_else_prev n
  end.

Record info := { root : node; no_cover : list Z; only_cover : list Z }.

(* ---- ModuleAstInfo.from_path ---------------------------------------------------------------- *)
Fixpoint zrange (a : Z) (n : nat) : list Z := match n with O => [] | S k => a :: zrange (a + 1) k end.
Definition special_lines (t : node) : list Z :=
  flat_map (fun n => if is_special n then zrange (nstart n) (Z.to_nat (nend n + 1 - nstart n)) else []) (flatten t).

(* _get_scope_names (after fix E): qualified names as lists of name codes *)
Fixpoint scope_names (parent : list Z) (n : node) : list (list Z * Z) :=
  let 'Node k s _ ks := n in
  match k with
  | KScope ismod _ _ nm =>
      if ismod then flat_map (scope_names []) ks
      else (parent ++ [nm], s) :: flat_map (scope_names (parent ++ [nm])) ks
  | _ => flat_map (scope_names parent) ks
  end.
Definition qeqb (a b : list Z) : bool := if list_eq_dec Z.eq_dec a b then true else false.
(* dict(...) keeps the last binding of a key *)
Definition lookup_last (q : list Z) (d : list (list Z * Z)) : option Z :=
  match filter (fun p => qeqb q (fst p)) (rev d) with p :: _ => Some (snd p) | [] => None end.
Definition find_lines (t : node) (targets : list (list Z)) : list Z :=
  flat_map (fun q => match lookup_last q (scope_names [] t) with Some l => [l] | None => [] end) targets.

Definition from_path (t : node) (marked : list Z) (only no : list (list Z)) : info :=
  {| root := t; only_cover := find_lines t only;
     no_cover := find_lines t no ++ special_lines t ++ marked |}.
Definition conflict (mi : info) : bool := existsb (fun x => mem x (no_cover mi)) (only_cover mi).

(* ---- ModuleAstInfo.get_scope (after fix A) --------------------------------------------------- *)
Definition get_scope (mi : info) (lineno : Z) : option node :=
  find (fun n => is_scope n && (first_line n =? lineno)) (flatten (root mi)).

(* ---- AstInfo -------------------------------------------------------------------------------- *)
(* _in_only_cover_scope (fix C); `scope is not self.ast` is immaterial when only/no are disjoint *)
Definition in_only_scope (mi : info) (sc : node) : bool :=
  existsb (fun n => is_scope n && mem (nstart n) (only_cover mi) && (nstart n <=? nstart sc) && (nend sc <=? nend n))
          (flatten (root mi)).

Definition in_cover (mi : info) (sc : node) (l : Z) : bool :=
  (* written with [if] so that vm_compute (call by value) skips the tree walk when it can *)
  if mem l (no_cover mi) then false else
  if (match only_cover mi with [] => true | _ => false end
      || mem l (only_cover mi)
      || existsb (fun x => (nstart sc <=? x) && (x <=? nend sc) && negb (mem x (no_cover mi))) (only_cover mi))
  then true else in_only_scope mi sc.

Definition within (b : node) (l : Z) : bool := (nstart b <=? l) && (l <=? nend b).

(* one iteration of the loop of should_cover_line: does branch node [b] exclude line [l]? *)
Definition excl_by (no : list Z) (b : node) (l : Z) : bool :=
  if negb (within b l) then false else
  ( (is_match b && (mem (nstart b) no
                    || existsb (fun c => in_body (arm_of ABody c) l && mem (nstart c) no) (cases b)))
  || ((is_if b || is_loop b || is_try b) && in_body (arm_of ABody b) l && mem (nstart b) no)
  || (is_try b && (existsb (fun h => in_body (arm_of ABody h) l && mem (nstart h) no) (handlers b)
                   || (in_body (arm_of AOrelse b) l && between_marked no (try_else_prev b) (arm_of AOrelse b))
                   || (in_body (arm_of AFinal b) l && between_marked no (try_final_prev b) (arm_of AFinal b))))
  || ((is_if b || is_loop b) && negb (is_if b && has_elif b) && in_body (arm_of AOrelse b) l
      && between_marked no (arm_of ABody b) (arm_of AOrelse b)) ).

Definition should_cover_line (mi : info) (sc : node) (l : Z) : bool :=
  in_cover mi sc l && negb (existsb (fun b => excl_by (no_cover mi) b l) (flatten sc)).

(* should_cover_conditional_statement: the first If/For/While/match_case (preorder) that starts at
   the line, or whose else-label lines hold it, decides *)
Definition cond_node (b : node) (l : Z) : bool :=
  (is_if b || is_loop b || is_case b) &&
  ((nstart b =? l) || ((is_if b || is_loop b) && in_between l (arm_of ABody b) (arm_of AOrelse b))).
Definition else_lines_covered (mi : info) (sc b : node) : bool :=
  match arm_of ABody b, arm_of AOrelse b with
  | p :: _, a :: _ =>
      forallb (should_cover_line mi sc)
              (zrange (nend (last (arm_of ABody b) p) + 1) (Z.to_nat (nstart a - (nend (last (arm_of ABody b) p) + 1))))
  | _, _ => true
  end.
Definition should_cover_cond (mi : info) (sc : node) (l : Z) : bool :=
  match find (fun b => cond_node b l) (flatten sc) with
  | Some b => should_cover_line mi sc (nstart b)
              && (is_case b || (is_if b && has_elif b) || else_lines_covered mi sc b)
  | None => true
  end.

(* should_be_covered (after fix D) *)
Definition should_be_covered (mi : info) (sc : node) : bool :=
  in_cover mi sc (nstart sc)
  && forallb (fun d => implb (is_def d && (nstart d <=? nstart sc) && (nstart sc <=? nend d))
                             (in_cover mi sc (nstart d))) (flatten (root mi))
  && (is_module sc || should_cover_line mi (root mi) (nstart sc)).

(* ---- the instrumentation's use of AstInfo ----------------------------------------------------- *)
(* A code object as the transformer sees it: lookup line, parent (index into the list, parents come
   first) and basic blocks: lines of the original instructions (None: unpositioned), the line of the
   last instruction (None: block has none; Some None: unpositioned) and whether the branch adapter
   registers a predicate for the block when nothing is excluded. *)
Record block := { b_lines : list (option Z); b_ilines : list (option Z); b_last : option (option Z); b_pred : bool }.
Record cobj := { co_line : Z; co_parent : option nat; co_blocks : list block }.

Definition line_ok (mi : info) (sc : option node) (l : option Z) : bool :=
  match sc, l with Some s, Some x => should_cover_line mi s x | _, _ => true end.
Definition cond_ok (mi : info) (sc : option node) (b : block) : bool :=
  match sc, b_last b with Some s, Some (Some x) => should_cover_cond mi s x | _, _ => true end.

(* _instrument_code_recursive: a code object is instrumented iff its parent was and its scope (if
   one is found) should be covered *)
Fixpoint registered_upto (mi : info) (cos : list cobj) (done : list bool) : list bool :=
  match cos with
  | [] => done
  | c :: r =>
      let par := match co_parent c with None => true | Some p => nth p done false end in
      let me := par && match get_scope mi (co_line c) with Some s => should_be_covered mi s | None => true end in
      registered_upto mi r (done ++ [me])
  end.
Definition registered (mi : info) (cos : list cobj) : list bool := registered_upto mi cos [].

Definition co_line_goals (mi : info) (c : cobj) : list Z :=
  let sc := get_scope mi (co_line c) in
  flat_map (fun b => flat_map (fun l => match l with
                                       | Some x => if line_ok mi sc l then [x] else []
                                       | None => [] end) (b_ilines b)) (co_blocks c).
Definition co_pred_goals (mi : info) (c : cobj) : list bool :=
  let sc := get_scope mi (co_line c) in
  map (fun b => b_pred b && cond_ok mi sc b && existsb (line_ok mi sc) (b_lines b)) (co_blocks c).

Fixpoint select {A} (flags : list bool) (l : list A) : list A :=
  match flags, l with
  | true :: fr, x :: r => x :: select fr r
  | false :: fr, _ :: r => select fr r
  | _, _ => []
  end.

Definition line_goals (mi : info) (cos : list cobj) : list Z :=
  flat_map (co_line_goals mi) (select (registered mi cos) cos).
(* per code object: None = not instrumented, Some flags = predicate registered per block *)
Definition pred_goals (mi : info) (cos : list cobj) : list (option (list bool)) :=
  map (fun p : bool * cobj => if fst p then Some (co_pred_goals mi (snd p)) else None) (combine (registered mi cos) cos).

(* ---- correspondence cases ------------------------------------------------------------------------ *)
Definition Zsorted_dedup_eq (a b : list Z) : bool :=
  forallb (fun x => mem x b) a && forallb (fun x => mem x a) b.

Definition beqb (a b : bool) : bool := Bool.eqb a b.
Fixpoint list_beq {A} (eq : A -> A -> bool) (a b : list A) : bool :=
  match a, b with
  | [], [] => true
  | x :: r, y :: s => eq x y && list_beq eq r s
  | _, _ => false
  end.
Definition opt_beq {A} (eq : A -> A -> bool) (a b : option A) : bool :=
  match a, b with None, None => true | Some x, Some y => eq x y | _, _ => false end.

(* answers of the real AstInfo for one scope lookup line *)
Record scope_obs := { so_first : Z; so_found : bool; so_start : Z; so_covered : bool;
                      so_line : list bool; so_cond : list bool }.

Definition check_scope (mi : info) (nl : nat) (o : scope_obs) : bool :=
  match get_scope mi (so_first o) with
  | None => negb (so_found o)
  | Some sc =>
      so_found o && (nstart sc =? so_start o) && beqb (should_be_covered mi sc) (so_covered o)
      && list_beq beqb (map (should_cover_line mi sc) (zrange 0 nl)) (so_line o)
      && list_beq beqb (map (should_cover_cond mi sc) (zrange 0 nl)) (so_cond o)
  end.

(* ranges nest (premise of the nesting theorems), checked on every extracted tree *)
Definition low n := match nkind n with KScope _ _ f _ => Z.min f (nstart n) | _ => nstart n end.
Fixpoint wfb (lo hi : Z) (n : node) : bool :=
  let 'Node k s e ks := n in
  if s <=? e then (lo <=? low n) && (e <=? hi) && forallb (wfb (low n) e) ks
  else forallb (wfb lo hi) ks.

Record case := {
  c_tree : node; c_marked : list Z; c_only : list (list Z); c_no : list (list Z);
  c_nlines : nat;
  c_conflict : bool;               (* the implementation raised the only/no conflict error *)
  c_no_lines : list Z; c_only_lines : list Z;      (* ModuleAstInfo.no_cover_lines / only_cover_lines *)
  c_scopes : list scope_obs;
  c_cos : list cobj;
  c_registered : list bool;        (* observed: code object instrumented *)
  c_lines : list Z;                (* observed: registered line goals *)
  c_preds : list (option (list bool))
}.

Definition check_case (c : case) : bool :=
  let mi := from_path (c_tree c) (c_marked c) (c_only c) (c_no c) in
  wfb 0 (Z.of_nat (c_nlines c)) (c_tree c) &&
  if conflict mi then c_conflict c
  else negb (c_conflict c)
       && Zsorted_dedup_eq (no_cover mi) (c_no_lines c) && Zsorted_dedup_eq (only_cover mi) (c_only_lines c)
       && forallb (check_scope mi (c_nlines c)) (c_scopes c)
       && list_beq beqb (registered mi (c_cos c)) (c_registered c)
       && Zsorted_dedup_eq (line_goals mi (c_cos c)) (c_lines c)
       && list_beq (opt_beq (list_beq beqb)) (pred_goals mi (c_cos c)) (c_preds c).

End C08.
