(* C17 — the search loop shared by all generation algorithms and the three budget stopping
   conditions (pynguin.ga.stoppingcondition, GenerationAlgorithm.resources_left and the
   generate_tests loops of DYNAMOSA, MOSA, MIO, WHOLE_SUITE, RANDOM, RANDOM_TEST_SUITE_SEARCH,
   RANDOM_TEST_CASE_SEARCH).  Definitions only; proofs in Proofs/C17.v.

   Every generate_tests has the shape
       before_search_start()
       [initial population (test executions); before_first_search_iteration(..)]      (not MIO)
       while resources_left() and <goal condition>:
           <one iteration: test executions>; after_search_iteration(..)
       after_search_finish()
   A run is observed as a list of events; the acceptor below replays the loop and the stopping
   conditions on it.  The goal condition and the contents of an iteration are arbitrary. *)
From Coq Require Import List ZArith Bool.
Import ListNotations.
Open Scope Z_scope.

Module C17.

(* ---- a counting stopping condition: MaxIterations / MaxTestExecutions / MaxStatementExecutions *)
Record cond := { cnt : Z; lim : Z }.
Definition set_cnt (c : cond) (v : Z) : cond := {| cnt := v; lim := lim c |}.
Definition cond_fulfilled (c : cond) : bool := cnt c >=? lim c.          (* is_fulfilled *)
Definition cond_reset (c : cond) : cond := set_cnt c 0.                   (* before_search_start *)
Definition cond_incr (c : cond) : cond := set_cnt c (cnt c + 1).          (* += 1 *)
Definition cond_add (k : Z) (c : cond) : cond := set_cnt c (cnt c + k).   (* += num_executed_statements *)

(* configured conditions: None = not configured (budget < 0 in the configuration) *)
Record conds := { c_iter : option cond; c_test : option cond; c_stmt : option cond }.

Definition omap (f : cond -> cond) (o : option cond) : option cond :=
  match o with Some c => Some (f c) | None => None end.
Definition oful (o : option cond) : bool :=
  match o with Some c => cond_fulfilled c | None => false end.

(* GenerationAlgorithm.resources_left: all(not sc.is_fulfilled() for sc in stopping_conditions) *)
Definition resources_left (s : conds) : bool :=
  forallb (fun o => negb (oful o)) [c_iter s; c_test s; c_stmt s].

(* observer hooks, applied to every configured condition *)
Definition on_search_start (s : conds) : conds :=
  {| c_iter := omap cond_reset (c_iter s); c_test := omap cond_reset (c_test s);
     c_stmt := omap cond_reset (c_stmt s) |}.
Definition on_iter_end (s : conds) : conds :=             (* after_search_iteration *)
  {| c_iter := omap cond_incr (c_iter s); c_test := c_test s; c_stmt := c_stmt s |}.
Definition on_exec (s : conds) : conds :=                 (* before_remote_test_case_execution *)
  {| c_iter := c_iter s; c_test := omap cond_incr (c_test s); c_stmt := c_stmt s |}.
Definition on_exec_end (k : Z) (s : conds) : conds :=     (* after_remote_test_case_execution *)
  {| c_iter := c_iter s; c_test := c_test s; c_stmt := omap (cond_add k) (c_stmt s) |}.

(* ---- events of a run ---- *)
Inductive event :=
  | SearchStart                 (* before_search_start *)
  | Exec                        (* a test-case execution begins *)
  | ExecEnd (k : Z)             (* ... and ends after k executed statements *)
  | FirstIter                   (* before_first_search_iteration *)
  | IterStart                   (* the loop body is entered (evolve() / generate_sequence() is called) *)
  | IterEnd                     (* after_search_iteration *)
  | SearchEnd.                  (* after_search_finish *)

Inductive phase :=
  | PInit                       (* before the search *)
  | PPop                        (* producing the initial population *)
  | PHead                       (* at the loop head: an iteration boundary *)
  | PIter                       (* inside an iteration *)
  | PDone.                      (* after the search (post-processing may still execute tests) *)

Record state := { ph : phase; cs : conds }.

(* [hf]: the algorithm has an initial population + before_first_search_iteration (all but MIO) *)
Definition step (hf : bool) (st : state) (e : event) : option state :=
  let s := cs st in
  match ph st, e with
  | PInit, SearchStart => Some {| ph := if hf then PPop else PHead; cs := on_search_start s |}
  | PPop, Exec => Some {| ph := PPop; cs := on_exec s |}
  | PPop, ExecEnd k => Some {| ph := PPop; cs := on_exec_end k s |}
  | PPop, FirstIter => Some {| ph := PHead; cs := s |}
  (* loop head: leaving is always possible (goal condition); entering needs resources_left *)
  | PHead, SearchEnd => Some {| ph := PDone; cs := s |}
  | PHead, Exec => if resources_left s then Some {| ph := PIter; cs := on_exec s |} else None
  | PHead, ExecEnd k => if resources_left s then Some {| ph := PIter; cs := on_exec_end k s |} else None
  | PHead, IterEnd => if resources_left s then Some {| ph := PHead; cs := on_iter_end s |} else None
  (* entering the loop body; a second pass without after_search_iteration in between is no run of the loop *)
  | PHead, IterStart => if resources_left s then Some {| ph := PIter; cs := s |} else None
  | PIter, Exec => Some {| ph := PIter; cs := on_exec s |}
  | PIter, ExecEnd k => Some {| ph := PIter; cs := on_exec_end k s |}
  | PIter, IterEnd => Some {| ph := PHead; cs := on_iter_end s |}
  | PDone, Exec => Some {| ph := PDone; cs := on_exec s |}
  | PDone, ExecEnd k => Some {| ph := PDone; cs := on_exec_end k s |}
  | _, _ => None
  end.

Fixpoint run (hf : bool) (st : state) (tr : list event) : option state :=
  match tr with
  | [] => Some st
  | e :: r => match step hf st e with Some st' => run hf st' r | None => None end
  end.

Definition init (s : conds) : state := {| ph := PInit; cs := s |}.
Definition accepts (hf : bool) (s : conds) (tr : list event) : bool :=
  match run hf (init s) tr with Some _ => true | None => false end.

(* ---- counting on traces (independent of the state machine) ---- *)
Fixpoint n_iter (tr : list event) : Z :=
  match tr with [] => 0 | IterEnd :: r => 1 + n_iter r | _ :: r => n_iter r end.
Fixpoint n_start (tr : list event) : Z :=
  match tr with [] => 0 | IterStart :: r => 1 + n_start r | _ :: r => n_start r end.
Fixpoint n_exec (tr : list event) : Z :=
  match tr with [] => 0 | Exec :: r => 1 + n_exec r | _ :: r => n_exec r end.
Fixpoint n_stmt (tr : list event) : Z :=
  match tr with [] => 0 | ExecEnd k :: r => k + n_stmt r | _ :: r => n_stmt r end.

(* ---- correspondence cases ---- *)
(* a real run: configured limits (with arbitrary initial counters), the events with the counters
   the real stopping conditions reported right after each event *)
Definition obs := (option Z * option Z * option Z)%type.

Definition oeqb (a b : option Z) : bool :=
  match a, b with Some x, Some y => x =? y | None, None => true | _, _ => false end.
Definition ocnt (o : option cond) : option Z := match o with Some c => Some (cnt c) | None => None end.
Definition obs_ok (s : conds) (o : obs) : bool :=
  let '(i, t, m) := o in oeqb (ocnt (c_iter s)) i && oeqb (ocnt (c_test s)) t && oeqb (ocnt (c_stmt s)) m.

(* index of the first event that the loop model rejects or whose counters differ *)
Fixpoint replay (hf : bool) (st : state) (tr : list (event * obs)) (i : nat) : option nat :=
  match tr with
  | [] => None
  | (e, o) :: r =>
      match step hf st e with
      | Some st' => if obs_ok (cs st') o then replay hf st' r (S i) else Some i
      | None => Some i
      end
  end.

Inductive cop := OStart | OIter | OExec | OExecEnd (k : Z) | OSetLimit (l : Z) | OReset.
Inductive ckind := KIter | KTest | KStmt.

Definition cond_op (k : ckind) (c : cond) (o : cop) : cond :=
  match o, k with
  | OStart, _ => cond_reset c
  | OReset, _ => cond_reset c
  | OSetLimit l, _ => {| cnt := cnt c; lim := l |}
  | OIter, KIter => cond_incr c
  | OExec, KTest => cond_incr c
  | OExecEnd n, KStmt => cond_add n c
  | _, _ => c
  end.

Fixpoint cond_trace (k : ckind) (c : cond) (ops : list cop) : list (Z * bool) :=
  match ops with
  | [] => []
  | o :: r => let c' := cond_op k c o in (cnt c', cond_fulfilled c') :: cond_trace k c' r
  end.

Fixpoint zb_list_eqb (a b : list (Z * bool)) : bool :=
  match a, b with
  | [], [] => true
  | (x, p) :: r, (y, q) :: s => (x =? y) && Bool.eqb p q && zb_list_eqb r s
  | _, _ => false
  end.

Inductive case :=
  | CRun (hf : bool) (s : conds) (tr : list (event * obs))
  | CCond (k : ckind) (limit : Z) (ops : list cop) (observed : list (Z * bool)).

Definition check_case (c : case) : bool :=
  match c with
  | CRun hf s tr => match replay hf (init s) tr 0 with None => true | Some _ => false end
  | CCond k l ops o => zb_list_eqb (cond_trace k {| cnt := 0; lim := l |} ops) o
  end.

End C17.
