(* C03 — reported branch outcomes equal the branches actually taken.
   Model: instrumented CFG of one code object (3.12 BranchCoverageInstrumentation) and all its runs.
   Definitions only. *)
From Coq Require Import List ZArith Bool Lia.
Import ListNotations.

Module C03.

(* conditional jumps of CPython 3.12 *)
Inductive jump := JT | JF | JN | JNN.     (* POP_JUMP_IF_TRUE / _FALSE / _NONE / _NOT_NONE *)
(* what the predicate probe records as "true": truth of the value the jump tests (bool, compare and
   exception-match predicates), "is None" (PynguinCompare.IS), "is not None" (IS_NOT) *)
Inductive probe := PTruth | PIsNone | PIsNotNone.

(* the two facts about the tested value that decide jump and probe *)
Record tos := { truthy : bool; isnone : bool }.

Definition taken (j : jump) (v : tos) : bool :=
  match j with JT => truthy v | JF => negb (truthy v) | JN => isnone v | JNN => negb (isnone v) end.
Definition recorded (p : probe) (v : tos) : bool :=
  match p with PTruth => truthy v | PIsNone => isnone v | PIsNotNone => negb (isnone v) end.

(* CFG._create_nodes_and_edges: the jump target carries branch_value [lbl] (= get_branch_type of the
   opcode), the fall-through edge carries its negation *)
Definition edge_label (lbl : bool) (j : jump) (v : tos) : bool := if taken j v then lbl else negb lbl.

(* a None value is falsy; every other combination of the two facts is possible *)
Definition possible (v : tos) : bool := negb (isnone v && truthy v).
Definition all_tos : list tos :=
  [ {| truthy := true; isnone := false |}; {| truthy := false; isnone := false |};
    {| truthy := false; isnone := true |} ].

(* probe kinds that may be combined with a jump (none-based jumps test identity, the others truth) *)
Definition probe_fits (j : jump) (p : probe) : bool :=
  match j, p with
  | JT, PTruth | JF, PTruth | JN, PIsNone | JN, PIsNotNone | JNN, PIsNone | JNN, PIsNotNone => true
  | _, _ => false end.

Definition cond_ok (lbl : bool) (j : jump) (p : probe) : bool :=
  probe_fits j p && forallb (fun v => Bool.eqb (edge_label lbl j v) (recorded p v)) all_tos.

Inductive term :=
| TCond (pid : nat) (j : jump) (lbl : bool) (p : probe) (tgt nxt : nat)
| TFor (pid : nat) (body exit : nat)        (* FOR_ITER: fall-through = body (True), target = exit (False) *)
| TOther (succs : list nat).

Record block := {
  eprobes : list (nat * bool);   (* probes at the very start of the block (for-body / for-exit) *)
  bterm : term;
  handler : bool }.              (* target of a TryBegin: may be entered from anywhere by an exception *)

Definition cfg := list block.    (* index = node index; block 0 is the entry *)

(* how a block visit ends *)
Inductive how :=
| Leave (v : tos)       (* the predicate probe ran, then the conditional jump on value v *)
| Iter (more : bool)    (* FOR_ITER produced a value / was exhausted *)
| Go (n : nat)          (* unconditional continuation to successor n *)
| Exc (h : nat)         (* an exception left the block before its predicate probe; handler h *)
| Stop.                 (* return / exception leaving the code object *)

Definition stepT := (nat * how)%type.

Definition nth_block (g : cfg) (b : nat) : option block := nth_error g b.

Definition is_handler (g : cfg) (h : nat) : bool :=
  match nth_block g h with Some blk => handler blk | None => false end.

(* next block and, if the move is a for-loop edge, which *)
Definition next (g : cfg) (s : stepT) : option (nat * option (nat * bool)) :=
  let '(b, h) := s in
  match nth_block g b with
  | None => None
  | Some blk =>
      match h with
      | Exc t => if is_handler g t then Some (t, None) else None
      | Stop => None
      | Leave v => match bterm blk with
                   | TCond _ j _ _ tgt nxt => Some (if taken j v then tgt else nxt, None)
                   | _ => None end
      | Iter more => match bterm blk with
                     | TFor pid body exit => Some (if more then body else exit, Some (pid, more))
                     | _ => None end
      | Go n => match bterm blk with
                | TOther succs => if existsb (Nat.eqb n) succs then Some (n, None) else None
                | _ => None end
      end
  end.

Definition how_ok (h : how) : bool := match h with Leave v => possible v | _ => true end.

(* a run: block visits that follow the CFG; only the last visit may end with Stop *)
Fixpoint valid (g : cfg) (cur : nat) (run : list stepT) : bool :=
  match run with
  | [] => true
  | (b, h) :: r =>
      Nat.eqb b cur && how_ok h &&
      match h, r with
      | Stop, [] => match nth_block g b with Some _ => true | None => false end
      | Stop, _ => false
      | _, _ => match next g (b, h) with
                | Some (c, _) => valid g c r
                | None => false end
      end
  end.

(* what the tracer records during one block visit *)
Definition pred_event (g : cfg) (s : stepT) : list (nat * bool) :=
  let '(b, h) := s in
  match nth_block g b, h with
  | Some blk, Leave v => match bterm blk with
                         | TCond pid _ _ p _ _ => [(pid, recorded p v)]
                         | _ => [] end
  | _, _ => [] end.

Definition entry_events (g : cfg) (b : nat) : list (nat * bool) :=
  match nth_block g b with Some blk => eprobes blk | None => [] end.

Fixpoint recorded_run (g : cfg) (run : list stepT) : list (nat * bool) :=
  match run with
  | [] => []
  | s :: r => entry_events g (fst s) ++ pred_event g s ++ recorded_run g r end.

(* what the interpreter did: the labelled CFG edge taken by each visit *)
Definition cond_edge (g : cfg) (s : stepT) : list (nat * bool) :=
  let '(b, h) := s in
  match nth_block g b, h with
  | Some blk, Leave v => match bterm blk with
                         | TCond pid j lbl _ _ _ => [(pid, edge_label lbl j v)]
                         | _ => [] end
  | _, _ => [] end.

Definition opt_list {A} (o : option A) : list A := match o with Some x => [x] | None => [] end.

(* [inc] = the for-loop edge along which the first block of [run] was entered (the edge FOR_ITER ->
   body is labelled True, FOR_ITER -> exit False); it is counted when the target is entered *)
Fixpoint truth_run (g : cfg) (inc : option (nat * bool)) (run : list stepT) : list (nat * bool) :=
  match run with
  | [] => []
  | s :: r => opt_list inc ++ cond_edge g s ++
              truth_run g (match next g s with Some (_, i) => i | None => None end) r end.

(* ---- decidable well-formedness of an extracted CFG ------------------------------------------- *)
Definition eprobes_of (g : cfg) (c : nat) : list (nat * bool) := entry_events g c.

Definition pair_list_eqb (a b : list (nat * bool)) : bool :=
  Nat.eqb (length a) (length b) &&
  forallb (fun p => Nat.eqb (fst (fst p)) (fst (snd p)) && Bool.eqb (snd (fst p)) (snd (snd p))) (combine a b).

(* blocks that can be entered otherwise than along a for-loop edge *)
Definition plain_targets (g : cfg) : list nat :=
  0 :: flat_map (fun blk => match bterm blk with
                            | TCond _ _ _ _ tgt nxt => [tgt; nxt]
                            | TFor _ _ _ => []
                            | TOther succs => succs end) g
    ++ map fst (filter (fun p => handler (snd p)) (combine (seq 0 (length g)) g)).

Definition block_ok (g : cfg) (blk : block) : bool :=
  match bterm blk with
  | TCond _ j lbl p tgt nxt => cond_ok lbl j p && Nat.ltb tgt (length g) && Nat.ltb nxt (length g)
  | TFor pid body exit =>
      pair_list_eqb (eprobes_of g body) [(pid, true)] && pair_list_eqb (eprobes_of g exit) [(pid, false)] &&
      Nat.ltb body (length g) && Nat.ltb exit (length g)
  | TOther succs => forallb (fun n => Nat.ltb n (length g)) succs
  end.

Definition check_cfg (g : cfg) : bool :=
  forallb (block_ok g) g &&
  forallb (fun c => match eprobes_of g c with [] => true | _ => false end) (plain_targets g).

(* K: an extracted CFG together with runs reconstructed from sys.monitoring is not needed here: the
   checker only validates the premises of the theorem on every real instrumented CFG. *)
Definition case := cfg.
Definition check_case (c : case) : bool := check_cfg c.

(* the label table before the repair: POP_JUMP_IF_NONE labelled like "jump if false" *)
Definition old_none_block : term := TCond 0 JN false PIsNone 1 2.

End C03.
