(* append_test_case_from / crossover (splice_test_case_chromosomes) on the test-case IR preserve
   well-formedness; the part of the receiver that existed before is untouched and at most the tail
   of the donor is appended. *)
From Coq Require Import List NArith ZArith Bool Lia.
From Verif Require Import Base.TestCaseIR Base.TestCaseIRFacts.
Import ListNotations. Import IR.

(* ------------------------------------------------------------------------------------------ *)
(* association lists *)
Lemma lookup_nil {B} x : @lookup B [] x = None.
Proof. reflexivity. Qed.

Lemma lookup_cons {B} a (b : B) m x :
  lookup ((a, b) :: m) x = if N.eqb a x then Some b else lookup m x.
Proof. unfold lookup. simpl. destruct (N.eqb a x); reflexivity. Qed.

Lemma lookup_cons_mono {B} a (b : B) m x : lookup m x <> None -> lookup ((a, b) :: m) x <> None.
Proof. rewrite lookup_cons. destruct (N.eqb a x); [discriminate|auto]. Qed.

Lemma head_types_acc l : forall acc x,
  lookup (fold_left (fun acc s => match bound s with Some v => (v, sty s) :: acc | None => acc end)
                    l acc) x <> None
  <-> In x (bvars l) \/ lookup acc x <> None.
Proof.
  induction l as [|s r IH]; intros acc x; cbn [fold_left].
  - simpl. tauto.
  - rewrite IH, bvars_cons, in_app_iff, bv_In. destruct (bound s) as [b|] eqn:Eb.
    + rewrite lookup_cons. destruct (N.eqb b x) eqn:E.
      * apply N.eqb_eq in E. subst. split; intros _; [left; left; reflexivity|right; discriminate].
      * apply N.eqb_neq in E. split; [intros [H|H]; auto|intros [[H|H]|H]; auto]. congruence.
    + split; [intros [H|H]; auto|intros [[H|H]|H]; auto]. discriminate.
Qed.

(* the head dict has an entry exactly for the variables bound in the head *)
Lemma head_types_spec l x : lookup (head_types l) x <> None <-> In x (bvars l).
Proof.
  unfold head_types. rewrite head_types_acc, lookup_nil. split; [intros [H|H]; congruence|auto].
Qed.

(* ------------------------------------------------------------------------------------------ *)
(* randomness.choice returns one of the candidates *)
Lemma pick_In cands o : cands <> [] -> In (fst (pick cands o)) cands.
Proof.
  intro H. unfold pick. destruct o as [|c o']; simpl.
  - destruct cands; [congruence|left; reflexivity].
  - destruct (mem c cands) eqn:E; [apply mem_In; exact E|].
    destruct cands; [congruence|left; reflexivity].
Qed.

(* _resolve_head_references: rename targets come from the registry, the domain of the rename map
   only grows, and on success every read that is dropped / renamed / a head variable is renamed *)
Lemma resolve_spec (P : var -> Prop) r h dropped :
  (forall t v, In v (reg_get r t) -> P v) ->
  forall us rn o ok rn1 o1,
  resolve r h dropped us rn o = (ok, rn1, o1) ->
  (forall x y, lookup rn x = Some y -> P y) ->
  (forall x y, lookup rn1 x = Some y -> P y) /\
  (forall x, lookup rn x <> None -> lookup rn1 x <> None) /\
  (ok = true -> forall u, In u us ->
     (In u dropped \/ lookup rn u <> None \/ lookup h u <> None) -> lookup rn1 u <> None).
Proof.
  intros Hr. induction us as [|u us IH]; intros rn o ok rn1 o1 H HP; cbn [resolve] in H.
  - inversion H; subst. repeat split; auto; intros _ u [].
  - destruct (mem u dropped) eqn:Ed.
    + inversion H; subst. repeat split; auto. discriminate.
    + apply mem_false in Ed. destruct (lookup rn u) as [y|] eqn:El.
      * destruct (IH _ _ _ _ _ H HP) as [A [B C]]. repeat split; auto.
        intros Hok u' [->|Hu] Hd; [apply B; congruence|auto].
      * destruct (lookup h u) as [hty|] eqn:Eh.
        -- destruct (match hty with Some t => reg_get r t | None => [] end) as [|c0 cs] eqn:Ec.
           { inversion H; subst. repeat split; auto. discriminate. }
           destruct (pick (c0 :: cs) o) as [c o'] eqn:Ep.
           assert (Hc : P c).
           { assert (Hi : In c (c0 :: cs)).
             { change c with (fst (c, o')). rewrite <- Ep. apply pick_In. discriminate. }
             rewrite <- Ec in Hi. destruct hty as [t|]; [eapply Hr; eauto|destruct Hi]. }
           assert (HP' : forall x y, lookup ((u, c) :: rn) x = Some y -> P y).
           { intros x y. rewrite lookup_cons. destruct (N.eqb u x); [|apply HP].
             intro E. inversion E; subst. exact Hc. }
           destruct (IH _ _ _ _ _ H HP') as [A [B C]]. split; [exact A|]. split.
           { intros x Hx. apply B. apply lookup_cons_mono. exact Hx. }
           intros Hok u' [->|Hu] Hd.
           { apply B. rewrite lookup_cons, N.eqb_refl. discriminate. }
           apply C; auto. destruct Hd as [Hd|[Hd|Hd]]; auto.
           right. left. apply lookup_cons_mono. exact Hd.
        -- destruct (IH _ _ _ _ _ H HP) as [A [B C]]. repeat split; auto.
           intros Hok u' [->|Hu] Hd; [|auto]. destruct Hd as [Hd|[Hd|Hd]]; [destruct (Ed Hd)|congruence|congruence].
Qed.

(* ------------------------------------------------------------------------------------------ *)
(* the loop.  Eo: variables of [other] in scope at the current tail statement *)
Lemma rename_use_lookup rn u y : lookup rn u = Some y -> rename_use rn u = y.
Proof. unfold rename_use. intros ->. reflexivity. Qed.

Lemma append_loop_WF : forall tail self h rn dropped o Eo,
  WF self ->
  scoped Eo tail ->
  (forall x, In x Eo -> In x dropped \/ lookup rn x <> None \/ lookup h x <> None) ->
  (forall x y, lookup rn x = Some y -> In y (bvars (stmts self))) ->
  NoDup (bvars tail) ->
  (forall x, In x Eo -> ~ In x (bvars tail)) ->
  WF (append_loop self h tail rn dropped o).
Proof.
  induction tail as [|s r IH]; intros self h rn dropped o Eo HW Hsc H3 H4 Hnd Hdis;
    cbn [append_loop]; [exact HW|].
  destruct (resolve (reg self) h dropped (uses s) rn o) as [[ok rn1] o1] eqn:Er.
  cbn [scoped] in Hsc. destruct Hsc as [Hus Hsc].
  rewrite bvars_cons in Hnd, Hdis.
  assert (Hreg : forall t v, In v (reg_get (reg self) t) -> In v (bvars (stmts self))).
  { intros t v Hv. rewrite (wf_reg _ HW) in Hv. eapply reg_get_bvars; eauto. }
  destruct (resolve_spec (fun y => In y (bvars (stmts self))) _ _ _ Hreg _ _ _ _ _ _ Er H4)
    as [A [B C]].
  assert (Hnd' : NoDup (bvars r)) by (eapply NoDup_app_r; eauto).
  assert (Hdis' : forall x, In x (bv s ++ Eo) -> ~ In x (bvars r)).
  { intros x Hx Hr. apply in_app_or in Hx. destruct Hx as [Hx|Hx].
    - eapply NoDup_app_disj; eauto.
    - apply (Hdis x Hx). apply in_or_app. auto. }
  destruct ok.
  - (* all reads resolved *)
    assert (Hres : forall u, In u (uses s) -> exists y, lookup rn1 u = Some y /\ In y (bvars (stmts self))).
    { intros u Hu. assert (Hn : lookup rn1 u <> None) by (apply C; auto).
      destruct (lookup rn1 u) as [y|] eqn:El; [|congruence]. exists y. split; [reflexivity|eauto]. }
    destruct (bound s) as [b|] eqn:Eb.
    + destruct (next_var_name self) as [fresh self1] eqn:En.
      assert (Ef : fresh = fst (next_var_name self)) by (rewrite En; reflexivity).
      assert (Es : self1 = snd (next_var_name self)) by (rewrite En; reflexivity).
      assert (Hst : stmts self1 = stmts self) by (subst self1; reflexivity).
      assert (HW1 : WF self1) by (subst self1; apply next_var_WF; exact HW).
      assert (Hb : In b (bv s)) by (apply bv_In; exact Eb).
      assert (Hne : forall u, In u (uses s) -> N.eqb b u = false).
      { intros u Hu. apply N.eqb_neq. intros <-. apply (Hdis b); [auto|]. apply in_or_app. auto. }
      apply IH with (Eo := bv s ++ Eo); auto.
      * apply add_WF; [exact HW1|]. split.
        -- intros u Hu. cbn [renamed uses] in Hu. apply in_map_iff in Hu.
           destruct Hu as [u0 [<- Hu0]]. unfold size. rewrite firstn_all, Hst.
           destruct (Hres _ Hu0) as [y [Hy1 Hy2]].
           rewrite (rename_use_lookup _ _ y); [exact Hy2|].
           rewrite lookup_cons, (Hne _ Hu0). exact Hy1.
        -- intros v Hv. cbn [renamed bound] in Hv. inversion Hv; subst v. split.
           ++ rewrite Hst, Ef. apply next_var_fresh. exact HW.
           ++ rewrite Ef, Es. simpl. lia.
      * intros x Hx. apply in_app_or in Hx. destruct Hx as [Hx|Hx].
        -- right. left. apply bv_In in Hx. rewrite Eb in Hx. inversion Hx; subst x.
           rewrite lookup_cons, N.eqb_refl. discriminate.
        -- destruct (H3 _ Hx) as [Hd|[Hd|Hd]]; auto.
           right. left. apply lookup_cons_mono. auto.
      * intros x y. rewrite lookup_cons. cbn [add_statement stmts]. rewrite bvars_app, Hst.
        destruct (N.eqb b x).
        -- intro E. inversion E; subst y. apply in_or_app. right.
           rewrite bvars_cons. cbn [renamed bv bound]. left. reflexivity.
        -- intro E. apply in_or_app. left. eauto.
    + apply IH with (Eo := bv s ++ Eo); auto.
      * apply add_WF; [exact HW|]. split.
        -- intros u Hu. cbn [renamed uses] in Hu. apply in_map_iff in Hu.
           destruct Hu as [u0 [<- Hu0]]. unfold size. rewrite firstn_all.
           destruct (Hres _ Hu0) as [y [Hy1 Hy2]].
           rewrite (rename_use_lookup _ _ y); auto.
        -- intros v Hv. cbn [renamed bound] in Hv. discriminate.
      * intros x Hx. apply in_app_or in Hx. destruct Hx as [Hx|Hx].
        -- apply bv_In in Hx. congruence.
        -- destruct (H3 _ Hx) as [Hd|[Hd|Hd]]; auto.
      * intros x y E. cbn [add_statement stmts]. rewrite bvars_app. apply in_or_app. left. eauto.
  - (* dropped *)
    apply IH with (Eo := bv s ++ Eo); auto.
    intros x Hx. apply in_app_or in Hx. destruct Hx as [Hx|Hx].
    + left. apply in_or_app. auto.
    + destruct (H3 _ Hx) as [Hd|[Hd|Hd]]; auto. left. apply in_or_app. auto.
Qed.

Theorem append_from_WF : forall self other start o,
  WF self -> WF other -> WF (append_test_case_from self other start o).
Proof.
  intros self other start o HW HO. unfold append_test_case_from.
  destruct HO as [O1 O2 _ _].
  rewrite <- (firstn_skipn start (stmts other)) in O1. apply scoped_app in O1.
  destruct O1 as [_ O1]. rewrite app_nil_r in O1.
  rewrite (bvars_firstn_skipn (stmts other) start) in O2.
  apply append_loop_WF with (Eo := bvars (firstn start (stmts other))); auto.
  - intros x Hx. right. right. apply head_types_spec. exact Hx.
  - intros x y E. rewrite lookup_nil in E. discriminate.
  - eapply NoDup_app_r; eauto.
  - intros x Hx Hy. eapply NoDup_app_disj; eauto.
Qed.

(* ------------------------------------------------------------------------------------------ *)
(* shape of the result: old statements, then at most one statement per tail statement *)
Lemma append_loop_shape : forall tail self h rn dropped o,
  exists l, stmts (append_loop self h tail rn dropped o) = stmts self ++ l /\
            length l <= length tail.
Proof.
  induction tail as [|s r IH]; intros self h rn dropped o; cbn [append_loop].
  - exists []. rewrite app_nil_r. split; [reflexivity|simpl; lia].
  - destruct (resolve (reg self) h dropped (uses s) rn o) as [[ok rn1] o1].
    destruct ok.
    + destruct (bound s) as [b|].
      * unfold next_var_name.
        match goal with |- context [append_loop ?t h r ?m dropped o1] =>
          destruct (IH t h m dropped o1) as [l [E Hl]] end.
        cbn [add_statement stmts] in E. rewrite <- app_assoc in E.
        eexists. split; [exact E|]. simpl. lia.
      * match goal with |- context [append_loop ?t h r ?m dropped o1] =>
          destruct (IH t h m dropped o1) as [l [E Hl]] end.
        cbn [add_statement stmts] in E. rewrite <- app_assoc in E.
        eexists. split; [exact E|]. simpl. lia.
    + destruct (IH self h rn1 (bv s ++ dropped) o1) as [l [E Hl]].
      exists l. split; [exact E|]. simpl. lia.
Qed.

(* the part of self that existed before is untouched: appended statements come after *)
Theorem append_from_prefix : forall self other start o,
  firstn (size self) (stmts (append_test_case_from self other start o)) = stmts self.
Proof.
  intros self other start o. unfold append_test_case_from, size.
  destruct (append_loop_shape (skipn start (stmts other)) self
              (head_types (firstn start (stmts other))) [] [] o) as [l [E _]].
  rewrite E. rewrite firstn_app, firstn_all, Nat.sub_diag. simpl. apply app_nil_r.
Qed.

(* never appends more statements than the tail of other has *)
Theorem append_from_size : forall self other start o,
  size (append_test_case_from self other start o) <= size self + (size other - start).
Proof.
  intros self other start o. unfold append_test_case_from, size.
  destruct (append_loop_shape (skipn start (stmts other)) self
              (head_types (firstn start (stmts other))) [] [] o) as [l [E Hl]].
  rewrite E, app_length. rewrite skipn_length in Hl. lia.
Qed.

(* ------------------------------------------------------------------------------------------ *)
(* splice_test_case_chromosomes *)
Theorem crossover_WF : forall maxlen parent other p1 p2 o,
  WF parent -> WF other -> WF (crossover maxlen parent other p1 p2 o).
Proof.
  intros maxlen parent other p1 p2 o HP HO. unfold crossover.
  match goal with |- WF (if ?c then _ else _) => destruct c end; [|exact HP].
  apply append_from_WF; [|exact HO].
  destruct (p1 <? size (clone parent)).
  - apply WF_firstn. apply clone_WF. exact HP.
  - apply clone_WF. exact HP.
Qed.

Theorem crossover_length : forall maxlen parent other p1 p2 o,
  size (crossover maxlen parent other p1 p2 o) < maxlen \/
  crossover maxlen parent other p1 p2 o = parent.
Proof.
  intros maxlen parent other p1 p2 o. unfold crossover.
  destruct (size (append_test_case_from _ other p2 o) <? maxlen) eqn:E.
  - left. apply Nat.ltb_lt. exact E.
  - right. reflexivity.
Qed.

(* ------------------------------------------------------------------------------------------ *)
(* non-vacuity: a concrete run.  self binds 5 (type 7) and 6 (type 8, reads 5).  other binds 0
   (type 7), 1 (type 9, reads 0) and 2 (type 10, reads 0 and 1).  Appending other from position 1:
   the head variable 0 has type 7, whose only candidate in self is 5; the two tail statements are
   appended under the fresh names 7 and 8 with their reads renamed (0 -> 5, 1 -> 7). *)
Local Open Scope N_scope.

Definition ex_stmt (b : var) (us : list var) (t : ty) : stmt :=
  {| bound := Some b; uses := us; sty := Some t; asserts := []; conv := true; node := t |}.

Definition ex_self : tc := mk [ex_stmt 5 [] 7; ex_stmt 6 [5] 8] 7.
Definition ex_other : tc := mk [ex_stmt 0 [] 7; ex_stmt 1 [0] 9; ex_stmt 2 [0; 1] 10] 3.
Definition ex_result : tc :=
  mk [ex_stmt 5 [] 7; ex_stmt 6 [5] 8; ex_stmt 7 [5] 9; ex_stmt 8 [5; 7] 10] 9.

Example ex_self_WF : WF ex_self.
Proof. apply wfb_spec; reflexivity. Qed.

Example ex_other_WF : WF ex_other.
Proof. apply wfb_spec; reflexivity. Qed.

Example ex_append : append_test_case_from ex_self ex_other 1%nat [5] = ex_result.
Proof. vm_compute. reflexivity. Qed.

Example ex_append_nonvacuous :
  WF ex_self /\ size ex_self = 2%nat /\ WF ex_other /\ size ex_other = 3%nat /\
  append_test_case_from ex_self ex_other 1%nat [5] = ex_result /\ size ex_result = 4%nat /\
  WF (append_test_case_from ex_self ex_other 1%nat [5]).
Proof.
  split; [exact ex_self_WF|]. split; [reflexivity|]. split; [exact ex_other_WF|].
  split; [reflexivity|]. split; [exact ex_append|]. split; [reflexivity|].
  apply append_from_WF; [exact ex_self_WF|exact ex_other_WF].
Qed.

(* a dropped statement: with no candidate of type 7 in self the tail statements are skipped *)
Example ex_append_dropped :
  append_test_case_from (mk [ex_stmt 6 [] 8] 7) ex_other 1%nat [] = mk [ex_stmt 6 [] 8] 7.
Proof. vm_compute. reflexivity. Qed.
